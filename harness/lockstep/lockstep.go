// Package lockstep runs two identical real nodes side by side: node A executes every block as given,
// the sibling B executes the same block without the transactions whose receipt on A was FAILED. The
// state-store keys in which the two differ are the (cumulative) effect of failed transactions; that
// set, the receipts, balances and delivery metadata of A are returned as one "Block" trace event.
// No oracle here.
package lockstep

import (
	"fmt"
	"io/ioutil"
	"os"
	"reflect"
	"sort"
	"strings"

	"github.com/meshplus/bitxhub-kit/types"
	"github.com/meshplus/bitxhub-model/constant"

	"github.com/meshplus/bitxhub-model/pb"
	"github.com/meshplus/bitxhub/verifharness/core"
	ethledger "github.com/meshplus/eth-kit/ledger"
)

type Pair struct {
	A, B     *core.Node
	Allow    map[string]bool // dump keys allowed to differ
	prevDiff map[string]bool
	Attr     bool
}

func New(opt core.Options, dir string) (*Pair, error) {
	oa, ob := opt, opt
	oa.Dir, ob.Dir = dir+"/a", dir+"/b"
	a, err := core.NewNode(oa)
	if err != nil {
		return nil, err
	}
	b, err := core.NewNode(ob)
	if err != nil {
		a.Close()
		return nil, err
	}
	p := &Pair{A: a, B: b, Allow: map[string]bool{}, prevDiff: map[string]bool{}, Attr: true}
	for _, ad := range a.Admins() {
		p.Allow["account-"+ad.Addr.String()] = true
	}
	return p, nil
}

func (p *Pair) Close() { p.A.Close(); p.B.Close() }

// Both applies the same setup to both nodes
func (p *Pair) Both(f func(n *core.Node) error) error {
	if err := f(p.A); err != nil {
		return err
	}
	return f(p.B)
}

func (p *Pair) SetupEqual() bool { return len(DiffKeys(p.A.Dump(), p.B.Dump())) == 0 }

func Balances(n *core.Node) (map[string]int64, map[string]int64, bool) {
	bal, non := map[string]int64{}, map[string]int64{}
	neg := false
	for k, v := range n.DumpRaw() {
		if kind, addr, _ := core.DecodeKey(k); kind == "account" {
			acc := &ethledger.InnerAccount{}
			if err := acc.Unmarshal(v); err != nil {
				continue
			}
			if acc.Balance.Sign() < 0 {
				neg = true
			}
			if acc.Balance.IsInt64() && acc.Balance.Int64() < 1<<31 {
				bal[addr] = acc.Balance.Int64()
			} else {
				bal[addr] = -1 // does not fit the specification's integers (never reached with the harness genesis)
			}
			non[addr] = int64(acc.Nonce)
		}
	}
	return bal, non, neg
}

func DiffKeys(x, y map[string]string) []string {
	out := []string{}
	for k, v := range x {
		if y[k] != v {
			out = append(out, k)
		}
	}
	for k := range y {
		if _, ok := x[k]; !ok {
			out = append(out, k)
		}
	}
	sort.Strings(out)
	return out
}

func RetClass(rc *pb.Receipt) string {
	s := string(rc.Ret)
	switch {
	case rc.Status == pb.Receipt_SUCCESS && s == "begin_failure":
		return "begin_failure"
	case rc.Status == pb.Receipt_SUCCESS && s == "batch_ibtp":
		return "batch"
	case rc.Status == pb.Receipt_SUCCESS:
		return "ok"
	case strings.Contains(s, "insufficient balance"):
		return "fee"
	case strings.Contains(s, "not sufficient funds"):
		return "funds"
	case strings.Contains(s, "signature"):
		return "sig"
	case strings.Contains(s, "proof"):
		return "proof"
	}
	return "err"
}

// Exec executes one block on A and its failure-free version on B. descs[i] describes txs[i] and is
// completed with status / ret / pos. The returned event has ev = "Block"; on an executor error the
// event is an "ExecError" and res is nil.
func (p *Pair) Exec(txs []pb.Transaction, descs []map[string]interface{}, timestamp int64) (map[string]interface{}, *core.BlockResult) {
	local := make([]bool, len(txs))
	preBal, _, _ := Balances(p.A)
	h0 := p.A.Height()
	res, err := p.A.ExecBlock(txs, local, timestamp)
	if err != nil {
		cls := "error"
		if strings.Contains(err.Error(), "wedged") {
			cls = "wedged"
		}
		return map[string]interface{}{"ev": "ExecError", "h": int(h0 + 1), "cls": cls, "msg": err.Error(), "height": int(p.A.Height())}, nil
	}
	orderOK := len(res.Receipts) == len(txs)
	var keep []pb.Transaction
	failedPos := []int{}
	for i, rc := range res.Receipts {
		if i >= len(txs) {
			break
		}
		if rc.TxHash.String() != txs[i].GetHash().String() {
			orderOK = false
		}
		descs[i]["status"] = rc.Status.String()
		descs[i]["ret"] = RetClass(rc)
		if os.Getenv("VERIF_DEBUG") != "" && rc.Status != pb.Receipt_SUCCESS {
			fmt.Fprintf(os.Stderr, "FAILED %v %v: %.200s\n", descs[i]["k"], descs[i]["m"], string(rc.Ret))
		}
		descs[i]["pos"] = i
		if rc.Status == pb.Receipt_SUCCESS {
			keep = append(keep, txs[i])
		} else {
			failedPos = append(failedPos, i)
			p.Allow["account-"+txs[i].GetFrom().String()] = true
		}
	}
	deliv := []int{}
	counter := map[string][]map[string]interface{}{}
	if res.Meta != nil {
		for chain, vs := range res.Meta.Counter {
			for _, v := range vs.Slice {
				if v.Valid {
					deliv = append(deliv, int(v.Index))
				}
				counter[chain] = append(counter[chain], map[string]interface{}{"pos": int(v.Index), "valid": v.Valid, "batch": v.IsBatch})
			}
		}
	}
	sort.Ints(deliv)
	resB, errB := p.B.ExecBlock(keep, make([]bool, len(keep)), timestamp)
	if errB != nil {
		p.Attr = false
	} else {
		for _, rc := range resB.Receipts {
			if rc.Status != pb.Receipt_SUCCESS {
				p.Attr = false
			}
		}
	}
	diff := []string{}
	for _, k := range DiffKeys(p.A.Dump(), p.B.Dump()) {
		if !p.prevDiff[k] || p.Allow[k] {
			diff = append(diff, k)
		}
		p.prevDiff[k] = true
	}
	allowed := []string{}
	for k := range p.Allow {
		allowed = append(allowed, k)
	}
	sort.Strings(allowed)
	postBal, postNon, neg := Balances(p.A)
	return map[string]interface{}{"ev": "Block", "h": int(res.Block.BlockHeader.Number), "hPrev": int(h0), "txs": descs,
		"nrec": len(res.Receipts), "orderOK": orderOK, "failed": failedPos, "deliv": deliv, "counter": counter,
		"attributable": p.Attr, "diff": diff, "allowed": allowed, "pre": preBal, "bal": postBal, "non": postNon, "negative": neg}, res
}

// ContractsByName: the built-in contracts under short names
var ContractsByName = map[string]constant.BoltContractAddress{
	"interchain": constant.InterchainContractAddr, "store": constant.StoreContractAddr, "rule": constant.RuleManagerContractAddr,
	"role": constant.RoleContractAddr, "appchain": constant.AppchainMgrContractAddr, "txmgr": constant.TransactionMgrContractAddr,
	"governance": constant.GovernanceContractAddr, "node": constant.NodeManagerContractAddr, "interbroker": constant.InterBrokerContractAddr,
	"service": constant.ServiceMgrContractAddr, "dapp": constant.DappMgrContractAddr, "strategy": constant.ProposalStrategyMgrContractAddr,
	"registry": constant.ServiceRegistryContractAddr, "resolver": constant.ServiceResolverContractAddr,
}

type MethodInfo struct {
	C        string   `json:"c"`
	M        string   `json:"m"`
	In       []string `json:"in"`
	Promoted bool     `json:"promoted"` // promoted from the embedded Stub or core manager, or not returning one *Response
}

// Surface enumerates the exported method surface of every registered contract by reflection on live objects
func Surface() []MethodInfo {
	dir, _ := ioutil.TempDir(os.Getenv("TMPDIR"), "surface-")
	defer os.RemoveAll(dir)
	n, err := core.NewNode(core.Options{Dir: dir, Seed: 1, Quiet: true})
	if err != nil {
		panic(err)
	}
	defer n.Close()
	byAddr := map[string]string{}
	for name, a := range ContractsByName {
		byAddr[a.Address().String()] = name
	}
	var out []MethodInfo
	for addr, c := range n.Exec.GetBoltContracts() {
		name, ok := byAddr[types.NewAddressByStr(addr).String()]
		if !ok {
			continue
		}
		t := reflect.TypeOf(c)
		// methods declared by the contract type itself (not promoted from embedded fields)
		own := map[string]bool{}
		et := t
		if et.Kind() == reflect.Ptr {
			et = et.Elem()
		}
		promoted := map[string]bool{}
		for i := 0; i < et.NumField(); i++ {
			f := et.Field(i)
			if f.Anonymous {
				ft := f.Type
				for j := 0; j < ft.NumMethod(); j++ {
					promoted[ft.Method(j).Name] = true
				}
				if ft.Kind() != reflect.Ptr && ft.Kind() != reflect.Interface {
					pt := reflect.PtrTo(ft)
					for j := 0; j < pt.NumMethod(); j++ {
						promoted[pt.Method(j).Name] = true
					}
				}
			}
		}
		_ = own
		for i := 0; i < t.NumMethod(); i++ {
			m := t.Method(i)
			var in []string
			for j := 1; j < m.Type.NumIn(); j++ {
				in = append(in, m.Type.In(j).String())
			}
			if in == nil {
				in = []string{}
			}
			resp := m.Type.NumOut() == 1 && strings.HasSuffix(m.Type.Out(0).String(), "boltvm.Response")
			out = append(out, MethodInfo{name, m.Name, in, promoted[m.Name] || !resp})
		}
	}
	sort.Slice(out, func(i, j int) bool { return out[i].C+out[i].M < out[j].C+out[j].M })
	return out
}
