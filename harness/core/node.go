// Package core stands up the real bitxhub node core (ledger + block executor + boltvm contracts)
// in-process, without consensus / p2p / API layers, and offers deterministic helpers to build
// transactions, feed blocks and observe the persisted results. It contains no oracle.
//
// Wiring mirrors internal/app/bitxhub.go: one read/write ledger driven by the block executor and one
// read-only "view" executor working on its own SimpleLedger over the same state storage.
package core

import (
	"fmt"
	"io/ioutil"
	"math/big"
	"os"
	"path/filepath"
	"strings"
	"time"

	"github.com/ethereum/go-ethereum/event"
	"github.com/meshplus/bitxhub-kit/storage"
	"github.com/meshplus/bitxhub-kit/storage/blockfile"
	"github.com/meshplus/bitxhub-kit/storage/leveldb"
	"github.com/meshplus/bitxhub-kit/types"
	"github.com/meshplus/bitxhub-model/pb"
	"github.com/meshplus/bitxhub/internal/executor"
	"github.com/meshplus/bitxhub/internal/executor/oracle/appchain"
	"github.com/meshplus/bitxhub/internal/ledger"
	"github.com/meshplus/bitxhub/internal/ledger/genesis"
	"github.com/meshplus/bitxhub/internal/model/events"
	"github.com/meshplus/bitxhub/internal/repo"
	"github.com/sirupsen/logrus"
)

const (
	// BaseTime is the origin of the logical clocks (tx timestamps and default block timestamps), in ns.
	BaseTime int64 = 1600000000000000000
	// ExecTimeout is how long ExecBlock waits for the executed event before reporting a wedge.
	ExecTimeout = 180 * time.Second
)

// Options configures a Node. The zero value is usable except for Dir.
type Options struct {
	Dir         string // directory holding all storages of this node (created if missing); reopening an existing Dir continues the chain
	NumAdmins   int    // governance admins in genesis; default 4; admin #0 has Weight 2 (super admin)
	Balance     string // genesis balance of each admin, default "1000000000"
	GasPrice    int64  // BVM gas price, default 1
	EnableAudit bool
	ProofType   string // "serial" (default) or "parallel"
	Seed        int64  // all keys are derived deterministically from Seed
	Quiet       bool   // discard logs; this is also the default, see Verbose
	Verbose     bool   // write bitxhub logs to stderr (ignored when Quiet)
	ChainID     uint64 // bitxhub id, default 1356 (the id used by the repository's own test configs)
}

// BlockResult is what one executed block left in the ledger.
type BlockResult struct {
	Block    *pb.Block          // as announced by the executor (roots, parent hash and hash filled in)
	Receipts []*pb.Receipt      // in block order, read back from the block file
	Meta     *pb.InterchainMeta // ledger.GetInterchainMeta(height)
	// EventMeta is the interchain meta announced in the executor's ExecutedEvent (nil for GetBlockResult),
	// as opposed to Meta which is read back from the ledger.
	EventMeta *pb.InterchainMeta
}

// Node is a bitxhub node core without consensus.
type Node struct {
	Ledger   *ledger.Ledger
	Exec     *executor.BlockExecutor // the read/write executor
	ViewExec *executor.BlockExecutor // read-only executor on a separate state-ledger instance (as in the real node)
	Cfg      *repo.Config
	Repo     *repo.Repo

	opt     Options
	logger  *logrus.Logger
	stateDB storage.Storage
	chainDB storage.Storage
	bf      *blockfile.BlockFile

	blockCh  chan events.ExecutedEvent
	logsCh   chan []*pb.EvmLog
	blockSub event.Subscription
	logsSub  event.Subscription

	admins   []*Account
	accounts map[string]*Account
	nonces   map[string]uint64
	proofs   map[*pb.IBTP][]byte // raw proofs of IBTPs made by NewIBTP
	clock    int64               // logical tx timestamp counter
	closed   bool
}

// NewNode opens (or creates) the node stored in opt.Dir.
func NewNode(opt Options) (*Node, error) {
	if opt.Dir == "" {
		return nil, fmt.Errorf("core: Options.Dir is required")
	}
	if opt.NumAdmins <= 0 {
		opt.NumAdmins = 4
	}
	if opt.Balance == "" {
		opt.Balance = "1000000000"
	}
	if opt.GasPrice < 0 {
		opt.GasPrice = 0 // explicit "free gas"
	} else if opt.GasPrice == 0 {
		opt.GasPrice = 1
	}
	if opt.ProofType == "" {
		opt.ProofType = "serial"
	}
	if opt.ChainID == 0 {
		opt.ChainID = 1356
	}
	n := &Node{opt: opt, accounts: map[string]*Account{}}
	n.logger = logrus.New()
	n.logger.SetOutput(ioutil.Discard)
	if opt.Verbose && !opt.Quiet {
		n.logger.SetOutput(os.Stderr)
		n.logger.SetLevel(logrus.DebugLevel)
	}
	for i := 0; i < opt.NumAdmins; i++ {
		n.admins = append(n.admins, n.Account(fmt.Sprintf("admin%d", i)))
	}
	if err := n.open(); err != nil {
		return nil, err
	}
	// Same Dir + same Seed => same clock origin after a re-open from another process.
	n.clock = BaseTime + int64(n.Height())*1000000
	return n, nil
}

func (n *Node) buildRepo() (*repo.Repo, error) {
	cfg, err := repo.DefaultConfig()
	if err != nil {
		return nil, err
	}
	cfg.RepoRoot = n.opt.Dir
	cfg.Solo = true
	cfg.Order.Type = "solo"
	cfg.Ledger.Type = "simple"
	cfg.Executor.Type = "serial"
	cfg.Executor.ProofType = n.opt.ProofType
	cfg.Executor.EnableAudit = n.opt.EnableAudit
	cfg.Genesis.ChainID = n.opt.ChainID
	cfg.Genesis.Balance = n.opt.Balance
	cfg.Genesis.BvmGasPrice = uint64(n.opt.GasPrice)
	cfg.Genesis.Admins = nil
	for i, a := range n.admins {
		w := uint64(repo.NormalAdminWeight)
		if i == 0 {
			w = repo.SuperAdminWeight
		}
		cfg.Genesis.Admins = append(cfg.Genesis.Admins, &repo.Admin{Address: a.Addr.String(), Weight: w})
	}
	// the strategy list of config/bitxhub.toml
	for _, m := range []string{repo.AppchainMgr, repo.ProposalStrategyMgr, repo.RuleMgr, repo.NodeMgr, repo.ServiceMgr, repo.RoleMgr, repo.DappMgr} {
		cfg.Genesis.Strategy = append(cfg.Genesis.Strategy, &repo.Strategy{Module: m, Typ: repo.SimpleMajority, Extra: repo.DefaultSimpleMajorityExpression})
	}
	// one primary vp node per admin (as in the stock 4-node config the node accounts are the admins)
	nc := &repo.NetworkConfig{ID: 1, N: uint64(len(n.admins)), Genesis: cfg.Genesis}
	for i, a := range n.admins {
		nc.Nodes = append(nc.Nodes, &repo.NetworkNodes{ID: uint64(i + 1), Pid: fmt.Sprintf("QmVerifHarnessNode%d", i+1),
			Hosts: []string{fmt.Sprintf("/ip4/127.0.0.1/tcp/%d/p2p/", 4001+i)}, Account: a.Addr.String()})
	}
	nodeKey := n.Account("node-key") // signs blocks (chain_ledger_impl.go prepareBlock)
	return &repo.Repo{Config: cfg, NetworkConfig: nc, Key: &repo.Key{Address: nodeKey.Addr.String(), PrivKey: nodeKey.Key}}, nil
}

// open (re)creates every storage handle, ledger, account cache and executor from Dir.
func (n *Node) open() (err error) {
	rep, err := n.buildRepo()
	if err != nil {
		return err
	}
	if err := os.MkdirAll(n.opt.Dir, 0755); err != nil {
		return err
	}
	defer func() {
		if err != nil {
			n.closeStorages()
		}
	}()
	if n.chainDB, err = leveldb.New(repo.GetStoragePath(n.opt.Dir, "blockchain")); err != nil {
		return fmt.Errorf("open blockchain db: %w", err)
	}
	if n.stateDB, err = leveldb.New(repo.GetStoragePath(n.opt.Dir, "ledger")); err != nil {
		return fmt.Errorf("open state db: %w", err)
	}
	if n.bf, err = blockfile.NewBlockFile(n.opt.Dir, n.logger); err != nil {
		return fmt.Errorf("open blockfile: %w", err)
	}
	ldg, err := ledger.New(rep, n.chainDB, n.stateDB, n.bf, nil, n.logger)
	if err != nil {
		return fmt.Errorf("ledger.New: %w", err)
	}
	viewState, err := ledger.NewSimpleLedger(rep, n.stateDB, nil, n.logger)
	if err != nil {
		return fmt.Errorf("view ledger: %w", err)
	}
	viewLdg := &ledger.Ledger{ChainLedger: ldg.ChainLedger, StateLedger: viewState}
	viewExec, err := executor.New(viewLdg, n.logger, &appchain.Client{}, rep.Config, big.NewInt(0))
	if err != nil {
		return fmt.Errorf("view executor: %w", err)
	}
	if ldg.GetChainMeta().Height == 0 {
		if err := genesis.Initialize(&rep.Config.Genesis, rep.NetworkConfig.Nodes, rep.NetworkConfig.N, ldg, viewExec); err != nil {
			return fmt.Errorf("genesis: %w", err)
		}
	}
	exec, err := executor.New(ldg, n.logger, &appchain.Client{}, rep.Config, big.NewInt(n.opt.GasPrice))
	if err != nil {
		return fmt.Errorf("executor.New: %w", err)
	}
	n.blockCh = make(chan events.ExecutedEvent, 16)
	n.logsCh = make(chan []*pb.EvmLog, 16)
	n.blockSub = exec.SubscribeBlockEvent(n.blockCh)
	n.logsSub = exec.SubscribeLogsEvent(n.logsCh)
	if err := exec.Start(); err != nil {
		return fmt.Errorf("executor start: %w", err)
	}
	n.Ledger, n.Exec, n.ViewExec, n.Cfg, n.Repo = ldg, exec, viewExec, rep.Config, rep
	n.nonces = map[string]uint64{}
	n.closed = false
	return nil
}

func (n *Node) closeStorages() {
	// All Close methods below are idempotent; the stopped executor closes the ledger a second time
	// from its persistData goroutine (executor.go), which is harmless.
	if n.chainDB != nil {
		_ = n.chainDB.Close()
	}
	if n.stateDB != nil {
		_ = n.stateDB.Close()
	}
	if n.bf != nil {
		_ = n.bf.Close()
	}
}

// Close stops the executor and closes the storages so that Dir can be reopened in-process.
func (n *Node) Close() {
	if n.closed {
		return
	}
	n.closed = true
	n.blockSub.Unsubscribe()
	n.logsSub.Unsubscribe()
	_ = n.Exec.Stop()
	n.closeStorages()
}

// Restart = Close + reopen from the same Dir with a new executor, ledger and account cache. The
// harness-side nonce counters are re-initialised from the ledger; the logical clock keeps running.
func (n *Node) Restart() error {
	n.Close()
	// Executor.Stop() lets a goroutine of the old executor close the old ledger asynchronously; until the
	// old leveldb handles are really gone the directory lock is busy. That is a property of this in-process
	// restart, not of bitxhub: retry for a while.
	var err error
	for i := 0; i < 100; i++ {
		if err = n.open(); err == nil || !strings.Contains(err.Error(), "temporarily unavailable") {
			return err
		}
		time.Sleep(30 * time.Millisecond)
	}
	return err
}

// Height is the persisted chain height.
func (n *Node) Height() uint64 { return n.Ledger.GetChainMeta().Height }

// BlockTime is the default (logical) timestamp of block h.
func BlockTime(h uint64) int64 { return BaseTime + int64(h)*int64(time.Second) }

// ExecBlock submits block Height()+1 and returns once it is executed AND persisted. timestamp 0 means
// BlockTime(height). local[i]==true skips the signature check of tx i (as for API-received txs).
func (n *Node) ExecBlock(txs []pb.Transaction, local []bool, timestamp int64) (*BlockResult, error) {
	return n.ExecBlockAt(n.Height()+1, txs, local, timestamp)
}

// ExecBlockAt is ExecBlock with an explicit block number. number <= Height() drives the executor's own
// rollback path (handle.go rollbackBlocks: the ledger is rolled back to number-1, then the block is
// executed). The caller guarantees 2 <= number <= Height()+1 and number-1 inside the journal window
// (the last 10 blocks), otherwise the executor panics. After a rollback the harness-side nonce
// counters are re-initialised from the ledger.
func (n *Node) ExecBlockAt(number uint64, txs []pb.Transaction, local []bool, timestamp int64) (*BlockResult, error) {
	if n.closed {
		return nil, fmt.Errorf("node closed")
	}
	h, before := number, n.Height()
	if timestamp == 0 {
		timestamp = BlockTime(h)
	}
	block := &pb.Block{
		BlockHeader:  &pb.BlockHeader{Number: h, Timestamp: timestamp},
		Transactions: &pb.Transactions{Transactions: txs},
	}
	n.drain() // stale events (e.g. of a wedged earlier call) must not be mistaken for this block's
	n.Exec.ExecuteBlock(&pb.CommitEvent{Block: block, LocalList: local})

	// The executor persists synchronously and only then posts the block event, then the logs event,
	// then clears its ledger caches (handle.go processExecuteEvent); wait for both events.
	deadline := time.NewTimer(ExecTimeout)
	defer deadline.Stop()
	var ev *events.ExecutedEvent
	gotLogs := false
	for ev == nil || !gotLogs {
		select {
		case e := <-n.blockCh:
			if e.Block == block { // the executor announces the very object we submitted
				ev = &e
			}
		case <-n.logsCh:
			gotLogs = true
		case <-deadline.C:
			return nil, fmt.Errorf("wedged: block %d not executed within %s (ledger height %d)", h, ExecTimeout, n.Height())
		}
	}
	for n.Height() != h { // already true in practice: chain meta is updated before the event is posted
		select {
		case <-deadline.C:
			return nil, fmt.Errorf("wedged: block %d executed but ledger height is %d", h, n.Height())
		case <-time.After(time.Millisecond):
		}
	}
	if h <= before {
		n.nonces = map[string]uint64{}
	}
	res, err := n.blockResult(ev.Block)
	if res != nil {
		res.EventMeta = ev.InterchainMeta
	}
	return res, err
}

// drain empties the event channels without blocking.
func (n *Node) drain() {
	for {
		select {
		case <-n.blockCh:
		case <-n.logsCh:
		default:
			return
		}
	}
}

func (n *Node) blockResult(block *pb.Block) (*BlockResult, error) {
	h := block.BlockHeader.Number
	res := &BlockResult{Block: block}
	// whole receipt list of the block, in block order (robust against duplicate tx hashes in a block)
	data, err := n.bf.Get(blockfile.BlockFileReceiptTable, h)
	if err != nil {
		return nil, fmt.Errorf("read receipts of block %d: %w", h, err)
	}
	rs := &pb.Receipts{}
	if err := rs.Unmarshal(data); err != nil {
		return nil, fmt.Errorf("unmarshal receipts of block %d: %w", h, err)
	}
	res.Receipts = rs.Receipts
	if len(res.Receipts) != len(block.Transactions.Transactions) {
		return nil, fmt.Errorf("block %d: %d txs but %d receipts", h, len(block.Transactions.Transactions), len(res.Receipts))
	}
	if res.Meta, err = n.Ledger.GetInterchainMeta(h); err != nil {
		return nil, fmt.Errorf("interchain meta of block %d: %w", h, err)
	}
	return res, nil
}

// GetBlockResult reads an already persisted block (full txs), its receipts and interchain meta.
func (n *Node) GetBlockResult(h uint64) (*BlockResult, error) {
	block, err := n.Ledger.GetBlock(h, true)
	if err != nil {
		return nil, err
	}
	return n.blockResult(block)
}

// BlockHash returns the hash of the persisted block h (from the block body, not the height index).
func (n *Node) BlockHash(h uint64) (*types.Hash, error) {
	block, err := n.Ledger.GetBlock(h, false)
	if err != nil {
		return nil, err
	}
	return block.BlockHash, nil
}

// View applies read-only transactions on the view executor (gas price 0, nothing is persisted).
func (n *Node) View(txs []pb.Transaction) []*pb.Receipt {
	return n.ViewExec.ApplyReadonlyTransactions(txs)
}

// FreshView applies read-only transactions on a view executor made for the occasion (a new state-ledger instance over the
// same store): what a view executor that has never executed anything answers.
func (n *Node) FreshView(txs []pb.Transaction) ([]*pb.Receipt, error) {
	vs, err := ledger.NewSimpleLedger(n.Repo, n.stateDB, nil, n.logger)
	if err != nil {
		return nil, err
	}
	vl := &ledger.Ledger{ChainLedger: n.Ledger.ChainLedger, StateLedger: vs}
	ve, err := executor.New(vl, n.logger, &appchain.Client{}, n.Repo.Config, big.NewInt(0))
	if err != nil {
		return nil, err
	}
	return ve.ApplyReadonlyTransactions(txs), nil
}

// Dir returns the node directory.
func (n *Node) Dir() string { return filepath.Clean(n.opt.Dir) }
