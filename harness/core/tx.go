package core

import (
	"crypto/sha256"
	"fmt"

	"github.com/meshplus/bitxhub-kit/crypto"
	"github.com/meshplus/bitxhub-kit/crypto/asym/ecdsa"
	"github.com/meshplus/bitxhub-kit/types"
	"github.com/meshplus/bitxhub-model/constant"
	"github.com/meshplus/bitxhub-model/pb"
	ethledger "github.com/meshplus/eth-kit/ledger"
)

// Account is a keyed account derived deterministically from (Seed, Name).
type Account struct {
	Name string
	Key  crypto.PrivateKey
	Addr *types.Address
}

// Admins returns the genesis governance admins in config order (#0 is the super admin).
func (n *Node) Admins() []*Account { return n.admins }

// Account returns the secp256k1 account whose private key is sha256("<seed>|<name>|<try>") (first try
// that is a valid scalar). Same (Seed, name) => same account, in any process.
func (n *Node) Account(name string) *Account {
	if a, ok := n.accounts[name]; ok {
		return a
	}
	for try := 0; ; try++ {
		d := sha256.Sum256([]byte(fmt.Sprintf("%d|%s|%d", n.opt.Seed, name, try)))
		key, err := ecdsa.UnmarshalPrivateKey(d[:], crypto.Secp256k1)
		if err != nil {
			continue // not in [1, N-1]: practically unreachable
		}
		addr, err := key.PublicKey().Address()
		if err != nil {
			panic(err)
		}
		a := &Account{Name: name, Key: key, Addr: addr}
		n.accounts[name] = a
		return a
	}
}

// LedgerNonce reads the persisted nonce of an address straight from the state store (it does not go
// through the ledger object, so it cannot disturb the executor's in-memory account set).
func (n *Node) LedgerNonce(a *types.Address) uint64 {
	data := n.stateDB.Get([]byte("account-" + a.String()))
	if data == nil {
		return 0
	}
	acc := &ethledger.InnerAccount{}
	if err := acc.Unmarshal(data); err != nil {
		panic(fmt.Errorf("corrupt account record of %s: %w", a.String(), err))
	}
	return acc.Nonce
}

// LedgerBalance reads the persisted balance of an address ("0" if the account does not exist).
func (n *Node) LedgerBalance(a *types.Address) string {
	data := n.stateDB.Get([]byte("account-" + a.String()))
	if data == nil {
		return "0"
	}
	acc := &ethledger.InnerAccount{}
	if err := acc.Unmarshal(data); err != nil {
		panic(fmt.Errorf("corrupt account record of %s: %w", a.String(), err))
	}
	return acc.Balance.String()
}

// NextNonce returns the next nonce of the harness-side counter of a (initialised from the ledger on
// first use and after Restart) and advances it.
func (n *Node) NextNonce(a *types.Address) uint64 {
	k := a.String()
	v, ok := n.nonces[k]
	if !ok {
		v = n.LedgerNonce(a)
	}
	n.nonces[k] = v + 1
	return v
}

// SetNonce overrides the harness-side counter (to build replayed / gapped nonces on purpose).
func (n *Node) SetNonce(a *types.Address, v uint64) { n.nonces[a.String()] = v }

func (n *Node) tick() int64 { n.clock++; return n.clock }

func mustMarshal(b []byte, err error) []byte {
	if err != nil {
		panic(err)
	}
	return b
}

// sign builds and signs a transaction with the next nonce and logical timestamp of the sender.
func (n *Node) sign(from *Account, to *types.Address, payload []byte, ibtp *pb.IBTP) *pb.BxhTransaction {
	tx := &pb.BxhTransaction{
		From:      from.Addr,
		To:        to,
		Payload:   payload,
		IBTP:      ibtp,
		Timestamp: n.tick(),
		Nonce:     n.NextNonce(from.Addr),
	}
	if err := tx.Sign(from.Key); err != nil {
		panic(err)
	}
	tx.TransactionHash = tx.Hash()
	return tx
}

// TransferTx builds a NORMAL (balance transfer) transaction.
func (n *Node) TransferTx(from *Account, to *types.Address, amount string) pb.Transaction {
	td := &pb.TransactionData{Type: pb.TransactionData_NORMAL, Amount: amount}
	return n.sign(from, to, mustMarshal(td.Marshal()), nil)
}

// InvokePayload marshals a BVM invoke payload (TransactionData{INVOKE,BVM,InvokePayload{method,args}}).
func InvokePayload(method string, args ...*pb.Arg) []byte {
	pl := &pb.InvokePayload{Method: method, Args: args}
	td := &pb.TransactionData{Type: pb.TransactionData_INVOKE, VmType: pb.TransactionData_BVM, Payload: mustMarshal(pl.Marshal())}
	return mustMarshal(td.Marshal())
}

// InvokePayloadBytes marshals just pb.InvokePayload{method,args} (what an XVM call carries as TransactionData.Payload).
func InvokePayloadBytes(method string, args ...*pb.Arg) []byte {
	pl := &pb.InvokePayload{Method: method, Args: args}
	return mustMarshal(pl.Marshal())
}

// InvokeTx builds a BVM contract invocation.
func (n *Node) InvokeTx(from *Account, contract *types.Address, method string, args ...*pb.Arg) pb.Transaction {
	return n.sign(from, contract, InvokePayload(method, args...), nil)
}

// IBTPTx builds an interchain transaction like tester.genIBTPTransaction. If the IBTP was made by
// NewIBTP the raw proof bytes are attached as tx.Extra (Extra is covered neither by the signature nor
// by the tx hash, see pb.BxhTransaction.Hash).
func (n *Node) IBTPTx(from *Account, ibtp *pb.IBTP) pb.Transaction {
	payload := InvokePayload("HandleIBTP", pb.Bytes(mustMarshal(ibtp.Marshal())))
	tx := n.sign(from, constant.InterchainContractAddr.Address(), payload, ibtp)
	if p, ok := n.proofs[ibtp]; ok {
		tx.Extra = p
	}
	return tx
}

// IBTPTxWithProof is IBTPTx with an explicit Extra (raw proof), e.g. a proof not matching ibtp.Proof.
func (n *Node) IBTPTxWithProof(from *Account, ibtp *pb.IBTP, proof []byte) pb.Transaction {
	tx := n.IBTPTx(from, ibtp).(*pb.BxhTransaction)
	tx.Extra = proof
	return tx
}

// RawTx builds a properly signed transaction with arbitrary payload bytes (and optional IBTP).
func (n *Node) RawTx(from *Account, to *types.Address, payload []byte, ibtp *pb.IBTP) pb.Transaction {
	return n.sign(from, to, payload, ibtp)
}

// BxhID is the bitxhub id as used in full service ids.
func (n *Node) BxhID() string { return fmt.Sprintf("%d", n.opt.ChainID) }

// FullServiceID returns "<bxhID>:<chainID>:<serviceID>".
func (n *Node) FullServiceID(chainID, serviceID string) string {
	return fmt.Sprintf("%s:%s:%s", n.BxhID(), chainID, serviceID)
}

// NewIBTP builds an IBTP whose Payload is a valid pb.Payload{Content: pb.Content{Func:"set",...}} and
// whose Proof field is sha256(proof), which is what proof_pool.go verifyProof compares with the hash
// of tx.Extra. The raw proof is remembered and attached by IBTPTx. For receipts from/to keep the
// direction of the request (from = source service), as in tester/case003.
func (n *Node) NewIBTP(from, to string, index uint64, typ pb.IBTP_Type, timeoutHeight int64, proof []byte) *pb.IBTP {
	content := &pb.Content{Func: "set", Args: [][]byte{[]byte("key"), []byte(fmt.Sprintf("value-%d", index))}}
	payload := &pb.Payload{Encrypted: false, Content: mustMarshal(content.Marshal())}
	ph := sha256.Sum256(proof)
	ibtp := &pb.IBTP{
		From:          from,
		To:            to,
		Index:         index,
		Type:          typ,
		TimeoutHeight: timeoutHeight,
		Proof:         ph[:],
		Payload:       mustMarshal(payload.Marshal()),
	}
	if n.proofs == nil {
		n.proofs = map[*pb.IBTP][]byte{}
	}
	n.proofs[ibtp] = proof
	return ibtp
}

// Args re-exports the pb argument constructors under one roof for callers that build invocations.
var Args = struct {
	String func(string) *pb.Arg
	Bytes  func([]byte) *pb.Arg
	Uint64 func(uint64) *pb.Arg
	Int32  func(int32) *pb.Arg
	Int64  func(int64) *pb.Arg
	Bool   func(bool) *pb.Arg
}{pb.String, pb.Bytes, pb.Uint64, pb.Int32, pb.Int64, pb.Bool}
