package core

// Binding of internal/router (the last step of IBTP delivery: block + interchain meta -> what every pier is sent).
// A real InterchainRouter is put on the node's ledger; the executed block is pushed through PutBlockAndMeta the way
// internal/app/feedhub.go does, with one subscription per pier, and the same height is read back through
// GetInterchainTxWrappers. Nothing is interpreted here: the wrappers are only projected onto block positions and ids.

import (
	"fmt"

	"github.com/meshplus/bitxhub-model/pb"
	"github.com/meshplus/bitxhub/internal/router"
)

// Routed is what one pier got for one block on one of the two paths.
type Routed struct {
	Msgs     int                      `json:"msgs"`     // messages received (live) / sent (query) for this block
	Wrappers int                      `json:"wrappers"` // wrappers inside them
	H        []int                    `json:"h"`        // height of every wrapper
	Txs      []map[string]interface{} `json:"txs"`      // pos (-1: not a transaction of this block), valid, batch -- in wrapper order
	Timeout  []string                 `json:"tmo"`
	Multi    []string                 `json:"multi"`
}

func project(block *pb.Block, ws []*pb.InterchainTxWrappers) *Routed {
	pos := map[string][]int{}
	for i, tx := range block.Transactions.Transactions {
		h := tx.GetHash().String()
		pos[h] = append(pos[h], i)
	}
	out := &Routed{Msgs: len(ws), H: []int{}, Txs: []map[string]interface{}{}, Timeout: []string{}, Multi: []string{}}
	for _, m := range ws {
		for _, w := range m.InterchainTxWrappers {
			out.Wrappers++
			out.H = append(out.H, int(w.Height))
			for _, vt := range w.Transactions {
				p := -1
				if vt.Tx != nil {
					h := vt.Tx.GetHash().String()
					if l := pos[h]; len(l) > 0 {
						p = l[0]
						if len(l) > 1 {
							pos[h] = l[1:]
						}
					}
				}
				out.Txs = append(out.Txs, map[string]interface{}{"pos": p, "valid": vt.Valid, "batch": vt.IsBatch})
			}
			out.Timeout = append(out.Timeout, w.TimeoutIbtps...)
			out.Multi = append(out.Multi, w.MultiTxIbtps...)
		}
	}
	return out
}

// Route returns, for every pier, what the live feed sent for the block and what the query path returns for its height.
func (n *Node) Route(res *BlockResult, piers []string) (live, query map[string]*Routed, err error) {
	defer func() {
		if r := recover(); r != nil {
			err = fmt.Errorf("router panicked: %v", r)
		}
	}()
	rt, err := router.New(n.logger, n.Repo, n.Ledger, nil, 1)
	if err != nil {
		return nil, nil, err
	}
	chans := map[string]chan *pb.InterchainTxWrappers{}
	for _, p := range piers {
		c, err := rt.AddPier(p)
		if err != nil {
			return nil, nil, err
		}
		chans[p] = c
	}
	meta := res.EventMeta
	if meta == nil {
		meta = res.Meta
	}
	rt.PutBlockAndMeta(res.Block, meta)
	live, query = map[string]*Routed{}, map[string]*Routed{}
	for _, p := range piers {
		var ws []*pb.InterchainTxWrappers
	drain:
		for {
			select {
			case w := <-chans[p]:
				ws = append(ws, w)
			default:
				break drain
			}
		}
		live[p] = project(res.Block, ws)
		rt.RemovePier(p)
	}
	h := res.Block.BlockHeader.Number
	stored, err := n.Ledger.GetBlock(h, true)
	if err != nil {
		return nil, nil, err
	}
	for _, p := range piers {
		ch := make(chan *pb.InterchainTxWrappers, 16)
		if err := rt.GetInterchainTxWrappers(p, h, h, ch); err != nil {
			return nil, nil, err
		}
		var ws []*pb.InterchainTxWrappers
		for w := range ch {
			ws = append(ws, w)
		}
		query[p] = project(stored, ws)
	}
	return live, query, nil
}
