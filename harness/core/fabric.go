package core

import (
	"crypto/ecdsa"
	"crypto/elliptic"
	"crypto/rand"
	"crypto/sha256"
	"crypto/x509"
	"crypto/x509/pkix"
	"encoding/asn1"
	"encoding/json"
	"encoding/pem"
	"fmt"
	"math/big"
	"sync"
	"time"

	"github.com/golang/protobuf/proto"
	"github.com/hyperledger/fabric-protos-go/msp"
	"github.com/hyperledger/fabric-protos-go/peer"
	"github.com/meshplus/bitxhub-core/governance"
	"github.com/meshplus/bitxhub-core/validator"
	"github.com/meshplus/bitxhub-model/constant"
	"github.com/meshplus/bitxhub-model/pb"
)

// ChainTypeFabric is a chain type for which the built-in (simplified) Fabric rules may be master rule.
const ChainTypeFabric = "Fabric V1.4.3"

// FabricEndorser is a Fabric endorser: a P-256 key and its self-signed certificate (PEM), which is what
// an appchain validated by the simplified Fabric rule registers as trust root.
type FabricEndorser struct {
	Label string
	Key   *ecdsa.PrivateKey
	PEM   []byte
}

var (
	endorserMu sync.Mutex
	endorsers  = map[string]*FabricEndorser{}
)

// Endorser returns the endorser with that label (one per process: all nodes of a run share it).
func Endorser(label string) *FabricEndorser {
	endorserMu.Lock()
	defer endorserMu.Unlock()
	if e, ok := endorsers[label]; ok {
		return e
	}
	key, err := ecdsa.GenerateKey(elliptic.P256(), rand.Reader)
	if err != nil {
		panic(err)
	}
	tmpl := &x509.Certificate{SerialNumber: big.NewInt(int64(len(endorsers) + 1)), Subject: pkix.Name{CommonName: "endorser-" + label},
		NotBefore: time.Unix(1600000000, 0), NotAfter: time.Unix(4000000000, 0)}
	der, err := x509.CreateCertificate(rand.Reader, tmpl, tmpl, &key.PublicKey, key)
	if err != nil {
		panic(err)
	}
	e := &FabricEndorser{Label: label, Key: key, PEM: pem.EncodeToMemory(&pem.Block{Type: "CERTIFICATE", Bytes: der})}
	endorsers[label] = e
	return e
}

// EndorserLabelOf maps a stored trust root back to the endorser label ("" if it is none of ours).
func EndorserLabelOf(trustRoot []byte) string {
	endorserMu.Lock()
	defer endorserMu.Unlock()
	for l, e := range endorsers {
		if string(e.PEM) == string(trustRoot) {
			return l
		}
	}
	return ""
}

// FabricArtifact describes the endorsed chaincode response a Fabric proof carries.
type FabricArtifact struct {
	Index     uint64
	Chaincode string
	Func      string
	Args      [][]byte
	Signer    *FabricEndorser
	BadSig    bool // the endorsement signature does not verify
}

// FabricProof builds the proof bytes the (simplified) Fabric rule validates: a ChaincodeActionPayload
// whose proposal response carries the broker's out-message {index, call_func} and one endorsement.
func FabricProof(a FabricArtifact) []byte {
	info := map[string]interface{}{"index": a.Index, "dst_full_id": "", "src_full_id": "", "encrypt": false,
		"call_func": map[string]interface{}{"func": a.Func, "args": a.Args}}
	infoJSON, _ := json.Marshal(info)
	cca := &peer.ChaincodeAction{ChaincodeId: &peer.ChaincodeID{Name: a.Chaincode}, Response: &peer.Response{Status: 200, Payload: infoJSON}}
	ccaBytes, err := proto.Marshal(cca)
	if err != nil {
		panic(err)
	}
	prp, err := proto.Marshal(&peer.ProposalResponsePayload{ProposalHash: []byte("h"), Extension: ccaBytes})
	if err != nil {
		panic(err)
	}
	endorser, err := proto.Marshal(&msp.SerializedIdentity{Mspid: "Org1MSP", IdBytes: a.Signer.PEM})
	if err != nil {
		panic(err)
	}
	digest := sha256.Sum256(append(append([]byte{}, prp...), endorser...))
	if a.BadSig {
		digest[0] ^= 0xff
	}
	r, s, err := ecdsa.Sign(rand.Reader, a.Signer.Key, digest[:])
	if err != nil {
		panic(err)
	}
	sig, _ := asn1.Marshal(struct{ R, S *big.Int }{r, s})
	cap := &peer.ChaincodeActionPayload{Action: &peer.ChaincodeEndorsedAction{ProposalResponsePayload: prp,
		Endorsements: []*peer.Endorsement{{Endorser: endorser, Signature: sig}}}}
	b, err := proto.Marshal(cap)
	if err != nil {
		panic(err)
	}
	return b
}

// RegisterFabricAppchain registers chainID as a Fabric chain whose master rule is the simplified Fabric
// rule and whose trust root is the certificate of the endorser, and votes until it is available.
func (n *Node) RegisterFabricAppchain(admin *Account, chainID string, e *FabricEndorser) ([]*BlockResult, error) {
	res, err := n.ExecOne(n.InvokeTx(admin, constant.AppchainMgrContractAddr.Address(), "RegisterAppchain",
		pb.String(chainID),
		pb.String("name-"+chainID),
		pb.Bytes([]byte("")),
		pb.String(ChainTypeFabric),
		pb.Bytes(e.PEM),
		pb.String(`{"channel_id":"mychannel","chaincode_id":"broker","broker_version":"1"}`),
		pb.String("desc"),
		pb.String(validator.SimFabricRuleAddr),
		pb.String("url"),
		pb.String(admin.Addr.String()),
		pb.String("reason"),
	))
	out := appendRes(nil, res)
	if err != nil {
		return out, err
	}
	if !res.Receipts[0].IsSuccess() {
		return out, fmt.Errorf("register fabric chain %s: %s", chainID, string(res.Receipts[0].Ret))
	}
	votes, err := n.VoteAll(n.ProposalIDOf(res.Receipts[0]), true)
	out = append(out, votes...)
	if err != nil {
		return out, err
	}
	if st := n.AppchainStatus(chainID); st != string(governance.GovernanceAvailable) {
		return out, fmt.Errorf("appchain %s is %q, want available", chainID, st)
	}
	return out, nil
}

// AppchainRawTrustRoot returns the stored trust root bytes of a chain.
func (n *Node) AppchainRawTrustRoot(chainID string) []byte {
	r := n.Query(constant.AppchainMgrContractAddr.Address(), "GetAppchain", pb.String(chainID))
	if r == nil || !r.IsSuccess() {
		return nil
	}
	var obj struct {
		TrustRoot []byte `json:"trust_root"`
	}
	if json.Unmarshal(r.Ret, &obj) != nil {
		return nil
	}
	return obj.TrustRoot
}
