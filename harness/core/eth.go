package core

import (
	"math/big"
	"time"

	"github.com/ethereum/go-ethereum/common"
	"github.com/meshplus/bitxhub-kit/types"
	"github.com/meshplus/bitxhub-model/pb"
	ethtypes "github.com/meshplus/eth-kit/types"
)

// InitEthSigner sets the process-wide EIP-155 signer of eth-kit the way cmd/bitxhub start does.
func (n *Node) InitEthSigner() {
	ethtypes.InitEIP155Signer(big.NewInt(int64(n.opt.ChainID)))
}

// EthTx builds an Ethereum-style legacy transaction (EIP-155 signature by the account's secp256k1 key) with
// the sender's next nonce. to == nil creates a contract.
func (n *Node) EthTx(from *Account, to *types.Address, value *big.Int, gas uint64, gasPrice int64, data []byte) pb.Transaction {
	return n.EthTxNonce(from, to, value, gas, gasPrice, data, n.NextNonce(from.Addr))
}

// EthTxNonce is EthTx with an explicit nonce.
func (n *Node) EthTxNonce(from *Account, to *types.Address, value *big.Int, gas uint64, gasPrice int64, data []byte, nonce uint64) pb.Transaction {
	n.InitEthSigner()
	inner := &ethtypes.LegacyTx{Nonce: nonce, GasPrice: big.NewInt(gasPrice), Gas: gas, Value: value, Data: data}
	if to != nil {
		a := common.BytesToAddress(to.Bytes())
		inner.To = &a
	}
	chainID := big.NewInt(int64(n.opt.ChainID))
	inner.V = new(big.Int).Add(big.NewInt(35), new(big.Int).Mul(chainID, big.NewInt(2))) // makes the tx "protected" for GetSignHash
	inner.R, inner.S = new(big.Int), new(big.Int)
	tx := &ethtypes.EthTransaction{Inner: inner, Time: time.Unix(BaseTime/int64(time.Second), 0)}
	sig, err := from.Key.Sign(tx.GetSignHash().Bytes())
	if err != nil {
		panic(err)
	}
	inner.R = new(big.Int).SetBytes(sig[:32])
	inner.S = new(big.Int).SetBytes(sig[32:64])
	inner.V = new(big.Int).Add(big.NewInt(int64(sig[64])+35), new(big.Int).Mul(chainID, big.NewInt(2)))
	return &ethtypes.EthTransaction{Inner: inner, Time: tx.Time}
}

// StoreContractInit is the init code of a 23-byte contract: a call stores calldata word 0 in slot 0 and then
// reverts iff the first calldata byte is 0xff (so a reverted call must leave slot 0 untouched).
//
//	runtime: 6000 35 80 6000 55 6000 1a 60ff 14 6011 57 00 5b 6000 6000 fd
var StoreContractInit = append([]byte{0x60, 0x17, 0x80, 0x60, 0x0b, 0x60, 0x00, 0x39, 0x60, 0x00, 0xf3},
	[]byte{0x60, 0x00, 0x35, 0x80, 0x60, 0x00, 0x55, 0x60, 0x00, 0x1a, 0x60, 0xff, 0x14, 0x60, 0x11, 0x57, 0x00, 0x5b, 0x60, 0x00, 0x60, 0x00, 0xfd}...)

// KillContractInit is the init code of a 21-byte contract: a call whose first calldata byte is 0xaa self-destructs the
// contract in favour of the caller, any other call emits an anonymous log of 32 bytes.
//
//	runtime: 6000 35 6000 1a 60aa 14 6012 57 6020 6000 a0 00 5b 33 ff
var KillContractInit = append([]byte{0x60, 0x15, 0x80, 0x60, 0x0b, 0x60, 0x00, 0x39, 0x60, 0x00, 0xf3},
	[]byte{0x60, 0x00, 0x35, 0x60, 0x00, 0x1a, 0x60, 0xaa, 0x14, 0x60, 0x12, 0x57, 0x60, 0x20, 0x60, 0x00, 0xa0, 0x00, 0x5b, 0x33, 0xff}...)
