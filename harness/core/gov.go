package core

import (
	"sort"
	"encoding/json"
	"fmt"
	"strconv"

	"github.com/meshplus/bitxhub-core/governance"
	"github.com/meshplus/bitxhub-core/validator"
	"github.com/meshplus/bitxhub-kit/types"
	"github.com/meshplus/bitxhub-model/constant"
	"github.com/meshplus/bitxhub-model/pb"
)

// ChainTypeETH is a chain type for which the built-in happy rule is accepted as master rule
// (rule-mgr IsDefault accepts validator.HappyRuleAddr for every chain type; non-fabric types do not
// need a structured broker).
const ChainTypeETH = "ETH"

// ExecOne submits one transaction as its own block and fails unless its receipt is SUCCESS.
func (n *Node) ExecOne(tx pb.Transaction) (*BlockResult, error) {
	res, err := n.ExecBlock([]pb.Transaction{tx}, []bool{false}, 0)
	if err != nil {
		return nil, err
	}
	if r := res.Receipts[0]; !r.IsSuccess() {
		return res, fmt.Errorf("block %d tx %s failed: %s", res.Block.BlockHeader.Number, tx.GetHash().String(), string(r.Ret))
	}
	return res, nil
}

// Fund transfers amount from admin 0.
func (n *Node) Fund(to *types.Address, amount string) ([]*BlockResult, error) {
	res, err := n.ExecOne(n.TransferTx(n.admins[0], to, amount))
	return appendRes(nil, res), err
}

func appendRes(l []*BlockResult, r *BlockResult) []*BlockResult {
	if r != nil {
		l = append(l, r)
	}
	return l
}

// Query runs a read-only BVM invocation from admin 0 through View. It uses the ledger nonce and the
// current logical time without advancing either, so queries never perturb later transactions.
func (n *Node) Query(contract *types.Address, method string, args ...*pb.Arg) *pb.Receipt {
	from := n.admins[0]
	tx := &pb.BxhTransaction{
		From:      from.Addr,
		To:        contract,
		Payload:   InvokePayload(method, args...),
		Timestamp: n.clock,
		Nonce:     n.LedgerNonce(from.Addr),
	}
	if err := tx.Sign(from.Key); err != nil {
		panic(err)
	}
	tx.TransactionHash = tx.Hash()
	rs := n.View([]pb.Transaction{tx})
	if len(rs) != 1 {
		return nil
	}
	return rs[0]
}

// ProposalIDOf extracts the proposal id from a governance receipt ("" if Ret is not a GovernanceResult).
func (n *Node) ProposalIDOf(receipt *pb.Receipt) string {
	g := &governance.GovernanceResult{}
	if receipt == nil || json.Unmarshal(receipt.Ret, g) != nil {
		return ""
	}
	return g.ProposalID
}

// statusOf reads the "status" field of a JSON object returned by a query ("" if absent).
func (n *Node) statusOf(contract constant.BoltContractAddress, method, id string) string {
	r := n.Query(contract.Address(), method, pb.String(id))
	if r == nil || !r.IsSuccess() {
		return ""
	}
	var obj struct {
		Status string `json:"status"`
	}
	if json.Unmarshal(r.Ret, &obj) != nil {
		return ""
	}
	return obj.Status
}

// ProposalStatus returns "proposed" | "approve" | "reject" | "pause" or "" if the proposal is unknown.
func (n *Node) ProposalStatus(id string) string {
	return n.statusOf(constant.GovernanceContractAddr, "GetProposal", id)
}

// AppchainStatus returns the governance status of an appchain ("" if unknown).
func (n *Node) AppchainStatus(chainID string) string {
	return n.statusOf(constant.AppchainMgrContractAddr, "GetAppchain", chainID)
}

// ServiceStatus returns the governance status of service "<chainID>:<serviceID>" ("" if unknown). It is read from
// the stored record, not through the service manager's query method: the harness must not depend on the contract code
// path it is there to observe (and must not warm the contract's per-process state on some replicas only).
func (n *Node) ServiceStatus(chainServiceID string) string {
	data := n.stateDB.Get(append(append([]byte{}, constant.ServiceMgrContractAddr.Address().Bytes()...), []byte("service-"+chainServiceID)...))
	if data == nil {
		return n.statusOf(constant.ServiceMgrContractAddr, "GetServiceInfo", chainServiceID)
	}
	var obj struct {
		Status string `json:"status"`
	}
	if json.Unmarshal(data, &obj) != nil {
		return ""
	}
	return obj.Status
}

// ServiceBlacklist returns the full service ids the stored record of service "<chainID>:<serviceID>" names in its
// permission list (the callers it refuses), sorted; read from the stored record like ServiceStatus.
func (n *Node) ServiceBlacklist(chainServiceID string) []string {
	out := []string{}
	data := n.stateDB.Get(append(append([]byte{}, constant.ServiceMgrContractAddr.Address().Bytes()...), []byte("service-"+chainServiceID)...))
	if data == nil {
		return out
	}
	var obj struct {
		Permission map[string]struct{} `json:"permission"`
	}
	if json.Unmarshal(data, &obj) != nil {
		return out
	}
	for k := range obj.Permission {
		out = append(out, k)
	}
	sort.Strings(out)
	return out
}

// VoteAll lets the admins vote in config order, one vote per block, until the proposal is concluded.
func (n *Node) VoteAll(proposalID string, approve bool) ([]*BlockResult, error) {
	ballot := "approve"
	if !approve {
		ballot = "reject"
	}
	var out []*BlockResult
	for _, a := range n.admins {
		if st := n.ProposalStatus(proposalID); st != "proposed" {
			if st == "" {
				return out, fmt.Errorf("proposal %s not found", proposalID)
			}
			return out, nil
		}
		res, err := n.ExecOne(n.InvokeTx(a, constant.GovernanceContractAddr.Address(), "Vote",
			pb.String(proposalID), pb.String(ballot), pb.String("reason")))
		out = appendRes(out, res)
		if err != nil {
			return out, err
		}
	}
	if st := n.ProposalStatus(proposalID); st == "proposed" {
		return out, fmt.Errorf("proposal %s still open after all admins voted", proposalID)
	}
	return out, nil
}

// RegisterAppchain registers chainID (type ETH, happy rule as master rule, admin as the only appchain
// admin) and votes until the appchain is available. admin must be funded first.
func (n *Node) RegisterAppchain(admin *Account, chainID string) ([]*BlockResult, error) {
	res, err := n.ExecOne(n.InvokeTx(admin, constant.AppchainMgrContractAddr.Address(), "RegisterAppchain",
		pb.String(chainID),
		pb.String("name-"+chainID),
		pb.Bytes([]byte("")), // pubKey
		pb.String(ChainTypeETH),
		pb.Bytes(nil), // trust root
		pb.String("broker-"+chainID),
		pb.String("desc"),
		pb.String(validator.HappyRuleAddr),
		pb.String("url"),
		pb.String(admin.Addr.String()),
		pb.String("reason"),
	))
	out := appendRes(nil, res)
	if err != nil {
		return out, err
	}
	votes, err := n.VoteAll(n.ProposalIDOf(res.Receipts[0]), true)
	out = append(out, votes...)
	if err != nil {
		return out, err
	}
	if st := n.AppchainStatus(chainID); st != string(governance.GovernanceAvailable) {
		return out, fmt.Errorf("appchain %s is %q, want available", chainID, st)
	}
	return out, nil
}

// RegisterService registers "<chainID>:<serviceID>" (type CallContract) and votes until it is available.
// blacklist is the comma separated list of full service ids that may NOT call the service (permits).
func (n *Node) RegisterService(admin *Account, chainID, serviceID string, ordered bool, blacklist string) ([]*BlockResult, error) {
	ord := uint64(0)
	if ordered {
		ord = 1
	}
	res, err := n.ExecOne(n.InvokeTx(admin, constant.ServiceMgrContractAddr.Address(), "RegisterService",
		pb.String(chainID),
		pb.String(serviceID),
		pb.String("name-"+chainID+"-"+serviceID),
		pb.String("CallContract"),
		pb.String("intro"),
		pb.Uint64(ord),
		pb.String(blacklist),
		pb.String("details"),
		pb.String("reason"),
	))
	out := appendRes(nil, res)
	if err != nil {
		return out, err
	}
	votes, err := n.VoteAll(n.ProposalIDOf(res.Receipts[0]), true)
	out = append(out, votes...)
	if err != nil {
		return out, err
	}
	if st := n.ServiceStatus(chainID + ":" + serviceID); st != string(governance.GovernanceAvailable) {
		return out, fmt.Errorf("service %s:%s is %q, want available", chainID, serviceID, st)
	}
	return out, nil
}

// GetStatus asks the transaction manager for the status of an IBTP id ("from-to-index"); it returns
// the status name (BEGIN, SUCCESS, ...) or "" if there is no such transaction.
func (n *Node) GetStatus(ibtpID string) string {
	r := n.Query(constant.TransactionMgrContractAddr.Address(), "GetStatus", pb.String(ibtpID))
	if r == nil || !r.IsSuccess() {
		return ""
	}
	v, err := strconv.Atoi(string(r.Ret))
	if err != nil {
		return ""
	}
	return pb.TransactionStatus(v).String()
}

// GetInterchain returns the interchain counters of a full service id (nil if none).
func (n *Node) GetInterchain(fullServiceID string) *pb.Interchain {
	r := n.Query(constant.InterchainContractAddr.Address(), "GetInterchain", pb.String(fullServiceID))
	if r == nil || !r.IsSuccess() {
		return nil
	}
	ic := &pb.Interchain{}
	if err := ic.Unmarshal(r.Ret); err != nil {
		return nil
	}
	return ic
}
