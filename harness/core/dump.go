package core

import (
	"bytes"
	"crypto/sha256"
	"encoding/hex"
	"strconv"
	"strings"

	"github.com/meshplus/bitxhub-kit/types"
)

// Raw key layout of the simple ledger's state store (internal/ledger/key.go, account.go):
//
//	"account-<0xAddr>"   -> marshalled InnerAccount (nonce, balance, code hash)
//	"code-<0xAddr>"      -> contract code
//	<20 addr bytes><key> -> one state entry of the account (composeStateKey)
//	"journal-<h|minHeight|maxHeight>" -> block journal (excluded from dumps)
//
// Dump keys are printable and canonical:
//
//	"account-<0xAddr>" | "code-<0xAddr>" | "state-<0xAddr>-<quoted key>" | "other-<hex>"
//
// where <quoted key> is the Go string literal (strconv.QuoteToASCII) of the state key without the
// surrounding quotes, hence reversible.
const (
	accountPrefix = "account-"
	codePrefix    = "code-"
	journalPrefix = "journal-"
	statePrefix   = "state-"
	otherPrefix   = "other-"
	addrStrLen    = 42 // "0x" + 40 hex digits
)

// EncodeKey maps a raw state-store key to its dump key; ok is false for block-journal keys.
func EncodeKey(raw []byte) (key string, ok bool) {
	switch {
	case bytes.HasPrefix(raw, []byte(journalPrefix)):
		return "", false
	case bytes.HasPrefix(raw, []byte(accountPrefix)), bytes.HasPrefix(raw, []byte(codePrefix)):
		return string(raw), true
	case len(raw) >= types.AddressLength:
		q := strconv.QuoteToASCII(string(raw[types.AddressLength:]))
		return statePrefix + types.NewAddress(raw[:types.AddressLength]).String() + "-" + q[1:len(q)-1], true
	}
	return otherPrefix + hex.EncodeToString(raw), true
}

// DecodeKey splits a dump key into kind ("account" | "code" | "state" | "other"), the account address
// ("0x..." checksummed as printed by types.Address.String) and, for state entries, the raw state key.
func DecodeKey(k string) (kind string, addr string, stateKey string) {
	switch {
	case strings.HasPrefix(k, accountPrefix):
		return "account", k[len(accountPrefix):], ""
	case strings.HasPrefix(k, codePrefix):
		return "code", k[len(codePrefix):], ""
	case strings.HasPrefix(k, statePrefix) && len(k) > len(statePrefix)+addrStrLen:
		rest := k[len(statePrefix):]
		if sk, err := strconv.Unquote(`"` + rest[addrStrLen+1:] + `"`); err == nil {
			return "state", rest[:addrStrLen], sk
		}
	}
	return "other", "", ""
}

// DumpRaw returns the whole persisted state store (dump key -> value) except the block journal. Call
// it only between ExecBlock calls.
func (n *Node) DumpRaw() map[string][]byte {
	out := map[string][]byte{}
	it := n.stateDB.Iterator(nil, nil)
	for it.Next() {
		if k, ok := EncodeKey(it.Key()); ok {
			out[k] = append([]byte{}, it.Value()...)
		}
	}
	return out
}

// Dump is DumpRaw with every value replaced by hex(sha256(value)).
func (n *Node) Dump() map[string]string {
	out := map[string]string{}
	for k, v := range n.DumpRaw() {
		h := sha256.Sum256(v)
		out[k] = hex.EncodeToString(h[:])
	}
	return out
}
