package core

import (
	"crypto/sha256"
	"encoding/json"
	"fmt"
	"math/big"

	"github.com/meshplus/bitxhub-core/governance"
	"github.com/meshplus/bitxhub-core/validator"
	"github.com/meshplus/bitxhub-kit/types"
	"github.com/meshplus/bitxhub-model/constant"
	"github.com/meshplus/bitxhub-model/pb"
	"github.com/meshplus/bitxhub/pkg/utils"
)

// TrustRootOf renders the validator set of another BitXHub as proof_pool.verifyMultiSign reads it.
func TrustRootOf(vals []*types.Address) []byte {
	addrs := []string{}
	for _, v := range vals {
		addrs = append(addrs, v.String())
	}
	b, _ := json.Marshal(map[string][]string{"addresses": addrs})
	return b
}

// RegisterRelayChain registers another BitXHub (chain type "relaychain") whose validator set is vals and
// votes until it is available.
func (n *Node) RegisterRelayChain(admin *Account, bxhID string, vals []*types.Address) ([]*BlockResult, error) {
	res, err := n.ExecOne(n.InvokeTx(admin, constant.AppchainMgrContractAddr.Address(), "RegisterAppchain",
		pb.String(bxhID),
		pb.String("name-"+bxhID),
		pb.Bytes([]byte("")),
		pb.String("relaychain"),
		pb.Bytes(TrustRootOf(vals)),
		pb.String("broker-"+bxhID),
		pb.String("desc"),
		pb.String(validator.HappyRuleAddr),
		pb.String("url"),
		pb.String(admin.Addr.String()),
		pb.String("reason"),
	))
	out := appendRes(nil, res)
	if err != nil {
		return out, err
	}
	if !res.Receipts[0].IsSuccess() {
		return out, fmt.Errorf("register relay chain %s: %s", bxhID, string(res.Receipts[0].Ret))
	}
	votes, err := n.VoteAll(n.ProposalIDOf(res.Receipts[0]), true)
	out = append(out, votes...)
	if err != nil {
		return out, err
	}
	if st := n.AppchainStatus(bxhID); st != string(governance.GovernanceAvailable) {
		return out, fmt.Errorf("relay chain %s is %q, want available", bxhID, st)
	}
	return out, nil
}

// UpdateTrustRootTx is the appchain admin's UpdateAppchain that replaces the trust root (validator set).
func (n *Node) UpdateTrustRootTx(admin *Account, chainID string, vals []*types.Address) pb.Transaction {
	return n.InvokeTx(admin, constant.AppchainMgrContractAddr.Address(), "UpdateAppchain",
		pb.String(chainID), pb.String("name-"+chainID), pb.String("desc"), pb.Bytes(TrustRootOf(vals)),
		pb.String(admin.Addr.String()), pb.String("reason"))
}

// AppchainTrustRoot returns the stored status and validator addresses of a registered chain.
func (n *Node) AppchainTrustRoot(chainID string) (status string, addrs []string, found bool) {
	r := n.Query(constant.AppchainMgrContractAddr.Address(), "GetAppchain", pb.String(chainID))
	if r == nil || !r.IsSuccess() {
		return "", nil, false
	}
	var obj struct {
		Status    string `json:"status"`
		TrustRoot []byte `json:"trust_root"`
	}
	if json.Unmarshal(r.Ret, &obj) != nil {
		return "", nil, false
	}
	var tr struct {
		Addresses []string `json:"addresses"`
	}
	_ = json.Unmarshal(obj.TrustRoot, &tr)
	return obj.Status, tr.Addresses, true
}

// SignIBTP is one validator's signature over (ibtp, status), produced like utils.GetIBTPSign.
func SignIBTP(key *Account, ibtp *pb.IBTP, status pb.TransactionStatus) []byte {
	h, err := utils.EncodePackedAndHash(ibtp, status)
	if err != nil {
		panic(err)
	}
	s, err := key.Key.Sign(h)
	if err != nil {
		panic(err)
	}
	return s
}

// SetProof replaces the raw proof remembered for an IBTP made by NewIBTP (and its committed hash).
func (n *Node) SetProof(ibtp *pb.IBTP, proof []byte, commit bool) {
	if commit {
		ph := sha256.Sum256(proof)
		ibtp.Proof = ph[:]
	}
	n.proofs[ibtp] = proof
}

// secp256k1 group order
var secpN, _ = new(big.Int).SetString("fffffffffffffffffffffffffffffffebaaedce6af48a03bbfd25e8cd0364141", 16)

// TwinSignature returns the other valid recoverable signature of the same signer over the same digest:
// (r, N-s, v^1). It differs in bytes and recovers to the same public key.
func TwinSignature(sig []byte) []byte {
	if len(sig) != 65 {
		return sig
	}
	out := append([]byte{}, sig...)
	s := new(big.Int).SetBytes(sig[32:64])
	s.Sub(secpN, s)
	b := s.Bytes()
	for i := 32; i < 64; i++ {
		out[i] = 0
	}
	copy(out[64-len(b):64], b)
	out[64] ^= 1
	return out
}
