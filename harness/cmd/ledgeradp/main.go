// ledgeradp drives the real state ledger (internal/ledger SimpleLedger on leveldb) with abstract op
// plans and records one ndjson trace per plan. No oracle here: inputs are instantiated, the public
// API is called, answers are decoded.
package main

import (
	"encoding/hex"
	"encoding/json"
	"flag"
	"fmt"
	"io/ioutil"
	"math/big"
	"math/rand"
	"os"
	"sort"
	"strings"

	"github.com/meshplus/bitxhub-kit/storage"
	"github.com/meshplus/bitxhub-kit/storage/leveldb"
	"github.com/meshplus/bitxhub-kit/types"
	"github.com/meshplus/bitxhub/internal/ledger"
	"github.com/meshplus/bitxhub/internal/repo"
	eledger "github.com/meshplus/eth-kit/ledger"
	"github.com/sirupsen/logrus"
)

type Op struct {
	Op     string `json:"op"`
	A      string `json:"a,omitempty"`
	K      string `json:"k,omitempty"`
	V      string `json:"v,omitempty"` // "NIL" = nil
	Kind   string `json:"kind,omitempty"`
	Snap   int    `json:"snap,omitempty"` // index (from the end: 0 = most recent) of the live snapshot to revert to
	T      int    `json:"t,omitempty"`
	Prefix string `json:"prefix,omitempty"`
}

type Plan struct {
	Name string `json:"name"`
	Ops  []Op   `json:"ops"`
}

var accts = map[string]*types.Address{
	"a1": types.NewAddressByStr("0x1000000000000000000000000000000000000001"),
	"a2": types.NewAddressByStr("0x1000000000000000000000000000000000000002"),
	"a3": types.NewAddressByStr("0x2000000000000000000000000000000000000003"),
}
var acctNames = []string{"a1", "a2", "a3"}
var keys = []string{"k", "k1", "k12", "z"}

type runner struct {
	dir    string
	ldb    storage.Storage
	sl     eledger.StateLedger
	out    []map[string]interface{}
	snaps  []int
	height uint64
	lastAccounts map[string]eledger.IAccount
	lastRoot     *types.Hash
	flushed      bool
}

func slot(a, kind, k string) string {
	if kind == "st" {
		return a + "/s/" + k
	}
	return a + "/" + kind
}

func (r *runner) open() {
	l, err := leveldb.New(r.dir)
	if err != nil {
		panic(err)
	}
	r.ldb = l
	logger := logrus.New()
	logger.SetOutput(ioutil.Discard)
	sl, err := ledger.NewSimpleLedger(&repo.Repo{Config: &repo.Config{}}, l, nil, logger)
	if err != nil {
		panic(err)
	}
	r.sl = sl
	r.snaps = nil
	r.flushed = false
}

// val projects a stored value: nil and the empty byte string are the same value (the database cannot
// tell them apart and the property speaks about values, not about the "exists" flag)
func val(b []byte) string {
	if len(b) == 0 {
		return "NIL"
	}
	return string(b)
}

func wv(v string) string {
	if v == "" {
		return "NIL"
	}
	return v
}

func (r *runner) read(a, kind, k string) string {
	addr := accts[a]
	switch kind {
	case "bal":
		return r.sl.GetBalance(addr).String()
	case "non":
		return fmt.Sprintf("%d", r.sl.GetNonce(addr))
	case "code":
		c := r.sl.GetCode(addr)
		if len(c) == 0 {
			return "NIL"
		}
		return string(c)
	default:
		_, v := r.sl.GetState(addr, []byte(k))
		return val(v)
	}
}

// exists is the "found" flag a contract sees when it reads the slot (always true for account fields)
func (r *runner) exists(a, kind, k string) bool {
	if kind != "st" {
		return true
	}
	ok, _ := r.sl.GetState(accts[a], []byte(k))
	return ok
}

func (r *runner) existsAll() map[string]bool {
	m := map[string]bool{}
	for _, s := range allSlots() {
		m[s["sl"]] = r.exists(s["a"], s["kind"], s["k"])
	}
	return m
}

func (r *runner) emit(m map[string]interface{}) { r.out = append(r.out, m) }

func allSlots() []map[string]string {
	var out []map[string]string
	for _, a := range acctNames {
		for _, kd := range []string{"bal", "non", "code"} {
			out = append(out, map[string]string{"sl": slot(a, kd, ""), "a": a, "kind": kd})
		}
		for _, k := range keys {
			out = append(out, map[string]string{"sl": slot(a, "st", k), "a": a, "kind": "st", "k": k})
		}
	}
	return out
}

func (r *runner) readAll() map[string]string {
	m := map[string]string{}
	for _, s := range allSlots() {
		m[s["sl"]] = r.read(s["a"], s["kind"], s["k"])
	}
	return m
}

func (r *runner) run(p *Plan) {
	r.open()
	r.emit(map[string]interface{}{"ev": "Init", "name": p.Name, "slots": allSlots(), "window": 10})
	for _, op := range p.Ops {
		addr := accts[op.A]
		switch op.Op {
		case "Set": // journaled write
			if r.flushed {
				continue
			}
			switch op.Kind {
			case "bal":
				n, _ := new(big.Int).SetString(op.V, 10)
				r.sl.SetBalance(addr, n)
			case "non":
				var n uint64
				fmt.Sscanf(op.V, "%d", &n)
				r.sl.SetNonce(addr, n)
			case "code":
				r.sl.SetCode(addr, []byte(op.V))
			default:
				var v []byte
				if op.V != "NIL" {
					v = []byte(op.V)
				}
				r.sl.SetState(addr, []byte(op.K), v, nil)
			}
			r.emit(map[string]interface{}{"ev": "W", "sl": slot(op.A, op.Kind, op.K), "v": wv(op.V), "raw": op.V, "j": true})
		case "AddBal", "SubBal": // AddBalance / SubBalance: read-modify-write of the balance
			if r.flushed {
				continue
			}
			pre := r.sl.GetBalance(addr)
			d, _ := new(big.Int).SetString(op.V, 10)
			nv := new(big.Int).Add(pre, d)
			if op.Op == "SubBal" {
				nv = new(big.Int).Sub(pre, d)
				if nv.Sign() < 0 {
					continue
				}
				r.emit(map[string]interface{}{"ev": "R", "sl": slot(op.A, "bal", ""), "v": pre.String(), "ex": true})
				r.sl.(*ledger.SimpleLedger).SubBalance(addr, d)
			} else {
				r.emit(map[string]interface{}{"ev": "R", "sl": slot(op.A, "bal", ""), "v": pre.String(), "ex": true})
				r.sl.(*ledger.SimpleLedger).AddBalance(addr, d)
			}
			if d.Sign() != 0 {
				r.emit(map[string]interface{}{"ev": "W", "sl": slot(op.A, "bal", ""), "v": nv.String(), "raw": op.Op + op.V, "j": true})
			}
		case "Add": // non-journaled storage write
			if r.flushed {
				continue
			}
			var v []byte
			if op.V != "NIL" {
				v = []byte(op.V)
			}
			r.sl.AddState(addr, []byte(op.K), v)
			r.emit(map[string]interface{}{"ev": "W", "sl": slot(op.A, "st", op.K), "v": wv(op.V), "raw": op.V, "j": false})
		case "Get":
			r.emit(map[string]interface{}{"ev": "R", "sl": slot(op.A, op.Kind, op.K), "v": r.read(op.A, op.Kind, op.K), "ex": r.exists(op.A, op.Kind, op.K)})
		case "Query":
			ok, vals := r.sl.QueryByPrefix(addr, op.Prefix)
			out := []string{}
			if ok {
				for _, v := range vals {
					if len(v) == 0 {
						continue // an entry without a value carries nothing (empty == absent, see val)
					}
					out = append(out, val(v))
				}
			}
			sls := []string{}
			for _, k := range keys {
				if strings.HasPrefix(k, op.Prefix) {
					sls = append(sls, slot(op.A, "st", k))
				}
			}
			r.emit(map[string]interface{}{"ev": "Q", "a": op.A, "prefix": op.Prefix, "sls": sls, "vals": out})
		case "Snapshot":
			if r.flushed {
				continue
			}
			id := r.sl.Snapshot()
			r.snaps = append(r.snaps, id)
			r.emit(map[string]interface{}{"ev": "Snap", "id": id})
		case "Revert":
			if len(r.snaps) == 0 || r.flushed {
				continue
			}
			i := len(r.snaps) - 1 - op.Snap%len(r.snaps)
			id := r.snaps[i]
			r.sl.RevertToSnapshot(id)
			r.snaps = r.snaps[:i]
			r.emit(map[string]interface{}{"ev": "Revert", "id": id})
		case "Finalise":
			if r.flushed {
				continue
			}
			r.sl.Finalise(true)
			r.snaps = nil
			r.emit(map[string]interface{}{"ev": "Finalise"})
		case "Flush":
			if r.flushed {
				continue
			}
			r.sl.Finalise(true) // blocks are flushed after the last transaction was finalised
			r.snaps = nil
			r.emit(map[string]interface{}{"ev": "Finalise"})
			accounts, root := r.sl.FlushDirtyData()
			r.lastAccounts, r.lastRoot = accounts, root
			r.flushed = true
			r.emit(map[string]interface{}{"ev": "Flush", "root": hex.EncodeToString(root.Bytes())})
		case "Commit":
			if !r.flushed {
				continue
			}
			r.height++
			if err := r.sl.Commit(r.height, r.lastAccounts, r.lastRoot); err != nil {
				panic(err)
			}
			r.flushed = false
			r.emit(map[string]interface{}{"ev": "Commit", "h": int(r.height), "version": int(r.sl.Version())})
		case "Rollback":
			if r.flushed {
				continue
			}
			err := r.sl.RollbackState(uint64(op.T))
			e := "ok"
			switch err {
			case nil:
				if uint64(op.T) < r.height {
					r.height = uint64(op.T)
					r.snaps = nil
				}
			case ledger.ErrorRollbackToHigherNumber:
				e = "higher"
			case ledger.ErrorRollbackTooMuch:
				e = "toomuch"
			default:
				e = "other:" + err.Error()
			}
			r.emit(map[string]interface{}{"ev": "Rollback", "t": op.T, "err": e, "version": int(r.sl.Version())})
		case "Reopen":
			if r.flushed {
				continue
			}
			r.ldb.Close()
			r.open()
			r.emit(map[string]interface{}{"ev": "Reopen", "version": int(r.sl.Version())})
		case "ReadAll":
			r.emit(map[string]interface{}{"ev": "ReadAll", "vals": r.readAll(), "ex": r.existsAll()})
		default:
			panic("unknown op " + op.Op)
		}
	}
	r.ldb.Close()
}

// ---- random plans ----
var stVals = []string{"NIL", "", "v", "w", "x1"}

func genOps(rng *rand.Rand, n int, long bool) []Op {
	var ops []Op
	pick := func(s []string) string { return s[rng.Intn(len(s))] }
	na := 2 + rng.Intn(2)
	blocks := 0
	for i := 0; i < n; i++ {
		a := acctNames[rng.Intn(na)]
		switch c := rng.Intn(40); {
		case c < 3:
			// a transaction as the executor runs it: snapshot, writes, revert on failure, finalise
			ops = append(ops, Op{Op: "Snapshot"})
			for j := 0; j < 1+rng.Intn(3); j++ {
				b := acctNames[rng.Intn(na)]
				switch rng.Intn(5) {
				case 0:
					ops = append(ops, Op{Op: "Set", A: b, Kind: "bal", V: fmt.Sprintf("%d", rng.Intn(4))})
				case 1:
					ops = append(ops, Op{Op: "Add", A: b, K: pick(keys), V: pick(stVals)})
				default:
					ops = append(ops, Op{Op: "Set", A: b, Kind: "st", K: pick(keys), V: pick(stVals)})
				}
			}
			if rng.Intn(2) == 0 {
				ops = append(ops, Op{Op: "Revert", Snap: 0}, Op{Op: "ReadAll"})
			}
			ops = append(ops, Op{Op: "Finalise"})
		case c < 8:
			ops = append(ops, Op{Op: "Set", A: a, Kind: "st", K: pick(keys), V: pick(stVals)})
		case c < 11:
			ops = append(ops, Op{Op: "Add", A: a, K: pick(keys), V: pick(stVals)})
		case c < 12:
			ops = append(ops, Op{Op: "Set", A: a, Kind: "bal", V: fmt.Sprintf("%d", rng.Intn(4))})
		case c < 13:
			ops = append(ops, Op{Op: pick([]string{"AddBal", "AddBal", "SubBal"}), A: a, V: fmt.Sprintf("%d", rng.Intn(3))})
		case c < 14:
			ops = append(ops, Op{Op: "Set", A: a, Kind: "non", V: fmt.Sprintf("%d", rng.Intn(3))})
		case c < 15:
			ops = append(ops, Op{Op: "Set", A: acctNames[rng.Intn(2)], Kind: "code", V: pick([]string{"c1", "c2", "c3"})})
			if rng.Intn(2) == 0 {
				ops = append(ops, Op{Op: "Get", A: acctNames[rng.Intn(2)], Kind: "code"})
			}
		case c < 21:
			kd := pick([]string{"st", "st", "st", "bal", "non", "code"})
			ops = append(ops, Op{Op: "Get", A: a, Kind: kd, K: pick(keys)})
		case c < 23:
			ops = append(ops, Op{Op: "Query", A: a, Prefix: pick([]string{"k", "k1", "", "z"})})
		case c < 26:
			ops = append(ops, Op{Op: "Snapshot"})
		case c < 28:
			ops = append(ops, Op{Op: "Revert", Snap: rng.Intn(3)}, Op{Op: "ReadAll"})
		case c < 30:
			ops = append(ops, Op{Op: "Finalise"})
		case c < 35:
			ops = append(ops, Op{Op: "Flush"})
			if rng.Intn(3) == 0 {
				ops = append(ops, Op{Op: "Get", A: a, Kind: "st", K: pick(keys)}, Op{Op: "Query", A: a, Prefix: "k"})
			}
			if rng.Intn(2) == 0 {
				ops = append(ops, Op{Op: "ReadAll"}) // reads served by the account cache between flush and commit
			}
			ops = append(ops, Op{Op: "Commit"})
			blocks++
			if rng.Intn(3) == 0 {
				ops = append(ops, Op{Op: "ReadAll"})
			}
		case c < 37:
			t := 0
			if blocks > 0 {
				t = rng.Intn(blocks + 2)
				if long && rng.Intn(2) == 0 && blocks > 3 {
					t = blocks - rng.Intn(3)
				}
			}
			ops = append(ops, Op{Op: "Finalise"}, Op{Op: "Rollback", T: t}, Op{Op: "ReadAll"})
			if t < blocks {
				blocks = t
			}
		case c < 39:
			ops = append(ops, Op{Op: "Reopen"}, Op{Op: "ReadAll"})
		default:
			ops = append(ops, Op{Op: "ReadAll"})
		}
	}
	return ops
}

// C10 histories: the same final change set realised through different orders / detours / cache histories
func genRootFamily(rng *rand.Rand, base string, idx int) []*Plan {
	pick := func(s []string) string { return s[rng.Intn(len(s))] }
	// a prefix history (committed blocks) shared by the whole family; every write changes its slot
	var prefix []Op
	cur := map[string]string{}
	for b := 0; b < rng.Intn(3); b++ {
		for i := 0; i < 1+rng.Intn(4); i++ {
			o := Op{Op: "Set", A: acctNames[rng.Intn(2)], Kind: "st", K: pick(keys), V: pick([]string{"v", "w", "x1"})}
			if cur[slot(o.A, "st", o.K)] == o.V {
				continue
			}
			cur[slot(o.A, "st", o.K)] = o.V
			prefix = append(prefix, o)
		}
		if rng.Intn(3) > 0 {
			o := Op{Op: "Set", A: acctNames[rng.Intn(2)], Kind: "bal", V: fmt.Sprintf("%d", 10+rng.Intn(5))}
			if cur[slot(o.A, "bal", "")] != o.V {
				cur[slot(o.A, "bal", "")] = o.V
				prefix = append(prefix, o)
			}
		}
		prefix = append(prefix, Op{Op: "Flush"}, Op{Op: "Commit"})
	}
	// the change set of the block under test: distinct slots
	type w struct{ op Op }
	var ws []Op
	used := map[string]bool{}
	for i := 0; i < 2+rng.Intn(4); i++ {
		a := acctNames[rng.Intn(2)]
		var o Op
		switch rng.Intn(6) {
		case 0:
			if rng.Intn(2) == 0 {
				o = Op{Op: "AddBal", A: a, Kind: "bal", V: fmt.Sprintf("%d", 1+rng.Intn(5))}
			} else {
				o = Op{Op: "Set", A: a, Kind: "bal", V: fmt.Sprintf("%d", 1+rng.Intn(5))}
			}
		case 1:
			o = Op{Op: "Set", A: a, Kind: "non", V: fmt.Sprintf("%d", 1+rng.Intn(3))}
		case 2:
			o = Op{Op: "Set", A: a, Kind: "code", V: pick([]string{"c1", "c2"})}
		default:
			o = Op{Op: "Set", A: a, Kind: "st", K: pick(keys), V: pick(stVals)}
		}
		s := slot(o.A, o.Kind, o.K)
		if used[s] {
			continue
		}
		used[s] = true
		ws = append(ws, o)
	}
	mk := func(name string, body []Op, reopen bool) *Plan {
		ops := append([]Op{}, prefix...)
		if reopen {
			ops = append(ops, Op{Op: "Reopen"})
		}
		ops = append(ops, body...)
		ops = append(ops, Op{Op: "Flush"}, Op{Op: "Commit"}, Op{Op: "ReadAll"})
		return &Plan{Name: name, Ops: ops}
	}
	var plans []*Plan
	plans = append(plans, mk(fmt.Sprintf("%s-%d-base", base, idx), ws, false))
	// permutation
	perm := append([]Op{}, ws...)
	rng.Shuffle(len(perm), func(i, j int) { perm[i], perm[j] = perm[j], perm[i] })
	plans = append(plans, mk(fmt.Sprintf("%s-%d-perm", base, idx), perm, false))
	// reads first + reopen (cold cache)
	var rd []Op
	for _, o := range ws {
		rd = append(rd, Op{Op: "Get", A: o.A, Kind: o.Kind, K: o.K})
	}
	plans = append(plans, mk(fmt.Sprintf("%s-%d-reads-reopen", base, idx), append(rd, perm...), true))
	// snapshot/revert detour on another slot value, then the real writes
	var det []Op
	det = append(det, Op{Op: "Snapshot"})
	for _, o := range ws {
		x := o
		if x.Kind == "st" {
			x.V = "detour"
		}
		det = append(det, x)
	}
	det = append(det, Op{Op: "Revert", Snap: 0}, Op{Op: "Finalise"})
	plans = append(plans, mk(fmt.Sprintf("%s-%d-detour", base, idx), append(det, ws...), false))
	// the block executed, committed, rolled back and executed again on the warm ledger (same root as the first time and as a
	// ledger that never saw the rolled-back block); and the same with other values in the rolled-back block
	nb := 0
	for _, o := range prefix {
		if o.Op == "Commit" {
			nb++
		}
	}
	if nb > 0 {
		again := append(append([]Op{}, ws...), Op{Op: "Flush"}, Op{Op: "Commit"}, Op{Op: "Rollback", T: nb})
		plans = append(plans, mk(fmt.Sprintf("%s-%d-again", base, idx), append(again, perm...), false))
		var other []Op
		for _, o := range ws {
			x := o
			if x.Kind == "st" {
				x.V = "detour"
			}
			other = append(other, x)
		}
		other = append(other, Op{Op: "Set", A: acctNames[rng.Intn(2)], Kind: "st", K: pick(keys), V: "gone"}, Op{Op: "Flush"}, Op{Op: "Commit"}, Op{Op: "Rollback", T: nb})
		plans = append(plans, mk(fmt.Sprintf("%s-%d-rolled", base, idx), append(other, ws...), false))
	}
	// single-field perturbations
	for i := range ws {
		pert := append([]Op{}, ws...)
		x := pert[i]
		switch x.Kind {
		case "st":
			if x.V == "w" {
				x.V = "v"
			} else {
				x.V = "w"
			}
		case "code":
			if x.V == "c1" {
				x.V = "c2"
			} else {
				x.V = "c1"
			}
		default:
			x.V = x.V + "7"
		}
		pert[i] = x
		plans = append(plans, mk(fmt.Sprintf("%s-%d-pert%d", base, idx, i), pert, false))
	}
	if len(ws) > 1 {
		plans = append(plans, mk(fmt.Sprintf("%s-%d-drop", base, idx), ws[1:], false))
	}
	return plans
}

// C12 histories: build a chain of blocks (creations, overwrites, deletions, code changes), roll back to a
// target, continue differently, read everything back; refused targets too
func genRollFamily(rng *rand.Rand, name string) *Plan {
	pick := func(s []string) string { return s[rng.Intn(len(s))] }
	var ops []Op
	block := func(codeOK bool) {
		for i := 0; i < 1+rng.Intn(4); i++ {
			a := acctNames[rng.Intn(2)]
			switch c := rng.Intn(10); {
			case c < 2 && codeOK:
				ops = append(ops, Op{Op: "Set", A: a, Kind: "code", V: pick([]string{"c1", "c2", "c3"})})
			case c < 4:
				ops = append(ops, Op{Op: "Set", A: a, Kind: "bal", V: fmt.Sprintf("%d", 1+rng.Intn(9))})
			case c < 5:
				ops = append(ops, Op{Op: "Set", A: a, Kind: "non", V: fmt.Sprintf("%d", 1+rng.Intn(5))})
			case c < 6:
				ops = append(ops, Op{Op: "Add", A: a, K: pick(keys), V: pick(stVals)})
			case c < 7:
				ops = append(ops, Op{Op: "Get", A: a, Kind: pick([]string{"st", "code", "bal"}), K: pick(keys)})
			default:
				ops = append(ops, Op{Op: "Set", A: a, Kind: "st", K: pick(keys), V: pick(stVals)})
			}
		}
		ops = append(ops, Op{Op: "Flush"}, Op{Op: "Commit"})
	}
	h := 2 + rng.Intn(5)
	if rng.Intn(4) == 0 {
		h = 11 + rng.Intn(4)
	}
	for i := 0; i < h; i++ {
		block(true)
	}
	ops = append(ops, Op{Op: "ReadAll"})
	for round := 0; round < 1+rng.Intn(3); round++ {
		t := rng.Intn(h + 1)
		if rng.Intn(5) == 0 {
			t = h + 1 + rng.Intn(2) // higher: must be refused
		}
		if rng.Intn(2) == 0 && h > 2 {
			t = h - 1 - rng.Intn(2)
		}
		if rng.Intn(4) == 0 {
			ops = append(ops, Op{Op: "Reopen"})
		}
		ops = append(ops, Op{Op: "Rollback", T: t}, Op{Op: "ReadAll"})
		if t < h && (t >= h-10 || h <= 10) && (t > 0 || h <= 10) {
			h = t // accepted (the spec decides; this only steers the generator)
		}
		for i := 0; i < 1+rng.Intn(2); i++ {
			block(rng.Intn(3) == 0)
			h++
		}
		ops = append(ops, Op{Op: "ReadAll"})
		if rng.Intn(3) == 0 {
			ops = append(ops, Op{Op: "Reopen"}, Op{Op: "ReadAll"})
		}
	}
	return &Plan{Name: name, Ops: ops}
}

func main() {
	plansFile := flag.String("plans", "", "JSON plans")
	outDir := flag.String("out", ".", "")
	seed := flag.Int64("seed", 1, "")
	n := flag.Int("n", 50, "")
	long := flag.Bool("long", false, "")
	roots := flag.Int("roots", 0, "number of C10 root families")
	rolls := flag.Int("rolls", 0, "number of C12 rollback histories")
	flag.Parse()
	var plans []*Plan
	if *plansFile != "" {
		b, err := ioutil.ReadFile(*plansFile)
		if err != nil {
			panic(err)
		}
		if err := json.Unmarshal(b, &plans); err != nil {
			panic(err)
		}
	} else {
		rng := rand.New(rand.NewSource(*seed))
		for i := 0; i < *n; i++ {
			k := 15 + rng.Intn(30)
			if *long {
				k = 120 + rng.Intn(100)
			}
			plans = append(plans, &Plan{Name: fmt.Sprintf("rand-%d-%d", *seed, i), Ops: genOps(rng, k, *long)})
		}
		for i := 0; i < *roots; i++ {
			plans = append(plans, genRootFamily(rng, fmt.Sprintf("root-%d", *seed), i)...)
		}
		for i := 0; i < *rolls; i++ {
			plans = append(plans, genRollFamily(rng, fmt.Sprintf("roll-%d-%d", *seed, i)))
		}
	}
	os.MkdirAll(*outDir, 0755)
	scratch, err := ioutil.TempDir(os.Getenv("TMPDIR"), "ledgeradp-")
	if err != nil {
		panic(err)
	}
	defer os.RemoveAll(scratch)
	for i, p := range plans {
		r := &runner{dir: fmt.Sprintf("%s/db-%d", scratch, i)}
		r.run(p)
		os.RemoveAll(r.dir)
		f, _ := os.Create(fmt.Sprintf("%s/trace-%05d.ndjson", *outDir, i))
		enc := json.NewEncoder(f)
		for j, e := range r.out {
			e["seq"] = j + 1
			enc.Encode(e)
		}
		f.Close()
		pb, _ := json.Marshal(p)
		ioutil.WriteFile(fmt.Sprintf("%s/plan-%05d.json", *outDir, i), pb, 0644)
	}
	names := []string{}
	for _, p := range plans {
		names = append(names, p.Name)
	}
	sort.Strings(names)
	fmt.Printf("{\"plans\":%d}\n", len(plans))
}
