// mempooladp drives the real transaction pool (pkg/order/mempool) with abstract plans and records
// one ndjson trace per plan. It contains no oracle: it only instantiates abstract inputs, calls the
// public API, and projects observations (API answers + the verif hook's state projection) back into
// the specification's vocabulary.
package main

import (
	"bufio"
	"encoding/json"
	"flag"
	"fmt"
	"io/ioutil"
	"math/rand"
	"os"
	"sort"
	"time"

	"github.com/meshplus/bitxhub-kit/crypto"
	"github.com/meshplus/bitxhub-kit/crypto/asym"
	"github.com/meshplus/bitxhub-kit/types"
	"github.com/meshplus/bitxhub-model/pb"
	"github.com/meshplus/bitxhub/pkg/order/mempool"
	raftproto "github.com/meshplus/bitxhub/pkg/order/etcdraft/proto"
	"github.com/sirupsen/logrus"
)

type Tx struct {
	ID int   `json:"id"`
	A  int   `json:"a"`
	N  int   `json:"n"`
	TS int64 `json:"ts"`
}

type Op struct {
	Op     string `json:"op"`
	Txs    []Tx   `json:"txs,omitempty"`
	Leader bool   `json:"leader,omitempty"`
	Local  bool   `json:"local,omitempty"`
	IDs    []int  `json:"ids,omitempty"`
	Cut    int    `json:"cut,omitempty"`
	K      int    `json:"k,omitempty"`
	Ledger []int  `json:"ledger,omitempty"`
}

type Plan struct {
	Name      string `json:"name"`
	Accounts  int    `json:"accounts"`
	BatchSize int    `json:"batchSize"`
	Timed     bool   `json:"timed"`
	Ledger    []int  `json:"ledger"`
	Ops       []Op   `json:"ops"`
}

type ptr struct {
	A  int   `json:"a"`
	N  int   `json:"n"`
	TS int64 `json:"ts,omitempty"`
	ID int   `json:"id,omitempty"`
	G  int   `json:"g,omitempty"`
}

type runner struct {
	plan    *Plan
	keys    []crypto.PrivateKey // by rank-1
	addrs   []*types.Address
	rank    map[string]int
	txs     map[int]pb.Transaction
	idOf    map[string]int
	pool    mempool.MemPool
	ledger  []int
	tc      []int // committed nonce the pool was told about (input generation for Restart)
	grp     int
	grpEnd  []time.Time // end time of arrival group k (index k-1)
	grpBeg  []time.Time
	sleepAt map[int]bool
	out     *bufio.Writer
	seq     int
	known   []int // all tx ids ever given since restart
}

func newRunner(p *Plan, out *bufio.Writer) *runner {
	r := &runner{plan: p, out: out, rank: map[string]int{}, txs: map[int]pb.Transaction{}, idOf: map[string]int{}, sleepAt: map[int]bool{}}
	type ka struct {
		k crypto.PrivateKey
		a *types.Address
	}
	var kas []ka
	for i := 0; i < p.Accounts; i++ {
		k, err := asym.GenerateKeyPair(crypto.Secp256k1)
		if err != nil {
			panic(err)
		}
		a, _ := k.PublicKey().Address()
		kas = append(kas, ka{k, a})
	}
	sort.Slice(kas, func(i, j int) bool { return kas[i].a.String() < kas[j].a.String() })
	for i, x := range kas {
		r.keys = append(r.keys, x.k)
		r.addrs = append(r.addrs, x.a)
		r.rank[x.a.String()] = i + 1
	}
	r.ledger = append([]int{}, p.Ledger...)
	for len(r.ledger) < p.Accounts {
		r.ledger = append(r.ledger, 0)
	}
	r.tc = append([]int{}, r.ledger...)
	// pre-scan: a partial age cut after group c needs a real-time gap after group c
	epoch, g := 0, 0
	for _, op := range p.Ops {
		switch op.Op {
		case "Process":
			g++
		case "Restart":
			epoch++
			g = 0
		case "RemoveAged":
			if op.Cut > 0 && op.Cut < g {
				r.sleepAt[epoch*10000+op.Cut] = true
			}
		}
	}
	return r
}

func (r *runner) newPool(h uint64) {
	logger := logrus.New()
	logger.SetOutput(ioutil.Discard)
	led := append([]int{}, r.ledger...)
	cfg := &mempool.Config{
		ID:          1,
		ChainHeight: h,
		BatchSize:   uint64(r.plan.BatchSize),
		PoolSize:    mempool.DefaultPoolSize,
		TxSliceSize: 2,
		IsTimed:     r.plan.Timed,
		Logger:      logger,
		GetAccountNonce: func(a *types.Address) uint64 {
			if k, ok := r.rank[a.String()]; ok {
				return uint64(led[k-1])
			}
			return 0
		},
	}
	r.pool = mempool.NewMemPool(cfg)
	r.grp = 0
	r.grpEnd = nil
	r.grpBeg = nil
	r.known = nil
}

func (r *runner) tx(t Tx) pb.Transaction {
	if x, ok := r.txs[t.ID]; ok {
		return x
	}
	tx := &pb.BxhTransaction{
		From:      r.addrs[t.A-1],
		To:        r.addrs[(t.A)%len(r.addrs)],
		Nonce:     uint64(t.N),
		Timestamp: t.TS,
		Payload:   []byte(fmt.Sprintf("id-%d", t.ID)),
	}
	sig, err := r.keys[t.A-1].Sign(tx.SignHash().Bytes())
	if err != nil {
		panic(err)
	}
	tx.Signature = sig
	tx.TransactionHash = tx.Hash()
	r.txs[t.ID] = tx
	r.idOf[tx.TransactionHash.String()] = t.ID
	return tx
}

func (r *runner) emit(ev map[string]interface{}) {
	r.seq++
	ev["seq"] = r.seq
	b, err := json.Marshal(ev)
	if err != nil {
		panic(err)
	}
	r.out.Write(b)
	r.out.WriteByte('\n')
}

func (r *runner) groupOf(ts int64) int {
	for k := range r.grpEnd {
		if ts >= r.grpBeg[k].UnixNano() && ts <= r.grpEnd[k].UnixNano() {
			return k + 1
		}
	}
	return -1
}

func (r *runner) state() (map[string]interface{}, map[string]interface{}) {
	vs := mempool.VerifState(r.pool)
	conv := func(in []mempool.VerifPtr, withTS, withID, withG bool) []ptr {
		out := make([]ptr, 0, len(in))
		for _, p := range in {
			q := ptr{A: r.rank[p.Account], N: int(p.Nonce)}
			if withTS {
				q.TS = p.TS
			}
			if withID {
				id, ok := r.idOf[p.Hash]
				if !ok {
					id = -1
				}
				q.ID = id
			}
			if withG {
				q.G = r.groupOf(p.TS)
			}
			out = append(out, q)
		}
		return out
	}
	type m = map[string]interface{}
	toM := func(ps []ptr, f ...string) []m {
		out := make([]m, 0, len(ps))
		for _, p := range ps {
			x := m{"a": p.A, "n": p.N}
			for _, k := range f {
				switch k {
				case "ts":
					x["ts"] = p.TS
				case "id":
					x["id"] = p.ID
				case "g":
					x["g"] = p.G
				}
			}
			out = append(out, x)
		}
		return out
	}
	commit := make([]int, len(r.addrs))
	pend := make([]int, len(r.addrs))
	for i, a := range r.addrs {
		if v, ok := vs.CommitNonces[a.String()]; ok {
			commit[i] = int(v)
		} else {
			commit[i] = r.ledger[i] // lazily loaded from the ledger at first use
		}
		if v, ok := vs.PendingNonces[a.String()]; ok {
			pend[i] = int(v)
		} else {
			pend[i] = -1
		}
	}
	st := m{
		"items":    toM(conv(vs.Items, true, true, false), "id", "ts"),
		"idx":      toM(conv(vs.Index, false, false, false)),
		"hashes":   toM(conv(vs.Hashes, false, true, false), "id"),
		"ready":    toM(conv(vs.Ready, true, false, false), "ts"),
		"parked":   toM(conv(vs.Parked, false, false, false)),
		"batched":  toM(conv(vs.Batched, false, false, false)),
		"arr":      toM(conv(vs.Arrived, true, false, true), "g"),
		"commitN":  commit,
		"pend":     pend,
		"nonBatch": int(vs.NonBatchSize),
		"seqNo":    int(vs.BatchSeqNo),
	}
	// public query API
	pending := make([]int, len(r.addrs))
	for i, a := range r.addrs {
		pending[i] = int(r.pool.GetPendingNonceByAccount(a.String()))
	}
	got := []int{}
	ids := make([]int, 0, len(r.txs))
	for id := range r.txs {
		ids = append(ids, id)
	}
	sort.Ints(ids)
	for _, id := range ids {
		h := r.txs[id].GetHash()
		if t := r.pool.GetTransaction(h); t != nil && t.GetHash().String() == h.String() {
			got = append(got, id)
		}
	}
	q := m{"pending": pending, "hasPending": r.pool.HasPendingRequest(), "got": got}
	return st, q
}

func (r *runner) batchOut(b *raftproto.RequestBatch) map[string]interface{} {
	if b == nil {
		return map[string]interface{}{"ok": false, "h": 0, "txs": []interface{}{}}
	}
	txs := []map[string]interface{}{}
	for _, t := range b.TxList.Transactions {
		if t == nil {
			txs = append(txs, map[string]interface{}{"id": 0, "a": 0, "n": 0})
			continue
		}
		id, ok := r.idOf[t.GetHash().String()]
		if !ok {
			id = -1
		}
		txs = append(txs, map[string]interface{}{"id": id, "a": r.rank[t.GetFrom().String()], "n": int(t.GetNonce())})
	}
	return map[string]interface{}{"ok": true, "h": int(b.Height), "txs": txs}
}

func (r *runner) run() (reliable bool) {
	reliable = true
	p := r.plan
	r.newPool(0)
	st, q := r.state()
	r.emit(map[string]interface{}{"ev": "Init", "name": p.Name, "accounts": p.Accounts, "batchSize": p.BatchSize,
		"timed": p.Timed, "ledger": r.ledger, "st": st, "q": q})
	epoch := 0
	for _, op := range p.Ops {
		switch op.Op {
		case "Process":
			var txs []pb.Transaction
			for _, t := range op.Txs {
				txs = append(txs, r.tx(t))
			}
			beg := time.Now()
			b := r.pool.ProcessTransactions(txs, op.Leader, op.Local)
			end := time.Now()
			r.grp++
			r.grpBeg = append(r.grpBeg, beg)
			r.grpEnd = append(r.grpEnd, end)
			st, q := r.state()
			r.emit(map[string]interface{}{"ev": "Process", "txs": op.Txs, "leader": op.Leader, "grp": r.grp,
				"out": r.batchOut(b), "st": st, "q": q})
			if r.sleepAt[epoch*10000+r.grp] {
				time.Sleep(30 * time.Millisecond)
			} else {
				time.Sleep(50 * time.Microsecond) // groups must not share a nanosecond
			}
		case "Generate":
			b := r.pool.GenerateBlock()
			st, q := r.state()
			r.emit(map[string]interface{}{"ev": "Generate", "out": r.batchOut(b), "st": st, "q": q})
		case "Commit":
			vs := mempool.VerifState(r.pool)
			var hs []*types.Hash
			for _, id := range op.IDs {
				if t, ok := r.txs[id]; ok {
					hs = append(hs, t.GetHash())
					for _, h := range vs.Hashes {
						if h.Hash == t.GetHash().String() {
							a := r.rank[h.Account] - 1
							if int(h.Nonce)+1 > r.tc[a] {
								r.tc[a] = int(h.Nonce) + 1
							}
						}
					}
				} else {
					hs = append(hs, types.NewHash([]byte(fmt.Sprintf("unknown-%d", id))))
				}
			}
			r.pool.CommitTransactions(&mempool.ChainState{Height: 1, TxHashList: hs})
			st, q := r.state()
			r.emit(map[string]interface{}{"ev": "Commit", "ids": op.IDs, "st": st, "q": q})
		case "RemoveAged":
			var d time.Duration
			t0 := time.Now()
			if op.Cut >= r.grp {
				d = time.Nanosecond
			} else if op.Cut <= 0 {
				d = time.Hour
			} else {
				d = t0.Sub(r.grpEnd[op.Cut-1]) - 12*time.Millisecond
			}
			n := r.pool.RemoveAliveTimeoutTxs(d)
			if time.Since(t0) > 8*time.Millisecond {
				reliable = false
			}
			cut := op.Cut
			if cut > r.grp {
				cut = r.grp
			}
			st, q := r.state()
			r.emit(map[string]interface{}{"ev": "RemoveAged", "cut": cut, "out": int(n), "st": st, "q": q})
		case "Rebroadcast":
			lists := r.pool.GetTimeoutTransactions(0)
			cnt := 0
			for _, l := range lists {
				cnt += len(l)
			}
			st, q := r.state()
			r.emit(map[string]interface{}{"ev": "Rebroadcast", "out": cnt, "st": st, "q": q})
		case "SetSeqNo":
			r.pool.SetBatchSeqNo(uint64(op.K))
			st, q := r.state()
			r.emit(map[string]interface{}{"ev": "SetSeqNo", "k": op.K, "st": st, "q": q})
		case "Restart":
			if op.Ledger != nil {
				r.ledger = append([]int{}, op.Ledger...)
			} else {
				r.ledger = append([]int{}, r.tc...)
			}
			r.tc = append([]int{}, r.ledger...)
			epoch++
			r.newPool(uint64(op.K))
			st, q := r.state()
			r.emit(map[string]interface{}{"ev": "Restart", "ledger": r.ledger, "k": op.K, "st": st, "q": q})
		default:
			panic("unknown op " + op.Op)
		}
	}
	return reliable
}

// ---- random plan generation (wide-domain driver) ----

func genPlan(rng *rand.Rand, name string, long bool) *Plan {
	p := &Plan{Name: name, Accounts: 1 + rng.Intn(4), BatchSize: 1 + rng.Intn(3), Timed: rng.Intn(4) == 0}
	for i := 0; i < p.Accounts; i++ {
		p.Ledger = append(p.Ledger, rng.Intn(3)*rng.Intn(2))
	}
	maxNonce := 5
	nextID := 1
	idAt := map[[3]int]int{} // (a, n, variant) -> id
	var live []Tx
	nops := 6 + rng.Intn(10)
	if long {
		nops = 25 + rng.Intn(40)
	}
	g := 0
	base := append([]int{}, p.Ledger...)
	for i := 0; i < nops; i++ {
		switch c := rng.Intn(20); {
		case c < 9:
			k := 1 + rng.Intn(3)
			var txs []Tx
			for j := 0; j < k; j++ {
				a := 1 + rng.Intn(p.Accounts)
				n := base[a-1] + rng.Intn(maxNonce) - rng.Intn(2)
				if n < 0 {
					n = 0
				}
				v := 0
				if rng.Intn(5) == 0 {
					v = 1
				}
				key := [3]int{a, n, v}
				id, ok := idAt[key]
				if !ok {
					id = nextID
					nextID++
					idAt[key] = id
				}
				t := Tx{ID: id, A: a, N: n, TS: int64((id*7 + n*3) % 5)}
				txs = append(txs, t)
				live = append(live, t)
			}
			g++
			p.Ops = append(p.Ops, Op{Op: "Process", Txs: txs, Leader: rng.Intn(3) > 0, Local: rng.Intn(2) == 0})
		case c < 13:
			p.Ops = append(p.Ops, Op{Op: "Generate"})
		case c < 17:
			var ids []int
			k := 1 + rng.Intn(3)
			for j := 0; j < k; j++ {
				if len(live) > 0 && rng.Intn(6) > 0 {
					t := live[rng.Intn(len(live))]
					ids = append(ids, t.ID)
					if t.N+1 > base[t.A-1] && rng.Intn(2) == 0 {
						base[t.A-1] = t.N + 1
					}
				} else {
					ids = append(ids, 900+rng.Intn(5))
				}
			}
			p.Ops = append(p.Ops, Op{Op: "Commit", IDs: ids})
		case c < 18:
			if g > 0 {
				p.Ops = append(p.Ops, Op{Op: "RemoveAged", Cut: rng.Intn(g + 1)})
			}
		case c < 19:
			if rng.Intn(2) == 0 {
				p.Ops = append(p.Ops, Op{Op: "Restart", K: rng.Intn(3)})
				g = 0
			} else {
				p.Ops = append(p.Ops, Op{Op: "SetSeqNo", K: rng.Intn(4)})
			}
		default:
			p.Ops = append(p.Ops, Op{Op: "Rebroadcast"})
		}
	}
	return p
}

func main() {
	plansFile := flag.String("plans", "", "JSON file with a list of plans (model-guided); empty = random plans")
	outDir := flag.String("out", ".", "directory for traces")
	seed := flag.Int64("seed", 1, "seed for random plans")
	n := flag.Int("n", 50, "number of random plans")
	long := flag.Bool("long", false, "long random plans")
	flag.Parse()
	var plans []*Plan
	if *plansFile != "" {
		b, err := ioutil.ReadFile(*plansFile)
		if err != nil {
			panic(err)
		}
		if err := json.Unmarshal(b, &plans); err != nil {
			panic(err)
		}
	} else {
		rng := rand.New(rand.NewSource(*seed))
		for i := 0; i < *n; i++ {
			plans = append(plans, genPlan(rng, fmt.Sprintf("rand-%d-%d", *seed, i), *long))
		}
	}
	os.MkdirAll(*outDir, 0755)
	done := 0
	for i, p := range plans {
		for attempt := 0; attempt < 3; attempt++ {
			fn := fmt.Sprintf("%s/trace-%05d.ndjson", *outDir, i)
			f, err := os.Create(fn)
			if err != nil {
				panic(err)
			}
			w := bufio.NewWriter(f)
			r := newRunner(p, w)
			ok := r.run()
			w.Flush()
			f.Close()
			if ok {
				pb, _ := json.Marshal(p)
				ioutil.WriteFile(fmt.Sprintf("%s/plan-%05d.json", *outDir, i), pb, 0644)
				done++
				break
			}
			os.Remove(fn) // timing of the age cut was unreliable: discard and retry
		}
	}
	fmt.Printf("{\"plans\":%d,\"traces\":%d}\n", len(plans), done)
}
