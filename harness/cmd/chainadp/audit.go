package main

import (
	"crypto/sha256"
	"encoding/hex"
	"fmt"

	"github.com/meshplus/bitxhub-kit/types"
	"github.com/meshplus/bitxhub-model/pb"
	"github.com/meshplus/bitxhub/internal/ledger"
)

// ---------------------------------------------------------------------------------------------
// projection helpers
// ---------------------------------------------------------------------------------------------

// hs projects a hash: "" for nil / the zero hash, else the first 8 bytes in hex.
func hs(h *types.Hash) string {
	if h == nil {
		return ""
	}
	zero := true
	for _, b := range h.RawHash {
		if b != 0 {
			zero = false
			break
		}
	}
	if zero {
		return ""
	}
	return hex.EncodeToString(h.RawHash[:8])
}

func hsBytes(b []byte) string {
	if len(b) == 0 {
		return ""
	}
	return hs(types.NewHash(b))
}

func digest(b []byte) string {
	d := sha256.Sum256(b)
	return hex.EncodeToString(d[:6])
}

func receiptDigest(r *pb.Receipt) string {
	if r == nil {
		return "nil"
	}
	b, err := r.Marshal()
	if err != nil {
		return "ERR"
	}
	return digest(b)
}

// ---------------------------------------------------------------------------------------------
// independent recomputation (own implementation; does not call Block.Hash / merkletree)
// ---------------------------------------------------------------------------------------------

// myMerkle: binary SHA-256 tree over the given leaf hashes; a level with an odd number of nodes pairs
// its last node with itself; no leaves -> zero hash; one leaf -> H(leaf || leaf).
func myMerkle(leaves [][]byte) *types.Hash {
	if len(leaves) == 0 {
		return &types.Hash{}
	}
	level := make([][]byte, len(leaves))
	copy(level, leaves)
	if len(level)%2 == 1 {
		level = append(level, level[len(level)-1])
	}
	for len(level) > 1 {
		var next [][]byte
		for i := 0; i < len(level); i += 2 {
			l, r := level[i], level[i]
			if i+1 < len(level) {
				r = level[i+1]
			}
			buf := make([]byte, 0, len(l)+len(r))
			buf = append(buf, l...)
			buf = append(buf, r...)
			d := sha256.Sum256(buf)
			next = append(next, d[:])
		}
		level = next
	}
	return types.NewHash(level[0])
}

// myHeaderHash: SHA-256 over the protobuf encoding of the hash-relevant header fields
// (number, parent hash, state root, tx root, receipt root, version).
func myHeaderHash(h *pb.BlockHeader) *types.Hash {
	if h == nil {
		return nil
	}
	sub := &pb.BlockHeader{Number: h.Number, ParentHash: h.ParentHash, StateRoot: h.StateRoot, TxRoot: h.TxRoot, ReceiptRoot: h.ReceiptRoot, Version: h.Version}
	b, err := sub.Marshal()
	if err != nil {
		return nil
	}
	d := sha256.Sum256(b)
	return types.NewHash(d[:])
}

// myTxHash recomputes the hash of a stored transaction from its content (not from the cached field).
func myTxHash(tx pb.Transaction) *types.Hash {
	if b, ok := tx.(*pb.BxhTransaction); ok {
		if b.From == nil && b.To == nil && b.Payload == nil && b.Signature == nil && b.TransactionHash != nil {
			return b.TransactionHash // a hash-only stub (GetBlock with fullTx=false)
		}
		c := &pb.BxhTransaction{From: b.From, To: b.To, Timestamp: b.Timestamp, Payload: b.Payload, IBTP: b.IBTP, Nonce: b.Nonce,
			Amount: b.Amount, Typ: b.Typ, Signature: b.Signature}
		body, err := c.Marshal()
		if err != nil {
			return nil
		}
		d := sha256.Sum256(body)
		return types.NewHash(d[:])
	}
	return tx.GetHash()
}

// myReceiptHash: the receipt fields covered by the receipt root.
func myReceiptHash(m *pb.Receipt) []byte {
	c := &pb.Receipt{Status: m.Status, Ret: m.Ret, Events: m.Events, TxHash: m.TxHash, Version: m.Version}
	body, err := c.Marshal()
	if err != nil {
		return nil
	}
	d := sha256.Sum256(body)
	return d[:]
}

func interchainCount(m *pb.InterchainMeta) int {
	n := 0
	if m == nil {
		return 0
	}
	for _, v := range m.Counter {
		if v != nil {
			n += len(v.Slice)
		}
	}
	return n
}

// ---------------------------------------------------------------------------------------------
// bookkeeping of everything ever stored (keys of the audit), and the audit itself
// ---------------------------------------------------------------------------------------------
type book struct {
	maxEver int
	hashes  []string
	hashOf  map[string]*types.Hash
	txs     []string
	txOf    map[string]*types.Hash
	out     []event
}

func newBook() *book {
	return &book{hashOf: map[string]*types.Hash{}, txOf: map[string]*types.Hash{}}
}

func (b *book) emit(e event) { b.out = append(b.out, e) }

// persisted records a block as it was handed to / announced by the execution layer and emits the Persist event.
func (b *book) persisted(src string, blk *pb.Block, txHashes []*types.Hash, receipts []*pb.Receipt, meta *pb.InterchainMeta) {
	h := int(blk.BlockHeader.Number)
	if h > b.maxEver {
		b.maxEver = h
	}
	bh := hs(blk.BlockHash)
	if _, ok := b.hashOf[bh]; !ok {
		b.hashes = append(b.hashes, bh)
		b.hashOf[bh] = blk.BlockHash
	}
	txs := []string{}
	for _, t := range txHashes {
		s := hs(t)
		txs = append(txs, s)
		if _, ok := b.txOf[s]; !ok {
			b.txs = append(b.txs, s)
			b.txOf[s] = t
		}
	}
	rcs := []string{}
	for _, r := range receipts {
		rcs = append(rcs, receiptDigest(r))
	}
	b.emit(event{"ev": "Persist", "src": src, "h": h, "hash": bh, "parent": hs(blk.BlockHeader.ParentHash), "txs": txs, "rcs": rcs,
		"cnt": interchainCount(meta), "txRoot": hs(blk.BlockHeader.TxRoot), "rcRoot": hs(blk.BlockHeader.ReceiptRoot)})
}

// guard runs f and reports whether it panicked (a panicking lookup is a lookup that found nothing usable)
func guard(f func()) (panicked bool) {
	defer func() {
		if r := recover(); r != nil {
			panicked = true
		}
	}()
	f()
	return false
}

func metaRec(m *pb.ChainMeta) event {
	if m == nil {
		return event{"h": -1, "hash": "nil", "cnt": -1}
	}
	return event{"h": int(m.Height), "hash": hs(m.BlockHash), "cnt": int(m.InterchainTxCount)}
}

// audit asks every public lookup. receiptsAt reads the stored receipt list of a height (block file).
func (b *book) audit(ldg *ledger.Ledger, receiptsAt func(h uint64) ([]*pb.Receipt, error)) {
	byHeight := []event{}
	for h := 1; h <= b.maxEver; h++ {
		full := event{"found": false, "hash": "", "num": 0, "parent": "", "txs": []string{}, "rcs": []string{},
			"hdrHash": "", "txRoot": "", "reTxRoot": "", "rcRoot": "", "reRcRoot": ""}
		if guard(func() {
			blk, err := ldg.GetBlock(uint64(h), true)
			if err != nil || blk == nil || blk.BlockHeader == nil {
				return
			}
			txs := []string{}
			var leaves [][]byte
			if blk.Transactions != nil {
				for _, tx := range blk.Transactions.Transactions {
					th := myTxHash(tx)
					txs = append(txs, hs(th))
					if th != nil {
						leaves = append(leaves, th.Bytes())
					}
				}
			}
			rcs := []string{}
			reRc := "ERR"
			if rs, err := receiptsAt(uint64(h)); err == nil {
				var rl [][]byte
				for _, r := range rs {
					rcs = append(rcs, receiptDigest(r))
					rl = append(rl, myReceiptHash(r))
				}
				reRc = hs(myMerkle(rl))
			}
			full = event{"found": true, "hash": hs(blk.BlockHash), "num": int(blk.BlockHeader.Number), "parent": hs(blk.BlockHeader.ParentHash),
				"txs": txs, "rcs": rcs, "hdrHash": hs(myHeaderHash(blk.BlockHeader)), "txRoot": hs(blk.BlockHeader.TxRoot),
				"reTxRoot": hs(myMerkle(leaves)), "rcRoot": hs(blk.BlockHeader.ReceiptRoot), "reRcRoot": reRc}
		}) {
			full["hash"] = "PANIC"
		}
		light := event{"found": false, "txs": []string{}}
		guard(func() {
			blk, err := ldg.GetBlock(uint64(h), false)
			if err != nil || blk == nil {
				return
			}
			txs := []string{}
			if blk.Transactions != nil {
				for _, tx := range blk.Transactions.Transactions {
					txs = append(txs, hs(tx.GetHash()))
				}
			}
			light = event{"found": true, "txs": txs}
		})
		bhash := ""
		guard(func() { bhash = hs(ldg.GetBlockHash(uint64(h))) })
		txCount := -1
		guard(func() {
			if c, err := ldg.GetTransactionCount(uint64(h)); err == nil {
				txCount = int(c)
			}
		})
		im := event{"found": false, "cnt": 0}
		guard(func() {
			if m, err := ldg.GetInterchainMeta(uint64(h)); err == nil && m != nil {
				im = event{"found": true, "cnt": interchainCount(m)}
			}
		})
		byHeight = append(byHeight, event{"h": h, "full": full, "light": light, "bhash": bhash, "txCount": txCount, "im": im})
	}
	byHash := event{}
	for _, s := range b.hashes {
		rec := event{"found": false, "num": 0}
		guard(func() {
			if blk, err := ldg.GetBlockByHash(b.hashOf[s], true); err == nil && blk != nil && blk.BlockHeader != nil {
				rec = event{"found": true, "num": int(blk.BlockHeader.Number)}
			}
		})
		byHash[s] = rec
	}
	byTx := event{}
	for _, s := range b.txs {
		rec := event{"tfound": false, "thash": "", "mfound": false, "mh": 0, "mi": 0, "mbh": "", "rfound": false, "rd": ""}
		guard(func() {
			if tx, err := ldg.GetTransaction(b.txOf[s]); err == nil && tx != nil {
				rec["tfound"], rec["thash"] = true, hs(myTxHash(tx))
			}
		})
		guard(func() {
			if m, err := ldg.GetTransactionMeta(b.txOf[s]); err == nil && m != nil {
				rec["mfound"], rec["mh"], rec["mi"], rec["mbh"] = true, int(m.BlockHeight), int(m.Index), hsBytes(m.BlockHash)
			}
		})
		guard(func() {
			if r, err := ldg.GetReceipt(b.txOf[s]); err == nil && r != nil {
				rec["rfound"], rec["rd"] = true, receiptDigest(r)
			}
		})
		byTx[s] = rec
	}
	var metaC, metaD event
	if guard(func() { metaC = metaRec(ldg.GetChainMeta()) }) {
		metaC = metaRec(nil)
	}
	if guard(func() { metaD = metaRec(ldg.LoadChainMeta()) }) {
		metaD = metaRec(nil)
	}
	b.emit(event{"ev": "Audit", "byHeight": byHeight, "byHash": byHash, "byTx": byTx, "metaC": metaC, "metaD": metaD})
}

func rollbackErrClass(err error) string {
	switch {
	case err == nil:
		return "ok"
	case errorsIs(err, ledger.ErrorRollbackToHigherNumber):
		return "higher"
	case errorsIs(err, ledger.ErrorRollbackTooMuch):
		return "toomuch"
	default:
		return fmt.Sprintf("other:%v", err)
	}
}
