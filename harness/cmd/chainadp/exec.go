package main

import (
	"fmt"

	"github.com/meshplus/bitxhub-kit/types"
	"github.com/meshplus/bitxhub-model/constant"
	"github.com/meshplus/bitxhub-model/pb"
	"github.com/meshplus/bitxhub/verifharness/core"
)

// execRunner: blocks are produced by the real block executor (package core).
type execRunner struct {
	dir    string
	book   *book
	n      *core.Node
	a, b   *core.Account // admins of the two appchains (after Setup)
	src    string
	dst    string
	setup  bool
	base   map[uint64][2]uint64 // interchain request / receipt counters before block h was executed
	height uint64
}

func newExecRunner(dir string, p *Plan) *execRunner {
	return &execRunner{dir: dir, book: newBook(), base: map[uint64][2]uint64{}}
}

func (r *execRunner) events() []event { return r.book.out }

func (r *execRunner) close() {
	if r.n != nil {
		r.n.Close()
	}
}

func (r *execRunner) receiptsAt(h uint64) ([]*pb.Receipt, error) {
	res, err := r.n.GetBlockResult(h)
	if err != nil {
		return nil, err
	}
	return res.Receipts, nil
}

func (r *execRunner) record(src string, res *core.BlockResult) {
	var hashes []*types.Hash
	if res.Block.Transactions != nil {
		for _, tx := range res.Block.Transactions.Transactions {
			hashes = append(hashes, tx.GetHash())
		}
	}
	meta := res.EventMeta
	if meta == nil {
		meta = res.Meta
	}
	r.book.persisted(src, res.Block, hashes, res.Receipts, meta)
	r.height = res.Block.BlockHeader.Number
}

func (r *execRunner) counters() [2]uint64 {
	if !r.setup {
		return [2]uint64{}
	}
	ic := r.n.GetInterchain(r.src)
	if ic == nil {
		return [2]uint64{}
	}
	return [2]uint64{ic.InterchainCounter[r.dst], ic.ReceiptCounter[r.dst]}
}

// build instantiates the abstract transactions of one block; ctr are the interchain counters the block starts from
func (r *execRunner) build(etxs []ETx, ctr [2]uint64) []pb.Transaction {
	n := r.n
	var txs []pb.Transaction
	admins := n.Admins()
	for _, e := range etxs {
		adm := admins[e.From%len(admins)]
		switch e.K {
		case "xfer":
			to := e.To
			if to == "" {
				to = "u0"
			}
			amt := e.Amt
			if amt == "" {
				amt = "1"
			}
			txs = append(txs, n.TransferTx(adm, n.Account(to).Addr, amt))
		case "bad": // an invocation that fails (no such method): FAILED receipt
			txs = append(txs, n.InvokeTx(adm, constant.InterchainContractAddr.Address(), "NoSuchMethodOfThisContract"))
		case "req":
			if !r.setup {
				continue
			}
			ctr[0]++
			txs = append(txs, n.IBTPTx(r.a, n.NewIBTP(r.src, r.dst, ctr[0], pb.IBTP_INTERCHAIN, 10, []byte(fmt.Sprintf("proof-%d", ctr[0])))))
		case "rcp":
			if !r.setup {
				continue
			}
			ctr[1]++
			txs = append(txs, n.IBTPTx(r.b, n.NewIBTP(r.src, r.dst, ctr[1], pb.IBTP_RECEIPT_SUCCESS, 10, []byte(fmt.Sprintf("proof-%dr", ctr[1])))))
		}
	}
	return txs
}

func (r *execRunner) doSetup() error {
	n := r.n
	r.a, r.b = n.Account("chainA-admin"), n.Account("chainB-admin")
	r.src, r.dst = n.FullServiceID("chainA", "svc1"), n.FullServiceID("chainB", "svc2")
	emit := func(rs []*core.BlockResult, err error) error {
		for _, x := range rs {
			r.record("exec", x)
		}
		return err
	}
	for _, acc := range []*core.Account{r.a, r.b} {
		if err := emit(n.Fund(acc.Addr, "100000000")); err != nil {
			return err
		}
	}
	for _, c := range []struct {
		acc        *core.Account
		chain, svc string
	}{{r.a, "chainA", "svc1"}, {r.b, "chainB", "svc2"}} {
		if err := emit(n.RegisterAppchain(c.acc, c.chain)); err != nil {
			return err
		}
		if err := emit(n.RegisterService(c.acc, c.chain, c.svc, true, "")); err != nil {
			return err
		}
	}
	r.setup = true
	return nil
}

func (r *execRunner) run(p *Plan) error {
	n, err := core.NewNode(core.Options{Dir: r.dir, Seed: p.Seed, Quiet: true})
	if err != nil {
		return fmt.Errorf("new node: %w", err)
	}
	r.n = n
	r.book.emit(event{"ev": "Init", "name": p.Name, "mode": "exec", "window": 10})
	g, err := n.GetBlockResult(1)
	if err != nil {
		return fmt.Errorf("genesis: %w", err)
	}
	r.record("genesis", g)
	r.book.audit(n.Ledger, r.receiptsAt)
	for i := range p.Ops {
		op := &p.Ops[i]
		switch op.Op {
		case "Setup":
			if r.setup || r.height != 1 {
				continue
			}
			if err := r.doSetup(); err != nil {
				return fmt.Errorf("setup: %w", err)
			}
		case "Exec":
			ctr := r.counters()
			r.base[r.height+1] = ctr
			res, err := n.ExecBlock(r.build(op.ETxs, ctr), nil, 0)
			if err != nil {
				return fmt.Errorf("exec: %w", err)
			}
			r.record("exec", res)
		case "Replace":
			// another block for the committed height H: the executor rolls the ledger back itself (rollbackBlocks)
			h := uint64(op.H)
			if h < 2 || h > r.height || int(h)-1 < r.book.maxEver-10 {
				continue
			}
			ctr, ok := r.base[h]
			if !ok {
				ctr = r.counters()
			}
			res, err := n.ExecBlockAt(h, r.build(op.ETxs, ctr), nil, 0)
			if err != nil {
				return fmt.Errorf("replace: %w", err)
			}
			r.book.emit(event{"ev": "Rollback", "t": int(h) - 1, "err": "ok", "via": "executor"})
			r.record("reexec", res)
		case "Rollback":
			// Ledger.Rollback as at start-up; the executor keeps its own head, so the node is restarted afterwards
			if op.T < 1 {
				continue
			}
			err := n.Ledger.Rollback(uint64(op.T))
			r.book.emit(event{"ev": "Rollback", "t": op.T, "err": rollbackErrClass(err), "via": "ledger"})
			if err == nil && uint64(op.T) < r.height {
				r.height = uint64(op.T)
				if !op.NoAudit {
					r.book.audit(n.Ledger, r.receiptsAt)
				}
				if err := n.Restart(); err != nil {
					r.book.emit(event{"ev": "Reopen", "err": fmt.Sprintf("%v", err)})
					return nil
				}
				r.book.emit(event{"ev": "Reopen", "err": "ok"})
			}
		case "Reopen":
			if err := n.Restart(); err != nil {
				r.book.emit(event{"ev": "Reopen", "err": fmt.Sprintf("%v", err)})
				return nil
			}
			r.book.emit(event{"ev": "Reopen", "err": "ok"})
		default:
			return fmt.Errorf("unknown op %q in exec mode", op.Op)
		}
		if !op.NoAudit {
			r.book.audit(n.Ledger, r.receiptsAt)
		}
	}
	return nil
}
