package main

import (
	"fmt"
	"math/rand"
)

// ---- seeded random plans -------------------------------------------------------------------
// The generator keeps a plan-level picture of the chain (height, live transactions, journal window as
// the code computes it) ONLY to steer towards interesting inputs (re-persist rolled-back transactions in
// other positions, targets around the window edge). Nothing of it is used as an expectation.

type gsynth struct {
	rng    *rand.Rand
	h      int
	minJ   int // lowest height the state journal still reaches (as the code computes it)
	live   [][]TxSpec
	dead   []TxSpec // transactions of rolled-back blocks, candidates for re-execution
	nonce  [4]uint64
	clock  int64
	ops    []Op
	blocks int
}

func (g *gsynth) freshTx() TxSpec {
	f := g.rng.Intn(4)
	g.clock++
	t := TxSpec{F: f, T: g.rng.Intn(4), N: g.nonce[f], TS: g.clock, P: []string{"", "pay", "x", "a-longer-payload-to-vary-sizes"}[g.rng.Intn(4)]}
	g.nonce[f]++
	return t
}

func (g *gsynth) isLive(t TxSpec) bool {
	for _, b := range g.live {
		for _, x := range b {
			if x == t {
				return true
			}
		}
	}
	return false
}

func (g *gsynth) block(maxTx int) {
	var txs []TxSpec
	n := 0
	switch c := g.rng.Intn(10); {
	case c < 2:
		n = 0
	case c < 7:
		n = 1 + g.rng.Intn(3)
	default:
		n = 1 + g.rng.Intn(maxTx)
	}
	for i := 0; i < n; i++ {
		switch c := g.rng.Intn(12); {
		case c < 2 && len(txs) > 0:
			// duplicate-looking: same sender / receiver / payload as the previous one, next nonce (and timestamp)
			d := txs[len(txs)-1]
			d.N = g.nonce[d.F]
			g.nonce[d.F]++
			if g.rng.Intn(2) == 0 {
				g.clock++
				d.TS = g.clock
			}
			txs = append(txs, d)
		case c < 3 && len(txs) > 0:
			// the very same transaction twice in one block
			txs = append(txs, txs[g.rng.Intn(len(txs))])
		case c < 7 && len(g.dead) > 0:
			// re-execute a rolled-back transaction (possibly at another height / position)
			k := g.rng.Intn(len(g.dead))
			d := g.dead[k]
			g.dead = append(g.dead[:k], g.dead[k+1:]...)
			if !g.isLive(d) {
				txs = append(txs, d)
			}
		default:
			txs = append(txs, g.freshTx())
		}
	}
	op := Op{Op: "Persist", Txs: txs, Sig: g.rng.Intn(4) == 0}
	for range txs {
		op.Rcs = append(op.Rcs, RcSpec{St: g.rng.Intn(3) / 2, Ret: []string{"", "ok", "call error: 1080014"}[g.rng.Intn(3)], Ev: g.rng.Intn(3)})
	}
	switch c := g.rng.Intn(10); {
	case c < 4:
	case c < 8:
		op.Ctr = []int{g.rng.Intn(4), g.rng.Intn(3)}
	default: // interchain-heavy
		op.Ctr = []int{3 + g.rng.Intn(8), g.rng.Intn(6), 1 + g.rng.Intn(4)}
	}
	if g.rng.Intn(4) == 0 {
		op.TO = 1 + g.rng.Intn(3)
	}
	for i := 0; i < g.rng.Intn(3); i++ {
		op.W = append(op.W, WSpec{A: g.rng.Intn(4), K: []string{"k", "k1", "z"}[g.rng.Intn(3)], V: []string{"", "v", "w"}[g.rng.Intn(3)]})
	}
	g.ops = append(g.ops, op)
	g.live = append(g.live, txs)
	g.h++
	g.blocks++
	if g.minJ == 0 {
		g.minJ = g.h
	}
	if g.h > 10 && g.h-10 > g.minJ {
		g.minJ = g.h - 10
	}
}

func (g *gsynth) rollback(t int) {
	g.ops = append(g.ops, Op{Op: "Rollback", T: t})
	accepted := t <= g.h && (t >= g.minJ || (g.minJ == 1 && t == 0))
	if accepted && t < g.h {
		for _, b := range g.live[t:] {
			g.dead = append(g.dead, b...)
		}
		g.live = g.live[:t]
		g.h = t
		if t == 0 {
			g.minJ = 0
		}
	}
}

func genSynth(rng *rand.Rand, name string, long bool) *Plan {
	g := &gsynth{rng: rng}
	if long {
		// cross the journal window, then probe both sides of its edge
		for i := 0; i < 11+rng.Intn(5); i++ {
			g.block(3)
			if rng.Intn(6) == 0 {
				g.ops = append(g.ops, Op{Op: "Reopen"})
			}
		}
		for round := 0; round < 2+rng.Intn(3); round++ {
			var t int
			switch c := rng.Intn(8); {
			case c < 3:
				t = g.minJ - 1 - rng.Intn(2) // beyond the window: must be refused
			case c < 4:
				t = g.h + 1 + rng.Intn(2) // higher: must be refused
			case c < 5:
				t = 0
			case c < 6:
				t = g.minJ
			default:
				t = g.minJ + rng.Intn(g.h-g.minJ+1)
			}
			if t < 0 {
				t = 0
			}
			if rng.Intn(4) == 0 {
				g.ops = append(g.ops, Op{Op: "Reopen"})
			}
			g.rollback(t)
			for i := 0; i < rng.Intn(3); i++ {
				g.block(3)
			}
			if rng.Intn(3) == 0 {
				g.ops = append(g.ops, Op{Op: "Reopen"})
			}
		}
		return &Plan{Name: name, Mode: "synth", Ops: g.ops}
	}
	steps := 6 + rng.Intn(9)
	for i := 0; i < steps; i++ {
		switch c := rng.Intn(20); {
		case c < 11 || g.h == 0 && c < 16:
			g.block(6)
		case c < 16:
			t := rng.Intn(g.h + 1)
			if rng.Intn(6) == 0 {
				t = g.h + 1 + rng.Intn(2)
			}
			if rng.Intn(3) == 0 && g.h > 0 {
				t = g.h - 1
			}
			g.rollback(t)
		default:
			g.ops = append(g.ops, Op{Op: "Reopen"})
		}
	}
	return &Plan{Name: name, Mode: "synth", Ops: g.ops}
}

func genETxs(rng *rand.Rand, ibtp bool, pendingReq *int) []ETx {
	var out []ETx
	n := rng.Intn(4)
	if rng.Intn(5) == 0 {
		n = 4 + rng.Intn(4)
	}
	for i := 0; i < n; i++ {
		switch c := rng.Intn(10); {
		case ibtp && c < 4:
			out = append(out, ETx{K: "req"})
			*pendingReq++
		case ibtp && c < 6 && *pendingReq > 0:
			out = append(out, ETx{K: "rcp"})
			*pendingReq--
		case c < 7:
			out = append(out, ETx{K: "xfer", From: rng.Intn(4), To: fmt.Sprintf("u%d", rng.Intn(3)), Amt: fmt.Sprintf("%d", 1+rng.Intn(50))})
		default:
			out = append(out, ETx{K: "bad", From: rng.Intn(4)})
		}
	}
	return out
}

func genExec(rng *rand.Rand, name string, seed int64, ibtp bool) *Plan {
	var ops []Op
	h, maxEver := 1, 1
	pending := 0
	if ibtp {
		ops = append(ops, Op{Op: "Setup"})
		h, maxEver = 19, 19
	}
	steps := 8 + rng.Intn(8)
	for i := 0; i < steps; i++ {
		switch c := rng.Intn(20); {
		case c < 11 || h < 3:
			ops = append(ops, Op{Op: "Exec", ETxs: genETxs(rng, ibtp, &pending)})
			h++
			if h > maxEver {
				maxEver = h
			}
		case c < 15:
			// the executor's own rollback: deliver another block for a committed height
			lo := maxEver - 9
			if lo < 2 {
				lo = 2
			}
			if lo > h {
				continue
			}
			k := lo + rng.Intn(h-lo+1)
			if rng.Intn(2) == 0 {
				k = h - rng.Intn(2)
				if k < lo {
					k = lo
				}
			}
			ops = append(ops, Op{Op: "Replace", H: k, ETxs: genETxs(rng, ibtp, &pending)})
			h = k
		case c < 18:
			lo := maxEver - 10
			if lo < 1 {
				lo = 1
			}
			t := lo + rng.Intn(h-lo+1)
			switch rng.Intn(6) {
			case 0:
				t = h + 1
			case 1:
				if lo > 1 {
					t = lo - 1 // beyond the window: refused
				}
			}
			ops = append(ops, Op{Op: "Rollback", T: t})
			if t >= lo && t < h {
				h = t
			}
		default:
			ops = append(ops, Op{Op: "Reopen"})
		}
	}
	return &Plan{Name: name, Mode: "exec", Seed: seed, Ops: ops}
}

func genPlans(seed int64, n, nlong, nexec, nibtp int) []*Plan {
	rng := rand.New(rand.NewSource(seed))
	var plans []*Plan
	for i := 0; i < n; i++ {
		plans = append(plans, genSynth(rng, fmt.Sprintf("synth-%d-%d", seed, i), false))
	}
	for i := 0; i < nlong; i++ {
		plans = append(plans, genSynth(rng, fmt.Sprintf("long-%d-%d", seed, i), true))
	}
	for i := 0; i < nexec; i++ {
		plans = append(plans, genExec(rng, fmt.Sprintf("exec-%d-%d", seed, i), seed*1000+int64(i), false))
	}
	for i := 0; i < nibtp; i++ {
		plans = append(plans, genExec(rng, fmt.Sprintf("ibtp-%d-%d", seed, i), seed*1000+500+int64(i), true))
	}
	return plans
}
