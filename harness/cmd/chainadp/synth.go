package main

import (
	"crypto/sha256"
	"errors"
	"fmt"
	"io/ioutil"
	"os"
	"path/filepath"

	"github.com/cbergoon/merkletree"
	"github.com/meshplus/bitxhub-kit/crypto"
	"github.com/meshplus/bitxhub-kit/crypto/asym/ecdsa"
	"github.com/meshplus/bitxhub-kit/storage"
	"github.com/meshplus/bitxhub-kit/storage/blockfile"
	"github.com/meshplus/bitxhub-kit/storage/leveldb"
	"github.com/meshplus/bitxhub-kit/types"
	"github.com/meshplus/bitxhub-model/pb"
	"github.com/meshplus/bitxhub/internal/ledger"
	"github.com/meshplus/bitxhub/internal/repo"
	"github.com/sirupsen/logrus"
)

func errorsIs(err, target error) bool { return errors.Is(err, target) }

var synthAddrs = []*types.Address{
	types.NewAddressByStr("0x3000000000000000000000000000000000000001"),
	types.NewAddressByStr("0x3000000000000000000000000000000000000002"),
	types.NewAddressByStr("0x3000000000000000000000000000000000000003"),
	types.NewAddressByStr("0x3000000000000000000000000000000000000004"),
}

type synthRunner struct {
	dir     string
	book    *book
	rep     *repo.Repo
	logger  *logrus.Logger
	chainDB storage.Storage
	stateDB storage.Storage
	bf      *blockfile.BlockFile
	ldg     *ledger.Ledger
}

func fixedKey(tag string) crypto.PrivateKey {
	for try := 0; ; try++ {
		d := sha256.Sum256([]byte(fmt.Sprintf("chainadp|%s|%d", tag, try)))
		if key, err := ecdsa.UnmarshalPrivateKey(d[:], crypto.Secp256k1); err == nil {
			return key
		}
	}
}

func newSynthRunner(dir string, p *Plan) *synthRunner {
	logger := logrus.New()
	logger.SetOutput(ioutil.Discard)
	key := fixedKey("node")
	addr, _ := key.PublicKey().Address()
	return &synthRunner{dir: dir, book: newBook(), logger: logger,
		rep: &repo.Repo{Config: &repo.Config{RepoRoot: dir}, Key: &repo.Key{Address: addr.String(), PrivKey: key}}}
}

func (r *synthRunner) events() []event { return r.book.out }

func (r *synthRunner) open() (err error) {
	if err = os.MkdirAll(r.dir, 0755); err != nil {
		return err
	}
	if r.chainDB, err = leveldb.New(filepath.Join(r.dir, "storage", "blockchain")); err != nil {
		return err
	}
	if r.stateDB, err = leveldb.New(filepath.Join(r.dir, "storage", "ledger")); err != nil {
		return err
	}
	if r.bf, err = blockfile.NewBlockFile(r.dir, r.logger); err != nil {
		return err
	}
	r.ldg, err = ledger.New(r.rep, r.chainDB, r.stateDB, r.bf, nil, r.logger)
	return err
}

func (r *synthRunner) close() {
	if r.chainDB != nil {
		r.chainDB.Close()
	}
	if r.stateDB != nil {
		r.stateDB.Close()
	}
	if r.bf != nil {
		r.bf.Close()
	}
	r.chainDB, r.stateDB, r.bf = nil, nil, nil
}

func (r *synthRunner) receiptsAt(h uint64) ([]*pb.Receipt, error) {
	data, err := r.bf.Get(blockfile.BlockFileReceiptTable, h)
	if err != nil {
		return nil, err
	}
	rs := &pb.Receipts{}
	if err := rs.Unmarshal(data); err != nil {
		return nil, err
	}
	return rs.Receipts, nil
}

func mkTx(s TxSpec) *pb.BxhTransaction {
	tx := &pb.BxhTransaction{From: synthAddrs[s.F%len(synthAddrs)], To: synthAddrs[s.T%len(synthAddrs)], Nonce: s.N, Timestamp: s.TS}
	if s.P != "" {
		tx.Payload = []byte(s.P)
	}
	tx.TransactionHash = tx.Hash()
	return tx
}

// libMerkle is calcMerkleRoot of internal/executor/handle.go
func libMerkle(contents []merkletree.Content) *types.Hash {
	if len(contents) == 0 {
		return &types.Hash{}
	}
	tree, err := merkletree.NewTree(contents)
	if err != nil {
		panic(err)
	}
	return types.NewHash(tree.MerkleRoot())
}

// persist builds block height+1 the way processExecuteEvent completes it, then PersistBlockData.
func (r *synthRunner) persist(op *Op) {
	meta := r.ldg.GetChainMeta()
	h := meta.Height + 1
	// "execution": some state writes, always at least the block number
	r.ldg.SetState(synthAddrs[0], []byte("blk"), []byte(fmt.Sprintf("%d", h)), nil)
	for _, w := range op.W {
		var v []byte
		if w.V != "" {
			v = []byte(w.V)
		}
		r.ldg.SetState(synthAddrs[w.A%len(synthAddrs)], []byte(w.K), v, nil)
	}
	var txs []pb.Transaction
	var txHashes []*types.Hash
	txLeaves := []merkletree.Content{}
	for _, s := range op.Txs {
		tx := mkTx(s)
		txs = append(txs, tx)
		txHashes = append(txHashes, tx.GetHash())
		txLeaves = append(txLeaves, tx.GetHash())
	}
	var receipts []*pb.Receipt
	rcLeaves := []merkletree.Content{}
	for i := range op.Txs {
		rs := RcSpec{}
		if i < len(op.Rcs) {
			rs = op.Rcs[i]
		}
		rc := &pb.Receipt{Version: []byte("1"), TxHash: txHashes[i], Status: pb.Receipt_Status(rs.St % 2)}
		if rs.Ret != "" {
			rc.Ret = []byte(rs.Ret)
		}
		for e := 0; e < rs.Ev; e++ {
			rc.Events = append(rc.Events, &pb.Event{TxHash: txHashes[i], Data: []byte(fmt.Sprintf("ev%d", e)), EventType: pb.Event_OTHER})
		}
		receipts = append(receipts, rc)
		rcLeaves = append(rcLeaves, rc.Hash())
	}
	im := &pb.InterchainMeta{Counter: map[string]*pb.VerifiedIndexSlice{}}
	for c, n := range op.Ctr {
		if n <= 0 {
			continue
		}
		sl := &pb.VerifiedIndexSlice{}
		for i := 0; i < n; i++ {
			sl.Slice = append(sl.Slice, &pb.VerifiedIndex{Index: uint64(i), Valid: i%2 == 0})
		}
		im.Counter[fmt.Sprintf("c%d", c)] = sl
	}
	if op.TO > 0 {
		ids := []string{}
		for i := 0; i < op.TO; i++ {
			ids = append(ids, fmt.Sprintf("id-%d-%d", h, i))
		}
		im.TimeoutCounter = map[string]*pb.StringSlice{"c0": {Slice: ids}}
		im.MultiTxCounter = map[string]*pb.StringSlice{"c1": {Slice: ids}}
	}
	block := &pb.Block{
		BlockHeader:  &pb.BlockHeader{Number: h, Timestamp: 1600000000 + int64(h), Version: []byte("1.0.0")},
		Transactions: &pb.Transactions{Transactions: txs},
	}
	if op.Sig {
		block.Signature = []byte("signed-elsewhere")
	}
	// handle.go: roots, parent, (bloom, timeout root), flush, state root, hash LAST
	block.BlockHeader.TxRoot = libMerkle(txLeaves)
	block.BlockHeader.ReceiptRoot = libMerkle(rcLeaves)
	block.BlockHeader.ParentHash = meta.BlockHash
	accounts, journalHash := r.ldg.FlushDirtyData()
	block.BlockHeader.StateRoot = journalHash
	block.BlockHash = block.Hash()
	r.book.persisted("synth", block, txHashes, receipts, im)
	r.ldg.PersistBlockData(&ledger.BlockData{Block: block, Receipts: receipts, Accounts: accounts, InterchainMeta: im, TxHashList: txHashes})
}

func (r *synthRunner) run(p *Plan) error {
	if err := r.open(); err != nil {
		return fmt.Errorf("open: %w", err)
	}
	r.book.emit(event{"ev": "Init", "name": p.Name, "mode": "synth", "window": 10})
	for i := range p.Ops {
		op := &p.Ops[i]
		switch op.Op {
		case "Persist":
			r.persist(op)
		case "Rollback":
			err := r.ldg.Rollback(uint64(op.T))
			r.book.emit(event{"ev": "Rollback", "t": op.T, "err": rollbackErrClass(err), "via": "ledger"})
		case "Reopen":
			r.close()
			if err := r.open(); err != nil {
				r.book.emit(event{"ev": "Reopen", "err": fmt.Sprintf("%v", err)})
				return nil // nothing can be asked any more; the trace ends here
			}
			r.book.emit(event{"ev": "Reopen", "err": "ok"})
		default:
			return fmt.Errorf("unknown op %q in synth mode", op.Op)
		}
		if !op.NoAudit {
			r.book.audit(r.ldg, r.receiptsAt)
		}
	}
	return nil
}
