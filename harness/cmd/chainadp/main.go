// chainadp drives the real ledger.Ledger (leveldb chain index + block file + simple state ledger) with
// abstract plans and records one ndjson trace per plan (family ChainLedger, properties C09 and the
// "refused rollback modifies nothing" clause of C12).
//
// Two sources of blocks:
//   - mode "synth": the harness builds the blocks itself and completes the header the way
//     internal/executor/handle.go does (merkle roots over tx hashes / receipt hashes, parent = hash of the
//     current chain head, BlockHash = block.Hash() last) and calls Ledger.PersistBlockData;
//   - mode "exec": the real block executor (package core) produces the blocks; rollback through
//     Ledger.Rollback + restart, and through the executor's own rollbackBlocks (op Replace).
//
// After every operation a FULL AUDIT is logged: every public lookup of the chain ledger for every
// height 1..max-ever, every block hash and every tx hash ever stored, plus header hash / merkle roots
// recomputed by an independent implementation (audit.go) from the STORED transactions and receipts.
// No oracle here: inputs are instantiated, the public API is called, answers are decoded.
package main

import (
	"encoding/json"
	"errors"
	"flag"
	"fmt"
	"io/ioutil"
	"os"
	"sort"
)

type TxSpec struct {
	F  int    `json:"f"`
	T  int    `json:"t"`
	N  uint64 `json:"n"`
	TS int64  `json:"ts"`
	P  string `json:"p,omitempty"`
}

type RcSpec struct {
	St  int    `json:"st"` // 0 success, 1 failed
	Ret string `json:"ret,omitempty"`
	Ev  int    `json:"ev,omitempty"` // number of events
}

type WSpec struct {
	A int    `json:"a"`
	K string `json:"k"`
	V string `json:"v"`
}

// ETx is an executor-mode transaction
type ETx struct {
	K    string `json:"k"`              // xfer | bad | req | rcp
	From int    `json:"from,omitempty"` // admin index
	To   string `json:"to,omitempty"`   // account name
	Amt  string `json:"amt,omitempty"`
}

type Op struct {
	Op string `json:"op"` // Persist | Rollback | Reopen | Exec | Replace | Setup
	// Persist (synth)
	Txs []TxSpec `json:"txs,omitempty"`
	Rcs []RcSpec `json:"rcs,omitempty"`
	Ctr []int    `json:"ctr,omitempty"` // verified interchain indexes per destination chain c0, c1, ...
	TO  int      `json:"to,omitempty"`  // entries of the timeout counter (not part of the interchain count)
	W   []WSpec  `json:"w,omitempty"`   // state writes of the block
	Sig bool     `json:"sig,omitempty"` // block arrives already signed
	// Rollback
	T int `json:"t,omitempty"`
	// Replace (exec): deliver another block for the committed height H
	H int `json:"h,omitempty"`
	// Exec / Replace
	ETxs    []ETx `json:"etxs,omitempty"`
	NoAudit bool  `json:"noaudit,omitempty"`
}

type Plan struct {
	Name string `json:"name"`
	Mode string `json:"mode"` // synth | exec
	Seed int64  `json:"seed"`
	Ops  []Op   `json:"ops"`
}

type event map[string]interface{}

// chain is what both runners offer to the auditor
type chain interface {
	run(p *Plan) error
	events() []event
	close()
}

func main() {
	plansFile := flag.String("plans", "", "JSON plans")
	outDir := flag.String("out", ".", "")
	seed := flag.Int64("seed", 1, "")
	n := flag.Int("n", 40, "short synthetic histories")
	nlong := flag.Int("nlong", 6, "synthetic histories crossing the journal window")
	nexec := flag.Int("nexec", 6, "executor-produced histories (transfers)")
	nibtp := flag.Int("nibtp", 1, "executor-produced histories with interchain transactions")
	flag.Parse()
	var plans []*Plan
	if *plansFile != "" {
		b, err := ioutil.ReadFile(*plansFile)
		if err != nil {
			panic(err)
		}
		if err := json.Unmarshal(b, &plans); err != nil {
			panic(err)
		}
	} else {
		plans = genPlans(*seed, *n, *nlong, *nexec, *nibtp)
	}
	if err := os.MkdirAll(*outDir, 0755); err != nil {
		panic(err)
	}
	scratch, err := ioutil.TempDir(os.Getenv("TMPDIR"), "chainadp-")
	if err != nil {
		panic(err)
	}
	code := 0
	for i, p := range plans {
		dir := fmt.Sprintf("%s/n-%d", scratch, i)
		var r chain
		if p.Mode == "exec" {
			r = newExecRunner(dir, p)
		} else {
			r = newSynthRunner(dir, p)
		}
		err := r.run(p)
		r.close()
		os.RemoveAll(dir)
		if err != nil {
			fmt.Fprintf(os.Stderr, "chainadp: plan %s: %v\n", p.Name, err)
			code = 3
			break
		}
		f, _ := os.Create(fmt.Sprintf("%s/trace-%05d.ndjson", *outDir, i))
		enc := json.NewEncoder(f)
		for j, e := range r.events() {
			e["seq"] = j + 1
			if err := enc.Encode(e); err != nil {
				panic(err)
			}
		}
		f.Close()
		pb, _ := json.Marshal(p)
		ioutil.WriteFile(fmt.Sprintf("%s/plan-%05d.json", *outDir, i), pb, 0644)
	}
	os.RemoveAll(scratch)
	if code != 0 {
		os.Exit(code)
	}
	names := []string{}
	for _, p := range plans {
		names = append(names, p.Name)
	}
	sort.Strings(names)
	fmt.Printf("{\"plans\":%d}\n", len(plans))
}

var errStop = errors.New("stop")
