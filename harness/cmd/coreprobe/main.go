// coreprobe is the smoke test of package core: it stands up two real node cores with the same seed,
// drives the governance + interchain happy path on both, checks determinism, restart continuity and
// the expected receipts, and prints one JSON line per step. Exit code 0 only if every expectation holds.
package main

import (
	"encoding/json"
	"flag"
	"fmt"
	"io/ioutil"
	"os"
	"path/filepath"
	"sort"
	"time"

	"github.com/meshplus/bitxhub-model/pb"
	"github.com/meshplus/bitxhub/verifharness/core"
)

var (
	failed bool
	start  = time.Now()
)

func out(step string, kv map[string]interface{}) {
	if kv == nil {
		kv = map[string]interface{}{}
	}
	kv["step"] = step
	kv["ms"] = time.Since(start).Milliseconds()
	b, _ := json.Marshal(kv)
	fmt.Println(string(b))
}

func expect(step string, ok bool, msg string, args ...interface{}) {
	if !ok {
		failed = true
		out(step, map[string]interface{}{"FAIL": fmt.Sprintf(msg, args...)})
	}
}

func must(step string, err error) {
	if err != nil {
		out(step, map[string]interface{}{"FATAL": err.Error()})
		os.Exit(1)
	}
}

type env struct {
	n        *core.Node
	a, b     *core.Account
	src, dst string
	hashes   map[uint64]string // block hashes produced through ExecBlock
}

func (e *env) record(rs []*core.BlockResult) {
	for _, r := range rs {
		e.hashes[r.Block.BlockHeader.Number] = r.Block.BlockHash.String()
	}
}

// setup = steps 2..4 of the probe; identical call sequence on every node.
func (e *env) setup(tag string, verbose bool) {
	n := e.n
	e.a, e.b = n.Account("chainA-admin"), n.Account("chainB-admin")
	e.src, e.dst = n.FullServiceID("chainA", "svc1"), n.FullServiceID("chainB", "svc2")

	for _, acc := range []*core.Account{e.a, e.b} {
		rs, err := n.Fund(acc.Addr, "100000000")
		must(tag+"fund", err)
		e.record(rs)
	}
	for _, c := range []struct {
		acc        *core.Account
		chain, svc string
	}{{e.a, "chainA", "svc1"}, {e.b, "chainB", "svc2"}} {
		rs, err := n.RegisterAppchain(c.acc, c.chain)
		must(tag+"registerAppchain "+c.chain, err)
		e.record(rs)
		rs, err = n.RegisterService(c.acc, c.chain, c.svc, true, "")
		must(tag+"registerService "+c.chain+":"+c.svc, err)
		e.record(rs)
	}
	if verbose {
		out("2.governance", map[string]interface{}{"height": n.Height(), "chainA": n.AppchainStatus("chainA"), "chainB": n.AppchainStatus("chainB"),
			"svc1": n.ServiceStatus("chainA:svc1"), "svc2": n.ServiceStatus("chainB:svc2")})
	}

	// 3. request #1 chainA:svc1 -> chainB:svc2. Nobody checks who signs an IBTP transaction
	// (interchain.go checkIBTP never looks at the caller); we use the source chain's admin.
	req := n.NewIBTP(e.src, e.dst, 1, pb.IBTP_INTERCHAIN, 10, []byte("proof-1"))
	r, err := n.ExecBlock([]pb.Transaction{n.IBTPTx(e.a, req)}, nil, 0)
	must(tag+"ibtp1", err)
	e.record([]*core.BlockResult{r})
	expect(tag+"3.request", r.Receipts[0].IsSuccess(), "request 1 failed: %s", string(r.Receipts[0].Ret))
	st := n.GetStatus(req.ID())
	ic := n.GetInterchain(e.src)
	expect(tag+"3.request", st == "BEGIN", "status after request = %q, want BEGIN", st)
	expect(tag+"3.request", ic != nil && ic.InterchainCounter[e.dst] == 1, "InterchainCounter != 1: %+v", ic)
	expect(tag+"3.request", r.Meta.Counter["chainB"] != nil && len(r.Meta.Counter["chainB"].Slice) == 1, "meta counter lacks chainB: %+v", r.Meta.Counter)
	if verbose {
		out("3.request", map[string]interface{}{"height": r.Block.BlockHeader.Number, "receipt": r.Receipts[0].Status.String(), "status": st,
			"interchain": ic, "dstInterchain": n.GetInterchain(e.dst), "metaCounter": r.Meta.Counter})
	}

	// 4. matching receipt (same from/to/index, type RECEIPT_SUCCESS) sent by chainB's admin.
	rcp := n.NewIBTP(e.src, e.dst, 1, pb.IBTP_RECEIPT_SUCCESS, 10, []byte("proof-1r"))
	r, err = n.ExecBlock([]pb.Transaction{n.IBTPTx(e.b, rcp)}, nil, 0)
	must(tag+"receipt1", err)
	e.record([]*core.BlockResult{r})
	expect(tag+"4.receipt", r.Receipts[0].IsSuccess(), "receipt 1 failed: %s", string(r.Receipts[0].Ret))
	st = n.GetStatus(req.ID())
	ic = n.GetInterchain(e.src)
	expect(tag+"4.receipt", st == "SUCCESS", "status after receipt = %q, want SUCCESS", st)
	expect(tag+"4.receipt", ic != nil && ic.ReceiptCounter[e.dst] == 1, "ReceiptCounter != 1: %+v", ic)
	if verbose {
		out("4.receipt", map[string]interface{}{"height": r.Block.BlockHeader.Number, "receipt": r.Receipts[0].Status.String(), "status": st,
			"interchain": ic, "metaCounter": r.Meta.Counter})
	}
}

func main() {
	keep := flag.Bool("keep", false, "keep the temp dirs")
	seed := flag.Int64("seed", 7, "key derivation seed")
	proofType := flag.String("proof", "serial", "proof type: serial | parallel")
	verbose := flag.Bool("v", false, "bitxhub logs to stderr")
	audit := flag.Bool("audit", false, "Executor.EnableAudit")
	odd := flag.Bool("odd", false, "also run the probes for known bitxhub oddities (informational, never affects the exit code)")
	flag.Parse()

	root, err := ioutil.TempDir("", "coreprobe")
	must("tempdir", err)
	if !*keep {
		defer os.RemoveAll(root)
	}
	opt := func(name string) core.Options {
		return core.Options{Dir: filepath.Join(root, name), Seed: *seed, ProofType: *proofType, Verbose: *verbose, EnableAudit: *audit}
	}

	// 1. first node
	t0 := time.Now()
	n1, err := core.NewNode(opt("n1"))
	must("newnode", err)
	var admins []string
	for _, a := range n1.Admins() {
		admins = append(admins, a.Addr.String())
	}
	g1, err := n1.BlockHash(1)
	must("genesis hash", err)
	out("1.newnode", map[string]interface{}{"admins": admins, "height": n1.Height(), "genesis": g1.String(), "startup_ms": time.Since(t0).Milliseconds(), "dir": n1.Dir()})
	expect("1.newnode", n1.Height() == 1, "height after genesis = %d", n1.Height())

	// 2-4 on node 1
	e1 := &env{n: n1, hashes: map[uint64]string{}}
	e1.setup("", true)

	// determinism: the same seed and call sequence on a second node in another Dir
	n2, err := core.NewNode(opt("n2"))
	must("newnode2", err)
	g2, err := n2.BlockHash(1)
	must("genesis hash 2", err)
	e2 := &env{n: n2, hashes: map[uint64]string{}}
	e2.setup("n2:", false)
	same := g1.String() == g2.String() && n1.Height() == n2.Height()
	diff := []uint64{}
	for h := uint64(2); h <= n1.Height(); h++ {
		if e1.hashes[h] == "" || e1.hashes[h] != e2.hashes[h] {
			same = false
			diff = append(diff, h)
		}
	}
	d1, d2 := n1.Dump(), n2.Dump()
	dumpSame := len(d1) == len(d2)
	for k, v := range d1 {
		if d2[k] != v {
			dumpSame = false
		}
	}
	out("determinism", map[string]interface{}{"genesis_equal": g1.String() == g2.String(), "heights": []uint64{n1.Height(), n2.Height()},
		"block_hashes_equal": same, "differing_heights": diff, "state_dump_equal": dumpSame})
	expect("determinism", same, "block hashes differ at %v (genesis %s vs %s)", diff, g1, g2)
	expect("determinism", dumpSame, "state dumps differ")
	n2.Close()

	// 5. gap: request index 3 while 2 is expected
	n := n1
	gap := n.NewIBTP(e1.src, e1.dst, 3, pb.IBTP_INTERCHAIN, 10, []byte("proof-3"))
	r, err := n.ExecBlock([]pb.Transaction{n.IBTPTx(e1.a, gap)}, nil, 0)
	must("gap", err)
	expect("5.gap", !r.Receipts[0].IsSuccess(), "request index 3 was accepted")
	out("5.gap", map[string]interface{}{"height": r.Block.BlockHeader.Number, "receipt": r.Receipts[0].Status.String(), "ret": string(r.Receipts[0].Ret),
		"status": n.GetStatus(gap.ID()), "metaCounter": r.Meta.Counter})

	// 6. restart, the chain continues
	before, dumpBefore := n.Height(), n.Dump()
	t1 := time.Now()
	must("restart", n.Restart())
	restartMs := time.Since(t1).Milliseconds()
	expect("6.restart", n.Height() == before, "height after restart %d, before %d", n.Height(), before)
	dumpAfter := n.Dump()
	eq := len(dumpBefore) == len(dumpAfter)
	for k, v := range dumpBefore {
		if dumpAfter[k] != v {
			eq = false
		}
	}
	expect("6.restart", eq, "state dump changed across restart")
	req2 := n.NewIBTP(e1.src, e1.dst, 2, pb.IBTP_INTERCHAIN, 10, []byte("proof-2"))
	r, err = n.ExecBlock([]pb.Transaction{n.IBTPTx(e1.a, req2)}, nil, 0)
	must("ibtp2", err)
	expect("6.restart", r.Receipts[0].IsSuccess(), "request 2 after restart failed: %s", string(r.Receipts[0].Ret))
	expect("6.restart", r.Block.BlockHeader.Number == before+1, "block number %d after restart, want %d", r.Block.BlockHeader.Number, before+1)
	ic := n.GetInterchain(e1.src)
	expect("6.restart", ic != nil && ic.InterchainCounter[e1.dst] == 2, "InterchainCounter != 2: %+v", ic)
	out("6.restart", map[string]interface{}{"height_before": before, "height_after": n.Height(), "restart_ms": restartMs, "dump_equal": eq,
		"receipt": r.Receipts[0].Status.String(), "status": n.GetStatus(req2.ID()), "interchain": ic})

	// 6b. a multi-transaction block: receipt #2 (from chainB's admin) + requests #3 and #4 (two txs of one sender)
	multi := []pb.Transaction{
		n.IBTPTx(e1.b, n.NewIBTP(e1.src, e1.dst, 2, pb.IBTP_RECEIPT_SUCCESS, 10, []byte("proof-2r"))),
		n.IBTPTx(e1.a, n.NewIBTP(e1.src, e1.dst, 3, pb.IBTP_INTERCHAIN, 10, []byte("proof-3"))),
		n.IBTPTx(e1.a, n.NewIBTP(e1.src, e1.dst, 4, pb.IBTP_INTERCHAIN, 10, []byte("proof-4"))),
	}
	r, err = n.ExecBlock(multi, nil, 0)
	must("multi", err)
	sts := []string{}
	for i, rc := range r.Receipts {
		sts = append(sts, rc.Status.String())
		expect("6b.multi", rc.IsSuccess(), "tx %d of the multi block failed: %s", i, string(rc.Ret))
		expect("6b.multi", rc.TxHash.String() == multi[i].GetHash().String(), "receipt %d is not in block order", i)
	}
	ic = n.GetInterchain(e1.src)
	expect("6b.multi", ic != nil && ic.InterchainCounter[e1.dst] == 4 && ic.ReceiptCounter[e1.dst] == 2, "counters after multi block: %+v", ic)
	out("6b.multi", map[string]interface{}{"height": r.Block.BlockHeader.Number, "receipts": sts, "metaCounter": r.Meta.Counter, "interchain": ic,
		"nonceA": n.LedgerNonce(e1.a.Addr), "nonceB": n.LedgerNonce(e1.b.Addr)})

	if *odd {
		oddities(opt)
	}

	// 7. dump + timing
	dump := n.Dump()
	kinds := map[string]int{}
	for k := range dump {
		kind, _, _ := core.DecodeKey(k)
		kinds[kind]++
	}
	expect("7.dump", kinds["other"] == 0, "%d undecodable keys in dump", kinds["other"])
	head, _ := n.BlockHash(n.Height())
	n.Close()
	out("7.done", map[string]interface{}{"head": head.String(), "dump_keys": len(dump), "kinds": kinds, "height": n.Height(), "ok": !failed, "total_ms": time.Since(start).Milliseconds()})
	if failed {
		if !*keep {
			os.RemoveAll(root)
		}
		os.Exit(1)
	}
}

// oddities reproduces surprising behaviours of bitxhub found while building package core.
func oddities(opt func(string) core.Options) {
	dumpDiff := func(a, b map[string]string) (onlyA, onlyB, changed []string) {
		for k, v := range a {
			if w, ok := b[k]; !ok {
				onlyA = append(onlyA, k)
			} else if v != w {
				changed = append(changed, k)
			}
		}
		for k := range b {
			if _, ok := a[k]; !ok {
				onlyB = append(onlyB, k)
			}
		}
		sort.Strings(onlyA)
		sort.Strings(onlyB)
		sort.Strings(changed)
		return
	}

	// (a) genesis.Initialize writes the BNS state AFTER flushing+persisting block 1 (genesis.go initBNSData):
	// it only lives in the in-memory dirty set and is persisted as part of block 2. A node restarted
	// before block 2 loses it and computes a different state root / block hash for the same block 2.
	na, err := core.NewNode(opt("oddA"))
	must("oddA", err)
	nb, err := core.NewNode(opt("oddB"))
	must("oddB", err)
	genesisKeys := len(nb.Dump())
	must("oddB restart", nb.Restart())
	ra, err := na.ExecBlock(nil, nil, 0)
	must("oddA block2", err)
	rb, err := nb.ExecBlock(nil, nil, 0)
	must("oddB block2", err)
	onlyA, onlyB, changed := dumpDiff(na.Dump(), nb.Dump())
	out("odd.genesis-bns-lost-on-early-restart", map[string]interface{}{"block2_hash_no_restart": ra.Block.BlockHash.String(), "block2_hash_restart_before": rb.Block.BlockHash.String(),
		"diverged": ra.Block.BlockHash.String() != rb.Block.BlockHash.String(), "keys_after_genesis": genesisKeys, "keys_only_without_restart": onlyA, "keys_only_with_restart": onlyB, "changed": changed})

	// (b) the block hash covers neither the timestamp nor the bloom nor the timeout root (pb.BlockHeader.Hash).
	r3a, err := na.ExecBlock(nil, nil, 111)
	must("oddA block3", err)
	nc, err := core.NewNode(opt("oddC"))
	must("oddC", err)
	_, err = nc.ExecBlock(nil, nil, 0)
	must("oddC block2", err)
	r3c, err := nc.ExecBlock(nil, nil, 999999)
	must("oddC block3", err)
	out("odd.block-hash-ignores-timestamp", map[string]interface{}{"ts": []int64{r3a.Block.BlockHeader.Timestamp, r3c.Block.BlockHeader.Timestamp},
		"same_hash": r3a.Block.BlockHash.String() == r3c.Block.BlockHash.String()})

	// (c) tx.Extra (the raw proof) is covered neither by the signature nor by the tx hash.
	acc := na.Account("x")
	t1 := na.RawTx(acc, acc.Addr, []byte("p"), nil).(*pb.BxhTransaction)
	h1 := t1.Hash().String()
	t1.Extra = []byte("anything")
	out("odd.extra-not-in-tx-hash", map[string]interface{}{"same_hash": h1 == t1.Hash().String(), "sig_still_valid": t1.VerifySignature() == nil})

	// (d) the executor never checks nonces (only the mempool does): any nonce executes and the ledger
	// nonce is set to tx.nonce+1, so it can jump forward and go backwards (handle.go applyTransaction defer).
	adm := na.Admins()[1]
	var seen []uint64
	for _, nonce := range []uint64{100, 0} {
		na.SetNonce(adm.Addr, nonce)
		r, err := na.ExecBlock([]pb.Transaction{na.TransferTx(adm, acc.Addr, "1")}, nil, 0)
		must("odd nonce", err)
		seen = append(seen, uint64(r.Receipts[0].Status), na.LedgerNonce(adm.Addr))
	}
	out("odd.executor-ignores-nonce", map[string]interface{}{"status_and_ledger_nonce_after_nonce_100_then_0": seen})

	// (e) ExecBlockAt(number <= height) drives the executor's rollback path (handle.go rollbackBlocks).
	hb := na.Height()
	oldHash, _ := na.BlockHash(hb)
	rr, err := na.ExecBlockAt(hb, []pb.Transaction{na.TransferTx(na.Admins()[2], acc.Addr, "5")}, nil, 0)
	must("odd rollback", err)
	out("odd.rollback-via-ExecBlockAt", map[string]interface{}{"height_before": hb, "height_after": na.Height(), "old_hash": oldHash.String(),
		"new_hash": rr.Block.BlockHash.String(), "receipt": rr.Receipts[0].Status.String(), "event_meta_present": rr.EventMeta != nil,
		"ledger_nonce_admin1_after_rollback": na.LedgerNonce(adm.Addr)})
	next, err := na.ExecBlock(nil, nil, 0)
	must("odd after rollback", err)
	out("odd.after-rollback", map[string]interface{}{"height": next.Block.BlockHeader.Number, "parent_ok": next.Block.BlockHeader.ParentHash.String() == rr.Block.BlockHash.String()})
	na.Close()
	nb.Close()
	nc.Close()
}
