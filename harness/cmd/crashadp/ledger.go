package main

import (
	"crypto/sha256"
	"encoding/binary"
	"encoding/hex"
	"encoding/json"
	"errors"
	"fmt"
	"io/ioutil"
	"math/big"
	"math/rand"
	"os"
	"path/filepath"
	"sort"
	"strings"
	"sync"

	"github.com/cbergoon/merkletree"
	"github.com/meshplus/bitxhub-kit/crypto"
	"github.com/meshplus/bitxhub-kit/crypto/asym/ecdsa"
	"github.com/meshplus/bitxhub-kit/storage"
	"github.com/meshplus/bitxhub-kit/storage/blockfile"
	"github.com/meshplus/bitxhub-kit/storage/leveldb"
	"github.com/meshplus/bitxhub-kit/types"
	"github.com/meshplus/bitxhub-model/pb"
	"github.com/meshplus/bitxhub/internal/ledger"
	"github.com/meshplus/bitxhub/internal/repo"
	"github.com/sirupsen/logrus"
)

// ---------------------------------------------------------------------------------------------
// projection helpers
// ---------------------------------------------------------------------------------------------
func hs(h *types.Hash) string {
	if h == nil {
		return ""
	}
	for _, b := range h.RawHash {
		if b != 0 {
			return hex.EncodeToString(h.RawHash[:8])
		}
	}
	return ""
}

var addrs = []*types.Address{
	types.NewAddressByStr("0x4000000000000000000000000000000000000001"),
	types.NewAddressByStr("0x4000000000000000000000000000000000000002"),
	types.NewAddressByStr("0x4000000000000000000000000000000000000003"),
	types.NewAddressByStr("0x4000000000000000000000000000000000000004"),
	types.NewAddressByStr("0x4000000000000000000000000000000000000005"),
}

func fixedKey(tag string) crypto.PrivateKey {
	for try := 0; ; try++ {
		d := sha256.Sum256([]byte(fmt.Sprintf("crashadp|%s|%d", tag, try)))
		if key, err := ecdsa.UnmarshalPrivateKey(d[:], crypto.Secp256k1); err == nil {
			return key
		}
	}
}

func newRepo(dir string) *repo.Repo {
	key := fixedKey("node")
	addr, _ := key.PublicKey().Address()
	return &repo.Repo{Config: &repo.Config{RepoRoot: dir}, Key: &repo.Key{Address: addr.String(), PrivKey: key}}
}

func quietLogger() *logrus.Logger {
	l := logrus.New()
	l.SetOutput(ioutil.Discard)
	return l
}

// ---------------------------------------------------------------------------------------------
// storage wrappers: number the durable writes of a store and drop those beyond the wanted prefix
// ---------------------------------------------------------------------------------------------
type atom struct {
	ID    string   `json:"id"`
	Kinds []string `json:"kinds"`
	Kept  bool     `json:"kept"`
}

type cutStore struct {
	storage.Storage
	tag   string // "S" (state store) | "C" (chain index store)
	mu    sync.Mutex
	armed bool
	keep  int
	atoms []*atom
}

func keyKind(tag string, key []byte) string {
	k := string(key)
	if tag == "S" {
		switch {
		case k == "journal-maxHeight":
			return "journal-max"
		case k == "journal-minHeight":
			return "journal-min"
		case strings.HasPrefix(k, "journal-"):
			return "journal"
		case strings.HasPrefix(k, "account-"):
			return "account"
		case strings.HasPrefix(k, "code-"):
			return "code"
		}
		return "state"
	}
	for _, p := range []string{"chain-meta", "tx-meta-", "block-hash-", "block-height-", "block-tx-set-", "interchain-meta-"} {
		if strings.HasPrefix(k, p) {
			return strings.TrimSuffix(p, "-")
		}
	}
	return "other"
}

// next registers one durable write and tells whether it reaches disk
func (c *cutStore) next(kinds map[string]bool) bool {
	c.mu.Lock()
	defer c.mu.Unlock()
	var ks []string
	for k := range kinds {
		ks = append(ks, k)
	}
	sort.Strings(ks)
	a := &atom{ID: fmt.Sprintf("%s%d", c.tag, len(c.atoms)+1), Kinds: ks}
	a.Kept = len(c.atoms)+1 <= c.keep
	c.atoms = append(c.atoms, a)
	return a.Kept
}

func (c *cutStore) Put(key, value []byte) {
	if !c.armed || c.next(map[string]bool{keyKind(c.tag, key): true}) {
		c.Storage.Put(key, value)
	}
}

func (c *cutStore) Delete(key []byte) {
	if !c.armed || c.next(map[string]bool{"del:" + keyKind(c.tag, key): true}) {
		c.Storage.Delete(key)
	}
}

func (c *cutStore) NewBatch() storage.Batch {
	return &cutBatch{c: c, inner: c.Storage.NewBatch(), kinds: map[string]bool{}}
}

type cutBatch struct {
	c     *cutStore
	inner storage.Batch
	kinds map[string]bool
}

func (b *cutBatch) Put(key, value []byte) {
	b.kinds[keyKind(b.c.tag, key)] = true
	b.inner.Put(key, value)
}
func (b *cutBatch) Delete(key []byte) {
	b.kinds["del:"+keyKind(b.c.tag, key)] = true
	b.inner.Delete(key)
}
func (b *cutBatch) Commit() {
	if !b.c.armed || b.c.next(b.kinds) {
		b.inner.Commit()
	}
}

// ---------------------------------------------------------------------------------------------
// a real ledger on a directory
// ---------------------------------------------------------------------------------------------
type node struct {
	dir     string
	chainDB storage.Storage
	stateDB storage.Storage
	bf      *blockfile.BlockFile
	ldg     *ledger.Ledger
	chainW  *cutStore
	stateW  *cutStore
}

func openNode(dir string, wrap bool) (n *node, err error) {
	n = &node{dir: dir}
	defer func() {
		if r := recover(); r != nil {
			err = fmt.Errorf("panic: %v", r)
		}
		if err != nil {
			n.close()
		}
	}()
	if err = os.MkdirAll(dir, 0755); err != nil {
		return n, err
	}
	if n.chainDB, err = leveldb.New(filepath.Join(dir, "storage", "blockchain")); err != nil {
		return n, fmt.Errorf("open chain db: %w", err)
	}
	if n.stateDB, err = leveldb.New(filepath.Join(dir, "storage", "ledger")); err != nil {
		return n, fmt.Errorf("open state db: %w", err)
	}
	logger := quietLogger()
	if n.bf, err = blockfile.NewBlockFile(dir, logger); err != nil {
		return n, fmt.Errorf("open block file: %w", err)
	}
	var cs, ss storage.Storage = n.chainDB, n.stateDB
	if wrap {
		n.chainW = &cutStore{Storage: n.chainDB, tag: "C"}
		n.stateW = &cutStore{Storage: n.stateDB, tag: "S"}
		cs, ss = n.chainW, n.stateW
	}
	n.ldg, err = ledger.New(newRepo(dir), cs, ss, n.bf, nil, logger)
	return n, err
}

func (n *node) close() {
	if n.chainDB != nil {
		n.chainDB.Close()
	}
	if n.stateDB != nil {
		n.stateDB.Close()
	}
	if n.bf != nil {
		n.bf.Close()
	}
	n.chainDB, n.stateDB, n.bf = nil, nil, nil
}

func libMerkle(contents []merkletree.Content) *types.Hash {
	if len(contents) == 0 {
		return &types.Hash{}
	}
	tree, err := merkletree.NewTree(contents)
	if err != nil {
		panic(err)
	}
	return types.NewHash(tree.MerkleRoot())
}

// blockTxs: the transactions of reference block i (a pure function of seed and i)
func blockTxs(seed int64, i int) []*pb.BxhTransaction {
	rng := rand.New(rand.NewSource(seed*1000003 + int64(i)*7919))
	var txs []*pb.BxhTransaction
	for k := 0; k < 1+rng.Intn(3); k++ {
		tx := &pb.BxhTransaction{From: addrs[rng.Intn(len(addrs))], To: addrs[rng.Intn(len(addrs))], Nonce: uint64(i*10 + k),
			Timestamp: int64(1600000000 + i*100 + k), Payload: []byte(fmt.Sprintf("p-%d-%d", i, rng.Intn(1000)))}
		tx.TransactionHash = tx.Hash()
		txs = append(txs, tx)
	}
	return txs
}

// persistBlock executes and persists reference block number height+1: read-modify-write state changes (so that
// executing on a wrong state gives another state root), creations, deletions, code; header completed as
// internal/executor/handle.go does; PersistBlockData.
func persistBlock(ldg *ledger.Ledger, seed int64) *pb.Block {
	meta := ldg.GetChainMeta()
	i := int(meta.Height) + 1
	rng := rand.New(rand.NewSource(seed*999983 + int64(i)*104729))
	for k := 0; k < 2+rng.Intn(3); k++ {
		a := addrs[rng.Intn(len(addrs))]
		switch rng.Intn(6) {
		case 0, 1:
			bal := ldg.GetBalance(a)
			ldg.SetBalance(a, new(big.Int).Add(bal, big.NewInt(int64(1+rng.Intn(9)))))
		case 2:
			ldg.SetNonce(a, ldg.GetNonce(a)+1)
		case 3:
			key := []byte(fmt.Sprintf("ctr%d", rng.Intn(2)))
			_, v := ldg.GetState(a, key)
			ldg.SetState(a, key, append(append([]byte{}, v...), byte('a'+i%26)), nil)
		case 4:
			key := []byte(fmt.Sprintf("k%d", rng.Intn(3)))
			if ok, _ := ldg.GetState(a, key); ok && rng.Intn(2) == 0 {
				ldg.SetState(a, key, nil, nil) // deletion
			} else {
				ldg.SetState(a, key, []byte(fmt.Sprintf("v%d", i)), nil)
			}
		default:
			if a == addrs[4] {
				ldg.SetCode(a, []byte(fmt.Sprintf("code-%d", i)))
			} else {
				ldg.SetState(a, []byte("last"), []byte(fmt.Sprintf("%d", i)), nil)
			}
		}
	}
	bal := ldg.GetBalance(addrs[0])
	ldg.SetBalance(addrs[0], new(big.Int).Add(bal, big.NewInt(1))) // every block changes the state
	txsB := blockTxs(seed, i)
	var txs []pb.Transaction
	var txHashes []*types.Hash
	txLeaves := []merkletree.Content{}
	var receipts []*pb.Receipt
	rcLeaves := []merkletree.Content{}
	for k, tx := range txsB {
		txs = append(txs, tx)
		txHashes = append(txHashes, tx.GetHash())
		txLeaves = append(txLeaves, tx.GetHash())
		rc := &pb.Receipt{Version: []byte("1"), TxHash: tx.GetHash(), Status: pb.Receipt_Status((i + k) % 2), Ret: []byte(fmt.Sprintf("ret-%d-%d", i, k))}
		receipts = append(receipts, rc)
		rcLeaves = append(rcLeaves, rc.Hash())
	}
	im := &pb.InterchainMeta{Counter: map[string]*pb.VerifiedIndexSlice{}}
	if i%3 != 0 {
		sl := &pb.VerifiedIndexSlice{}
		for k := 0; k < 1+i%4; k++ {
			sl.Slice = append(sl.Slice, &pb.VerifiedIndex{Index: uint64(i*10 + k), Valid: true})
		}
		im.Counter["c0"] = sl
	}
	block := &pb.Block{
		BlockHeader:  &pb.BlockHeader{Number: uint64(i), Timestamp: int64(1600000000 + i), Version: []byte("1.0.0")},
		Transactions: &pb.Transactions{Transactions: txs},
	}
	block.BlockHeader.TxRoot = libMerkle(txLeaves)
	block.BlockHeader.ReceiptRoot = libMerkle(rcLeaves)
	block.BlockHeader.ParentHash = meta.BlockHash
	accounts, journalHash := ldg.FlushDirtyData()
	block.BlockHeader.StateRoot = journalHash
	block.BlockHash = block.Hash()
	ldg.PersistBlockData(&ledger.BlockData{Block: block, Receipts: receipts, Accounts: accounts, InterchainMeta: im, TxHashList: txHashes})
	return block
}

// stateDump digests the whole state store except the block journals
func stateDump(db storage.Storage) string {
	h := sha256.New()
	it := db.Iterator(nil, nil)
	n := 0
	for it.Next() {
		k := it.Key()
		if strings.HasPrefix(string(k), "journal-") {
			continue
		}
		var l [8]byte
		binary.BigEndian.PutUint32(l[:4], uint32(len(k)))
		binary.BigEndian.PutUint32(l[4:], uint32(len(it.Value())))
		h.Write(l[:])
		h.Write(k)
		h.Write(it.Value())
		n++
	}
	return fmt.Sprintf("%d:%s", n, hex.EncodeToString(h.Sum(nil)[:8]))
}

// ---------------------------------------------------------------------------------------------
// the reference chain (no faults) and its snapshots
// ---------------------------------------------------------------------------------------------
type reference struct {
	Seed   int64      `json:"seed"`
	Dir    string     `json:"dir"`
	Hashes []string   `json:"hashes"` // Hashes[i-1]: block i
	Dumps  []string   `json:"dumps"`  // Dumps[i]: state after block i (Dumps[0]: empty)
	Txs    [][]string `json:"txs"`    // hex tx hashes of block i at Txs[i-1]
	Full   []string   `json:"full"`   // full hex block hashes
}

func (r *reference) snapDir(h int) string { return filepath.Join(r.Dir, fmt.Sprintf("snap-%d", h)) }
func (r *reference) file() string         { return filepath.Join(r.Dir, "ref.json") }

func buildReference(dir string, seed int64, n int, heights []int) *reference {
	ref := &reference{Seed: seed, Dir: dir}
	live := filepath.Join(dir, "live")
	snapAt := map[int]bool{}
	for _, h := range heights {
		snapAt[h-1] = true
	}
	nd, err := openNode(live, false)
	if err != nil {
		panic(fmt.Errorf("reference: %w", err))
	}
	ref.Dumps = append(ref.Dumps, stateDump(nd.stateDB))
	for i := 1; i <= n; i++ {
		if snapAt[i-1] {
			nd.close()
			if err := copyDir(live, ref.snapDir(i-1)); err != nil {
				panic(err)
			}
			if nd, err = openNode(live, false); err != nil {
				panic(fmt.Errorf("reference reopen: %w", err))
			}
		}
		b := persistBlock(nd.ldg, seed)
		ref.Hashes = append(ref.Hashes, hs(b.BlockHash))
		ref.Full = append(ref.Full, b.BlockHash.String())
		var txs []string
		for _, tx := range b.Transactions.Transactions {
			txs = append(txs, tx.GetHash().String())
		}
		ref.Txs = append(ref.Txs, txs)
		ref.Dumps = append(ref.Dumps, stateDump(nd.stateDB))
	}
	nd.close()
	return ref
}

// ---------------------------------------------------------------------------------------------
// building the crash state
// ---------------------------------------------------------------------------------------------
var tableNames = []string{blockfile.BlockFileHashTable, blockfile.BlockFileBodiesTable, blockfile.BlockFileTXsTable,
	blockfile.BlockFileReceiptTable, blockfile.BlockFileInterchainTable} // the order of AppendBlock

func prefixLen(reached []string, tag string) int {
	set := map[string]bool{}
	for _, a := range reached {
		set[a] = true
	}
	n := 0
	for set[fmt.Sprintf("%s%d", tag, n+1)] {
		n++
	}
	return n
}

// cutTable removes the items above `want` from one block-file table (index entries, and the data unless dangle)
func cutTable(dir, name string, want int, dangle bool) error {
	root := filepath.Join(dir, "storage", "blockfile")
	idx := filepath.Join(root, name+".ridx")
	st, err := os.Stat(idx)
	if err != nil {
		return err
	}
	items := int(st.Size()/6) - 1
	if items <= want {
		return nil
	}
	if err := os.Truncate(idx, int64(want+1)*6); err != nil {
		return err
	}
	if dangle {
		return nil
	}
	b, err := ioutil.ReadFile(idx)
	if err != nil {
		return err
	}
	last := b[want*6 : want*6+6]
	filenum := binary.BigEndian.Uint16(last[:2])
	offset := binary.BigEndian.Uint32(last[2:6])
	return os.Truncate(filepath.Join(root, fmt.Sprintf("%s.%04d.rdat", name, filenum)), int64(offset))
}

// commitWithCut persists block h on dir (which holds the chain up to h-1) letting only the reached atoms become durable
func commitWithCut(dir string, seed int64, h int, reached []string, probe bool) []*atom {
	nd, err := openNode(dir, true)
	if err != nil {
		panic(fmt.Errorf("open for commit: %w", err))
	}
	if int(nd.ldg.GetChainMeta().Height) != h-1 {
		panic(fmt.Errorf("base directory is at height %d, want %d", nd.ldg.GetChainMeta().Height, h-1))
	}
	nd.stateW.keep, nd.chainW.keep = prefixLen(reached, "S"), prefixLen(reached, "C")
	if probe {
		nd.stateW.keep, nd.chainW.keep = 1<<30, 1<<30
	}
	nd.stateW.armed, nd.chainW.armed = true, true
	persistBlock(nd.ldg, seed)
	nd.stateW.armed, nd.chainW.armed = false, false
	atoms := append(append([]*atom{}, nd.stateW.atoms...), nd.chainW.atoms...)
	nd.close() // the "crash": nothing is written on close
	nt := prefixLen(reached, "T")
	for t := 1; t <= 5; t++ {
		a := &atom{ID: fmt.Sprintf("T%d", t), Kinds: []string{tableNames[t-1]}, Kept: probe || t <= nt}
		atoms = append(atoms, a)
	}
	return atoms
}

func cutTables(dir string, h int, reached []string, dangle bool) {
	nt := prefixLen(reached, "T")
	for t := nt + 1; t <= 5; t++ {
		if err := cutTable(dir, tableNames[t-1], h-1, dangle && t == nt+1); err != nil {
			panic(fmt.Errorf("cut table %s: %w", tableNames[t-1], err))
		}
	}
}

// ---------------------------------------------------------------------------------------------
// one case, in a process of its own
// ---------------------------------------------------------------------------------------------
func say(e event) {
	b, _ := json.Marshal(e)
	os.Stdout.Write(append(b, '\n'))
	os.Stdout.Sync()
}

func errClass(err error) string {
	switch {
	case err == nil:
		return "ok"
	case errors.Is(err, ledger.ErrorRollbackToHigherNumber):
		return "higher"
	case errors.Is(err, ledger.ErrorRollbackTooMuch):
		return "toomuch"
	case strings.HasPrefix(err.Error(), "panic:"):
		return "panic"
	}
	return "other"
}

func guard(f func()) {
	defer func() { recover() }()
	f()
}

func runChild(dir, planJSON, refFile string) {
	var p Plan
	if err := json.Unmarshal([]byte(planJSON), &p); err != nil {
		panic(err)
	}
	var ref reference
	b, err := ioutil.ReadFile(refFile)
	if err != nil {
		panic(err)
	}
	if err := json.Unmarshal(b, &ref); err != nil {
		panic(err)
	}
	// 1. the interrupted commit
	atoms := commitWithCut(dir, p.Seed, p.H, p.Reached, false)
	cutTables(dir, p.H, p.Reached, p.Dangle)
	say(event{"ev": "Commit", "h": p.H, "atoms": atoms})
	var reached, missing []string
	for _, a := range atoms {
		if a.Kept {
			reached = append(reached, a.ID)
		} else {
			missing = append(missing, a.ID)
		}
	}
	reached, missing = canon(reached), canon(missing)
	if reached == nil {
		reached = []string{}
	}
	if missing == nil {
		missing = []string{}
	}
	say(event{"ev": "Crash", "reached": reached, "missing": missing, "dangle": p.Dangle})

	// 2. the real recovery
	nd, err := openNode(dir, false)
	rec := event{"ev": "Recover", "opened": err == nil, "err": errClass(err), "msg": "", "height": -1, "version": -1, "headReadable": false,
		"stateRoot": "?", "journalRoot": "??", "dump": "", "hashes": []string{}, "above": event{"block": false, "bhash": false, "byHash": false, "txs": 0}}
	if err != nil {
		rec["msg"] = err.Error()
		say(rec)
		say(event{"ev": "Continue", "ok": false, "err": "not opened", "msg": "", "hashes": []string{}, "height": -1})
		return
	}
	ldg := nd.ldg
	meta := ldg.GetChainMeta()
	height := int(meta.Height)
	rec["height"] = height
	rec["version"] = int(ldg.Version())
	hashes := []string{}
	for i := 1; i <= height; i++ {
		s := ""
		guard(func() {
			full, err1 := ldg.GetBlock(uint64(i), true)
			_, err2 := ldg.GetBlock(uint64(i), false)
			if err1 == nil && err2 == nil && full != nil && full.BlockHeader != nil && int(full.BlockHeader.Number) == i {
				s = hs(full.BlockHash)
			}
		})
		hashes = append(hashes, s)
	}
	rec["hashes"] = hashes
	if height == 0 {
		rec["headReadable"], rec["stateRoot"] = true, ""
	} else {
		guard(func() {
			if blk, err := ldg.GetBlock(uint64(height), true); err == nil && blk != nil && hs(blk.BlockHash) == hs(meta.BlockHash) {
				rec["headReadable"] = true
				rec["stateRoot"] = hs(blk.BlockHeader.StateRoot)
			}
		})
	}
	// root of the state store: the journal hash of its version
	ver := ldg.Version()
	if ver == 0 {
		rec["journalRoot"] = ""
	} else if data := nd.stateDB.Get([]byte(fmt.Sprintf("journal-%d", ver))); data != nil {
		j := &ledger.BlockJournal{}
		if json.Unmarshal(data, j) == nil {
			rec["journalRoot"] = hs(j.ChangedHash)
		}
	}
	rec["dump"] = stateDump(nd.stateDB)
	// does any store still know something of the block above the height?
	if height+1 <= len(ref.Full) {
		ab := event{"block": false, "bhash": false, "byHash": false, "txs": 0}
		guard(func() {
			if blk, err := ldg.GetBlock(uint64(height+1), true); err == nil && blk != nil {
				ab["block"] = true
			}
		})
		guard(func() { ab["bhash"] = hs(ldg.GetBlockHash(uint64(height+1))) != "" })
		guard(func() {
			if blk, err := ldg.GetBlockByHash(types.NewHashByStr(ref.Full[height]), true); err == nil && blk != nil {
				ab["byHash"] = true
			}
		})
		cnt := 0
		for _, t := range ref.Txs[height] {
			guard(func() {
				if m, err := ldg.GetTransactionMeta(types.NewHashByStr(t)); err == nil && m != nil {
					cnt++
				}
			})
		}
		ab["txs"] = cnt
		rec["above"] = ab
	}
	say(rec)

	// 3. continue with the remaining reference blocks (a refused append panics in a goroutine: the process dies)
	for i := height + 1; i <= p.N; i++ {
		persistBlock(ldg, p.Seed)
	}
	out := []string{}
	for i := height + 1; i <= p.N; i++ {
		s := ""
		guard(func() {
			if blk, err := ldg.GetBlock(uint64(i), true); err == nil && blk != nil {
				s = hs(blk.BlockHash)
			}
		})
		out = append(out, s)
	}
	say(event{"ev": "Continue", "ok": true, "err": "ok", "msg": "", "hashes": out, "height": int(ldg.GetChainMeta().Height)})
	nd.close()
}
