// crashadp builds, for an abstract crash state of the Persist specification (the set of durable writes of
// one block commit that reached disk), exactly that on-disk state from a really committed ledger, then runs
// the real recovery (blockfile.NewBlockFile + ledger.New) and continues the reference chain (family Persist,
// property C11).
//
// How a crash state is produced: the ledger is opened on a copy of the reference directory at height h-1 with
// storage.Storage wrappers around the two leveldb stores; while block h is persisted the wrappers number every
// durable write of each store ("atoms" S1,S2,.. / C1,..: a batch commit, or a direct put/delete) and silently
// drop those beyond the wanted prefix; the block file is written completely and, after everything was closed,
// the last item of every table that must not have been reached is cut off again (index entry and data; with
// "dangle" the data bytes of the first missing table are left behind, as after a crash between the two file
// writes of one append).  Recovery and continuation run in a child process, because a refused block-file
// append panics in a goroutine of PersistExecutionResult and cannot be recovered in-process.
//
// No oracle here: the reference chain is produced by the same real code without faults; the trace carries its
// block hashes and state digests, and TLC compares.
package main

import (
	"bufio"
	"bytes"
	"context"
	"encoding/json"
	"flag"
	"fmt"
	"io/ioutil"
	"os"
	"os/exec"
	"path/filepath"
	"sort"
	"strings"
	"time"
)

type Plan struct {
	Name    string   `json:"name"`
	H       int      `json:"h"`       // the height whose commit is interrupted
	N       int      `json:"n"`       // length of the reference chain
	Reached []string `json:"reached"` // atoms that reached disk
	Dangle  bool     `json:"dangle,omitempty"`
	Seed    int64    `json:"seed"`
	Src     string   `json:"src,omitempty"`
}

type event map[string]interface{}

func canon(atoms []string) []string {
	rank := func(a string) int {
		base := map[byte]int{'S': 0, 'C': 100, 'T': 200}[a[0]]
		n := 0
		fmt.Sscanf(a[1:], "%d", &n)
		return base + n
	}
	out := append([]string{}, atoms...)
	sort.Slice(out, func(i, j int) bool { return rank(out[i]) < rank(out[j]) })
	return out
}

func copyDir(src, dst string) error {
	return filepath.Walk(src, func(p string, info os.FileInfo, err error) error {
		if err != nil {
			return err
		}
		rel, _ := filepath.Rel(src, p)
		t := filepath.Join(dst, rel)
		if info.IsDir() {
			return os.MkdirAll(t, 0755)
		}
		b, err := ioutil.ReadFile(p)
		if err != nil {
			return err
		}
		return ioutil.WriteFile(t, b, 0644)
	})
}

func main() {
	child := flag.Bool("child", false, "internal: run one case in this process")
	dir := flag.String("dir", "", "internal: case directory")
	planJSON := flag.String("plan", "", "internal: the plan (JSON)")
	refJSON := flag.String("ref", "", "internal: reference file")
	plansFile := flag.String("plans", "", "JSON plans")
	outDir := flag.String("out", ".", "")
	seed := flag.Int64("seed", 1, "")
	probe := flag.Bool("probe", false, "print the atoms of committing each of -heights and exit")
	heights := flag.String("heights", "1,5,11,12,14", "")
	extra := flag.Int("extra", 2, "reference blocks after the interrupted one")
	childTimeout := flag.Int("child-timeout", 20, "seconds after which a case that does not return is recorded as a hang")
	flag.Parse()
	if *child {
		runChild(*dir, *planJSON, *refJSON)
		return
	}
	var plans []*Plan
	if *plansFile != "" {
		b, err := ioutil.ReadFile(*plansFile)
		if err != nil {
			panic(err)
		}
		if err := json.Unmarshal(b, &plans); err != nil {
			panic(err)
		}
	}
	var hs []int
	for _, s := range strings.Split(*heights, ",") {
		var h int
		if _, err := fmt.Sscanf(strings.TrimSpace(s), "%d", &h); err == nil && h > 0 {
			hs = append(hs, h)
		}
	}
	scratch, err := ioutil.TempDir(os.Getenv("TMPDIR"), "crashadp-")
	if err != nil {
		panic(err)
	}
	defer os.RemoveAll(scratch)
	if *probe {
		// the atoms the real code issues when committing block h (nothing dropped)
		out := map[string]interface{}{}
		maxH := 0
		for _, h := range hs {
			if h > maxH {
				maxH = h
			}
		}
		ref := buildReference(filepath.Join(scratch, "ref"), *seed, maxH+*extra, hs)
		for _, h := range hs {
			d := filepath.Join(scratch, fmt.Sprintf("probe-%d", h))
			if err := copyDir(ref.snapDir(h-1), d); err != nil {
				panic(err)
			}
			atoms := commitWithCut(d, ref.Seed, h, nil, true)
			out[fmt.Sprintf("%d", h)] = atoms
			os.RemoveAll(d)
		}
		b, _ := json.Marshal(out)
		fmt.Println(string(b))
		return
	}
	if len(plans) == 0 {
		fmt.Fprintln(os.Stderr, "crashadp: no plans (the crash states come from TLC: use -plans)")
		os.Exit(2)
	}
	if err := os.MkdirAll(*outDir, 0755); err != nil {
		panic(err)
	}
	// one reference chain per seed, snapshots at every needed height
	refs := map[int64]*reference{}
	need := map[int64]map[int]bool{}
	maxN := map[int64]int{}
	for _, p := range plans {
		if need[p.Seed] == nil {
			need[p.Seed] = map[int]bool{}
		}
		need[p.Seed][p.H] = true
		if p.N > maxN[p.Seed] {
			maxN[p.Seed] = p.N
		}
	}
	for s, m := range need {
		var l []int
		for h := range m {
			l = append(l, h)
		}
		sort.Ints(l)
		refs[s] = buildReference(filepath.Join(scratch, fmt.Sprintf("ref-%d", s)), s, maxN[s], l)
		b, _ := json.Marshal(refs[s])
		ioutil.WriteFile(refs[s].file(), b, 0644)
	}
	self, err := os.Executable()
	if err != nil {
		panic(err)
	}
	for i, p := range plans {
		ref := refs[p.Seed]
		p.Reached = canon(p.Reached)
		caseDir := filepath.Join(scratch, fmt.Sprintf("case-%d", i))
		if err := copyDir(ref.snapDir(p.H-1), caseDir); err != nil {
			panic(err)
		}
		pj, _ := json.Marshal(p)
		// a recovery that does not return is an observation too ("hang"), after a generous bound
		limit := time.Duration(*childTimeout) * time.Second
		if p.Dangle && limit > 5*time.Second {
			limit = 5 * time.Second // known to hang in the block-file library; a healthy recovery takes well under a second
		}
		ctx, cancel := context.WithTimeout(context.Background(), limit)
		cmd := exec.CommandContext(ctx, self, "-child", "-dir", caseDir, "-plan", string(pj), "-ref", ref.file())
		var stdout, stderr bytes.Buffer
		cmd.Stdout, cmd.Stderr = &stdout, &stderr
		runErr := cmd.Run()
		hung := ctx.Err() == context.DeadlineExceeded
		cancel()
		os.RemoveAll(caseDir)
		var evs []event
		sc := bufio.NewScanner(&stdout)
		sc.Buffer(make([]byte, 1<<20), 1<<26)
		for sc.Scan() {
			var e event
			if json.Unmarshal(sc.Bytes(), &e) == nil && e["ev"] != nil {
				evs = append(evs, e)
			}
		}
		has := func(name string) bool {
			for _, e := range evs {
				if e["ev"] == name {
					return true
				}
			}
			return false
		}
		if hung && has("Crash") && !has("Recover") {
			evs = append(evs, event{"ev": "Recover", "opened": false, "err": "hang", "msg": fmt.Sprintf("recovery did not return within %s", limit), "height": -1,
				"version": -1, "headReadable": false, "stateRoot": "?", "journalRoot": "??", "dump": "", "hashes": []string{},
				"above": event{"block": false, "bhash": false, "byHash": false, "txs": 0}})
			evs = append(evs, event{"ev": "Continue", "ok": false, "err": "not opened", "msg": "", "hashes": []string{}, "height": -1})
		}
		if !has("Recover") {
			fmt.Fprintf(os.Stderr, "crashadp: plan %s: child failed before recovery: %v\n%s\n", p.Name, runErr, tail(stderr.String(), 2000))
			os.Exit(3)
		}
		if !has("Continue") {
			// the process died while continuing the chain (a panic in a persisting goroutine)
			msg := "died"
			if hung {
				msg = "hang"
			}
			for _, l := range strings.Split(stderr.String(), "\n") {
				if strings.HasPrefix(l, "panic:") {
					msg = l
					break
				}
			}
			evs = append(evs, event{"ev": "Continue", "ok": false, "err": "process died", "msg": msg, "hashes": []string{}, "height": -1})
		}
		n := p.N
		refHashes := ref.Hashes[:n]
		refDump := ref.Dumps[:n+1]
		all := append([]event{{"ev": "Init", "name": p.Name, "h": p.H, "n": n, "ref": refHashes, "refDump": refDump, "window": 10}}, evs...)
		f, _ := os.Create(fmt.Sprintf("%s/trace-%05d.ndjson", *outDir, i))
		enc := json.NewEncoder(f)
		for j, e := range all {
			e["seq"] = j + 1
			if err := enc.Encode(e); err != nil {
				panic(err)
			}
		}
		f.Close()
		ioutil.WriteFile(fmt.Sprintf("%s/plan-%05d.json", *outDir, i), pj, 0644)
	}
	fmt.Printf("{\"plans\":%d}\n", len(plans))
}

func tail(s string, n int) string {
	if len(s) > n {
		return s[len(s)-n:]
	}
	return s
}
