// execadp drives the real block executor (through harness/core) with abstract block plans and records
// one ndjson trace per plan: receipts, balances, state deltas against a sibling node that executes
// the same blocks without the transactions that failed, delivery metadata, view executions.
// No oracle here.
package main

import (
	"bytes"
	"encoding/hex"
	"encoding/json"
	"flag"
	"fmt"
	"github.com/ethereum/go-ethereum/common"
	ethcrypto "github.com/ethereum/go-ethereum/crypto"
	"io/ioutil"
	"math/big"
	"math/rand"
	"os"
	"sort"
	"strings"

	"github.com/meshplus/bitxhub-kit/types"
	"github.com/meshplus/bitxhub-model/constant"
	"github.com/meshplus/bitxhub-model/pb"
	"github.com/meshplus/bitxhub/verifharness/core"
	"github.com/meshplus/bitxhub/verifharness/lockstep"
)

type Arg struct {
	T string `json:"t"` // string | bytes | u64 | i32 | i64 | bool | f64
	V string `json:"v"`
}

type Tx struct {
	K      string `json:"k"` // transfer | invoke | raw | ibtp | xvm
	From   string `json:"from"`
	To     string `json:"to,omitempty"`  // account name, "self", "admin<i>", "contract:<name>", "0x.."
	Amt    string `json:"amt,omitempty"` // transfer amount (any string)
	C      string `json:"c,omitempty"`   // contract name for invoke
	M      string `json:"m,omitempty"`
	Args   []Arg  `json:"args,omitempty"`
	Pay    string `json:"pay,omitempty"` // raw payload hex
	BadSig bool   `json:"badsig,omitempty"`
	Cls    string `json:"cls,omitempty"` // free-form class label of the generator (for evidence only)
	// Ethereum-style transactions (k = eth): To = account | "create" | "contract" (the contract deployed earlier in
	// the plan), Amt = value, Pay = calldata / init code hex ("store" = the storage test contract), Gas, NonceOff
	Gas      uint64 `json:"gas,omitempty"`
	NonceOff int    `json:"nonceoff,omitempty"`
	Free     bool   `json:"free,omitempty"` // gas price 0 (any gas allowance is affordable)
}

type Plan struct {
	Name      string       `json:"name"`
	NAdmins   int          `json:"nadmins"`
	Audit     bool         `json:"audit"`
	Seed      int64        `json:"seed"`
	Blocks    [][]Tx       `json:"blocks"`
	Views     map[int][]Tx `json:"views,omitempty"` // after block index i: view-execute these
	Restart   map[int]bool `json:"restart,omitempty"`
	RootPairs int          `json:"rootpairs,omitempty"` // C10: number of root-pair rounds instead of blocks
}

var contractsByName = lockstep.ContractsByName

var _unused = map[string]constant.BoltContractAddress{
	"interchain": constant.InterchainContractAddr, "store": constant.StoreContractAddr, "rule": constant.RuleManagerContractAddr,
	"role": constant.RoleContractAddr, "appchain": constant.AppchainMgrContractAddr, "txmgr": constant.TransactionMgrContractAddr,
	"governance": constant.GovernanceContractAddr, "node": constant.NodeManagerContractAddr, "interbroker": constant.InterBrokerContractAddr,
	"service": constant.ServiceMgrContractAddr, "dapp": constant.DappMgrContractAddr, "strategy": constant.ProposalStrategyMgrContractAddr,
	"registry": constant.ServiceRegistryContractAddr, "resolver": constant.ServiceResolverContractAddr,
}

var users = []string{"u1", "u2", "u3", "u4"}

// senders of Ethereum-style transactions: e1, e2 send the ones that are expected to succeed, every transaction that
// is expected to fail inside the EVM (and so consumes its nonce on the executing node only) comes from an account of
// its own, so that the sibling node, which skips failed transactions, stays in step
var ethUsers = []string{"xd", "e1", "e2", "ef0", "ef1", "ef2", "ef3", "ef4", "ef5", "ef6", "ef7", "ef8", "ef9"}
var poor = map[string]string{"p0": "", "p1": "1", "p2": "20999", "p3": "21000", "p4": "21001", "p5": "230000", "p6": "209999"}

type runner struct {
	ethContract  *types.Address // the contract created by the last eth "create" transaction of the plan
	killContract *types.Address // the self-destructing / logging contract
	xvmContract  *types.Address // the WASM contract deployed by the last successful xvmdeploy transaction
	a, b         *core.Node
	pair         *lockstep.Pair
	plan         *Plan
	out          *os.File
	seq          int
}

func (r *runner) emit(m map[string]interface{}) {
	r.seq++
	m["seq"] = r.seq
	b, err := json.Marshal(m)
	if err != nil {
		panic(err)
	}
	r.out.Write(append(b, '\n'))
	r.out.Sync()
}

func (r *runner) addr(n *core.Node, name string, from *core.Account) *types.Address {
	switch {
	case name == "nil":
		return nil // the To field is missing (api/grpc refuses it; a block proposed by another node is not checked there)
	case name == "self":
		return from.Addr
	case strings.HasPrefix(name, "admin"):
		var i int
		fmt.Sscanf(name, "admin%d", &i)
		return n.Admins()[i%len(n.Admins())].Addr
	case strings.HasPrefix(name, "contract:"):
		return contractsByName[name[9:]].Address()
	case strings.HasPrefix(name, "0x"):
		return types.NewAddressByStr(name)
	}
	return n.Account(name).Addr
}

func (r *runner) acct(n *core.Node, name string) *core.Account {
	if strings.HasPrefix(name, "admin") {
		var i int
		fmt.Sscanf(name, "admin%d", &i)
		return n.Admins()[i%len(n.Admins())]
	}
	return n.Account(name)
}

func mkArgs(as []Arg) []*pb.Arg {
	var out []*pb.Arg
	for _, a := range as {
		var t pb.Arg_Type
		switch a.T {
		case "bytes":
			t = pb.Arg_Bytes
		case "u64":
			t = pb.Arg_U64
		case "i32":
			t = pb.Arg_I32
		case "i64":
			t = pb.Arg_I64
		case "bool":
			t = pb.Arg_Bool
		case "f64":
			t = pb.Arg_F64
		default:
			t = pb.Arg_String
		}
		v := []byte(a.V)
		if strings.HasPrefix(a.V, "hex:") {
			v, _ = hex.DecodeString(a.V[4:])
		} else if strings.HasPrefix(a.V, "rep:") { // rep:<n>:<s> = s repeated n times
			var n int
			var s string
			fmt.Sscanf(a.V, "rep:%d:%s", &n, &s)
			v = []byte(strings.Repeat(s, n))
		}
		out = append(out, &pb.Arg{Type: t, Value: v})
	}
	return out
}

func (r *runner) build(n *core.Node, t Tx) pb.Transaction {
	from := r.acct(n, t.From)
	for i := range t.Args {
		if t.Args[i].V == "@from" { // the caller's own address as an argument
			as := append([]Arg{}, t.Args...)
			as[i].V = from.Addr.String()
			t.Args = as
		}
	}
	var tx pb.Transaction
	switch t.K {
	case "transfer":
		tx = n.TransferTx(from, r.addr(n, t.To, from), t.Amt)
		// as it arrives from the wire: a block made by another node is decoded, sender and receiver are separate objects even
		// when they name the same account
		if b, err := (&pb.Transactions{Transactions: []pb.Transaction{tx}}).Marshal(); err == nil {
			dec := &pb.Transactions{}
			if dec.Unmarshal(b) == nil && len(dec.Transactions) == 1 && dec.Transactions[0].GetHash().String() == tx.GetHash().String() {
				tx = dec.Transactions[0]
			}
		}
	case "invoke":
		if t.To == "nil" { // structure-level mutation: the callee field is missing
			tx = n.RawTx(from, nil, core.InvokePayload(t.M, mkArgs(t.Args)...), nil)
		} else {
			tx = n.InvokeTx(from, contractsByName[t.C].Address(), t.M, mkArgs(t.Args)...)
		}
	case "xvm":
		td := &pb.TransactionData{Type: pb.TransactionData_INVOKE, VmType: pb.TransactionData_XVM, Payload: core.InvokePayload(t.M, mkArgs(t.Args)...)}
		b, _ := td.Marshal()
		tx = n.RawTx(from, r.addr(n, t.To, from), b, nil)
	case "xvmdeploy": // deployment of a real WASM contract (the project's own test contract)
		code, err := ioutil.ReadFile("/repo/pkg/vm/wasm/testdata/optimized.wasm")
		if err != nil {
			panic(err)
		}
		if t.Pay == "truncated" {
			code = code[:len(code)/2]
		}
		td := &pb.TransactionData{Type: pb.TransactionData_INVOKE, VmType: pb.TransactionData_XVM, Payload: code}
		b, _ := td.Marshal()
		tx = n.RawTx(from, types.NewAddress(make([]byte, 20)), b, nil)
	case "xvmcall": // call of the deployed WASM contract
		to := r.xvmContract
		if to == nil {
			to = n.Account("noxvm").Addr
		}
		td := &pb.TransactionData{Type: pb.TransactionData_INVOKE, VmType: pb.TransactionData_XVM, Payload: core.InvokePayloadBytes(t.M, mkArgs(t.Args)...)}
		b, _ := td.Marshal()
		tx = n.RawTx(from, to, b, nil)
	case "eth":
		var to *types.Address
		data, _ := hex.DecodeString(t.Pay)
		switch t.To {
		case "create":
			if t.Pay == "store" {
				data = core.StoreContractInit
			}
			if t.Pay == "kill" {
				data = core.KillContractInit
			}
		case "createloop": // creation whose init code never terminates; not remembered as a contract
			to = nil
		case "contract":
			to = r.ethContract
			if to == nil {
				to = n.Account("nocontract").Addr
			}
		case "killcontract":
			to = r.killContract
			if to == nil {
				to = n.Account("nocontract2").Addr
			}
		default:
			to = r.addr(n, t.To, from)
		}
		val, ok := new(big.Int).SetString(t.Amt, 10)
		if !ok {
			val = new(big.Int)
		}
		nonce := n.NextNonce(from.Addr)
		if t.To == "create" {
			a := types.NewAddress(ethcrypto.CreateAddress(common.BytesToAddress(from.Addr.Bytes()), nonce).Bytes())
			if t.Pay == "kill" {
				r.killContract = a
			} else {
				r.ethContract = a
			}
		}
		price := int64(1)
		if t.Free {
			price = 0
		}
		return n.EthTxNonce(from, to, val, t.Gas, price, data, uint64(int(nonce)+t.NonceOff))
	default: // raw
		pay, _ := hex.DecodeString(t.Pay)
		tx = n.RawTx(from, r.addr(n, t.To, from), pay, nil)
	}
	if t.BadSig {
		bx := tx.(*pb.BxhTransaction)
		sig := append([]byte{}, bx.Signature...)
		sig[len(sig)/2] ^= 0x55
		bx.Signature = sig
		bx.TransactionHash = bx.Hash()
	}
	return tx
}

func (r *runner) setup(n *core.Node) {
	for _, u := range users {
		if _, err := n.Fund(n.Account(u).Addr, "3000000"); err != nil {
			panic(err)
		}
	}
	for _, u := range ethUsers {
		if _, err := n.Fund(n.Account(u).Addr, "3000000"); err != nil {
			panic(err)
		}
	}
	names := []string{}
	for p := range poor {
		names = append(names, p)
	}
	sort.Strings(names)
	for _, p := range names {
		if poor[p] != "" {
			if _, err := n.Fund(n.Account(p).Addr, poor[p]); err != nil {
				panic(err)
			}
		}
	}
}

func (r *runner) run(dir string) {
	p := r.plan
	opt := core.Options{NumAdmins: p.NAdmins, Balance: "100000000", GasPrice: 1, EnableAudit: p.Audit, Seed: p.Seed, Quiet: true}
	pair, err := lockstep.New(opt, dir)
	if err != nil {
		panic(err)
	}
	r.pair, r.a, r.b = pair, pair.A, pair.B
	defer pair.Close()
	r.setup(r.a)
	r.setup(r.b)
	admins := []string{}
	for _, ad := range r.a.Admins() {
		admins = append(admins, ad.Addr.String())
	}
	known := map[string]string{}
	for _, u := range users {
		known[u] = r.a.Account(u).Addr.String()
	}
	for pn := range poor {
		known[pn] = r.a.Account(pn).Addr.String()
	}
	bal0, _, _ := lockstep.Balances(r.a)
	r.emit(map[string]interface{}{"ev": "Init", "name": p.Name, "admins": admins, "nadmins": len(admins), "accounts": known,
		"h": int(r.a.Height()), "bal": bal0, "setupEqual": pair.SetupEqual()})
	var pastViews []Tx
	for bi, blk := range p.Blocks {
		var txs []pb.Transaction
		descs := []map[string]interface{}{}
		for _, t := range blk {
			tx := r.build(r.a, t)
			txs = append(txs, tx)
			from := r.acct(r.a, t.From)
			d := map[string]interface{}{"k": t.K, "from": from.Addr.String(), "cls": t.Cls, "badsig": t.BadSig, "m": t.M, "amtKind": "none", "amtNum": 0}
			if t.K == "transfer" {
				d["to"] = r.addr(r.a, t.To, from).String()
				d["amt"] = t.Amt
				// which number the amount string denotes (the executor parses base-10, anything else counts as 0)
				if v, ok := new(big.Int).SetString(t.Amt, 10); !ok {
					d["amtKind"] = "nan"
				} else if v.Sign() < 0 {
					d["amtKind"] = "neg"
				} else if !v.IsInt64() || v.Int64() >= 1<<31 {
					d["amtKind"] = "big"
				} else {
					d["amtKind"] = "num"
					d["amtNum"] = v.Int64()
				}
			} else if t.K == "eth" {
				d["to"] = "nil"
				if tx.GetTo() != nil {
					d["to"] = tx.GetTo().String()
				}
				d["amt"] = t.Amt
				d["m"] = t.Cls
			} else {
				d["to"] = "nil"
				if tx.GetTo() != nil {
					d["to"] = tx.GetTo().String()
				}
				d["amt"] = ""
			}
			descs = append(descs, d)
		}
		r.emit(map[string]interface{}{"ev": "Submit", "h": int(r.a.Height() + 1), "n": len(txs)})
		ev, res := pair.Exec(txs, descs, 0)
		r.emit(ev)
		if res == nil {
			return
		}
		for i, t := range blk {
			if t.K == "xvmdeploy" && i < len(res.Receipts) && res.Receipts[i].Status == pb.Receipt_SUCCESS && len(res.Receipts[i].Ret) == 20 {
				r.xvmContract = types.NewAddress(res.Receipts[i].Ret)
			}
		}
		for _, t := range blk {
			if t.K == "eth" { // the EVM checks nonces: a rejected message consumes none
				a := r.acct(r.a, t.From).Addr
				r.a.SetNonce(a, r.a.LedgerNonce(a))
			}
		}
		if vs, ok := p.Views[bi]; ok {
			d0 := r.a.Dump()
			m0 := r.a.Ledger.GetChainMeta()
			var vtx []pb.Transaction
			for _, t := range vs {
				vtx = append(vtx, r.build(r.a, t))
				r.a.SetNonce(r.acct(r.a, t.From).Addr, r.a.LedgerNonce(r.acct(r.a, t.From).Addr)) // views do not consume nonces
			}
			rcs := r.a.View(vtx)
			m1 := r.a.Ledger.GetChainMeta()
			r.emit(map[string]interface{}{"ev": "View", "n": len(vtx), "nrec": len(rcs), "changed": lockstep.DiffKeys(d0, r.a.Dump()),
				"metaSame": m0.Height == m1.Height && m0.BlockHash.String() == m1.BlockHash.String() && m0.InterchainTxCount == m1.InterchainTxCount})
		}
		// what earlier views left behind: the view executor that ran them and a view executor made for the occasion must give
		// the same answers to the same read-only calls, whatever was committed in between
		if len(pastViews) > 0 {
			var vtx []pb.Transaction
			for _, t := range pastViews {
				vtx = append(vtx, r.build(r.a, t))
				r.a.SetNonce(r.acct(r.a, t.From).Addr, r.a.LedgerNonce(r.acct(r.a, t.From).Addr))
			}
			warm := r.a.View(vtx)
			fresh, err := r.a.FreshView(vtx)
			if err == nil {
				diff := []int{}
				for i := range vtx {
					if i >= len(warm) || i >= len(fresh) || warm[i].Status != fresh[i].Status || !bytes.Equal(warm[i].Ret, fresh[i].Ret) {
						diff = append(diff, i)
					}
				}
				r.emit(map[string]interface{}{"ev": "ViewProbe", "n": len(vtx), "same": len(diff) == 0, "diff": diff})
			}
		}
		if vs, ok := p.Views[bi]; ok {
			pastViews = append(pastViews, vs...)
			if len(pastViews) > 8 {
				pastViews = pastViews[len(pastViews)-8:]
			}
		}
		if p.Restart[bi] {
			pastViews = nil
			if err := r.a.Restart(); err != nil {
				return // infrastructure (in-process restart), not an observation about bitxhub
			}
			r.emit(map[string]interface{}{"ev": "Restart", "h": int(r.a.Height())})
		}
	}
}

// ---------------------------------------------------------------------------------------------
// generators
// ---------------------------------------------------------------------------------------------
var amounts = []string{"0", "1", "5", "1000", "2999999", "3000000", "3000001", "9223372036854775808", "10000000000000000000000000000000000000000", "abc", "", "-5", "1e3", "00012"}

type methodInfo = lockstep.MethodInfo

func surface() []methodInfo { return lockstep.Surface() }

func argFor(rng *rand.Rand, typ string, mode int) Arg {
	strs := []string{"", "x", "1356:chainA:svc1", "1356:chainA:svc1-1356:chainB:svc2-1", "0x0000000000000000000000000000000000000001", "0xabcd", "0x00", "approve", "chainA", "::", "a:b", "{}", "[]", "rep:70000:ab", "%s%n", "\u0000"}
	switch typ {
	case "string":
		return Arg{"string", strs[rng.Intn(len(strs))]}
	case "[]uint8":
		return Arg{"bytes", []string{"", "hex:00", "hex:0a0b0c", "x", "rep:40000:zz", "{\"a\":1}"}[rng.Intn(6)]}
	case "uint64":
		return Arg{"u64", []string{"0", "1", "18446744073709551615", "10"}[rng.Intn(4)]}
	case "int32":
		return Arg{"i32", []string{"0", "1", "-1", "2147483647", "3"}[rng.Intn(5)]}
	case "int64":
		return Arg{"i64", []string{"0", "-1", "9223372036854775807"}[rng.Intn(3)]}
	case "bool":
		return Arg{"bool", []string{"true", "false"}[rng.Intn(2)]}
	case "float64":
		return Arg{"f64", []string{"0", "1.5", "-3", "1e308", "NaN"}[rng.Intn(5)]}
	}
	return Arg{"string", "x"}
}

func genInvoke(rng *rand.Rand, surf []methodInfo, from string) Tx {
	mi := surf[rng.Intn(len(surf))]
	var args []Arg
	cls := "exact"
	switch mode := rng.Intn(10); {
	case mode < 5: // exact types
		for _, t := range mi.In {
			args = append(args, argFor(rng, t, 0))
		}
	case mode < 6: // too few
		cls = "few"
		for i, t := range mi.In {
			if i < len(mi.In)-1 {
				args = append(args, argFor(rng, t, 0))
			}
		}
	case mode < 7: // too many
		cls = "many"
		for _, t := range mi.In {
			args = append(args, argFor(rng, t, 0))
		}
		args = append(args, Arg{"string", "extra"})
	case mode < 9: // one position wrong-typed
		cls = "wrongtype"
		w := 0
		if len(mi.In) > 0 {
			w = rng.Intn(len(mi.In))
		}
		for i, t := range mi.In {
			if i == w {
				args = append(args, argFor(rng, []string{"string", "uint64", "[]uint8", "bool", "float64", "int32"}[rng.Intn(6)], 0))
			} else {
				args = append(args, argFor(rng, t, 0))
			}
		}
	default: // malformed numeric encodings
		cls = "badnum"
		for _, t := range mi.In {
			a := argFor(rng, t, 0)
			if a.T != "string" && a.T != "bytes" {
				a.V = []string{"", "x", "99999999999999999999999", "-"}[rng.Intn(4)]
			}
			args = append(args, a)
		}
	}
	return Tx{K: "invoke", From: from, C: mi.C, M: mi.M, Args: args, Cls: "invoke-" + cls}
}

// genTx: one random transaction; now and then its To field is left out altogether (the API refuses that, a block
// made by another node need not)
func genTx(rng *rand.Rand, surf []methodInfo, focus string) Tx {
	t := genTx0(rng, surf, focus)
	if (t.K == "invoke" || t.K == "raw" || t.K == "xvm") && rng.Intn(25) == 0 {
		t.To = "nil"
		t.Cls += "-nilto"
	}
	return t
}

func genTx0(rng *rand.Rand, surf []methodInfo, focus string) Tx {
	senders := append(append([]string{}, users...), "p0", "p1", "p2", "p3", "p4", "p5", "p6")
	from := senders[rng.Intn(len(senders))]
	if rng.Intn(3) > 0 {
		from = users[rng.Intn(len(users))]
	}
	c := rng.Intn(20)
	if focus == "value" {
		c = rng.Intn(9)
	}
	switch {
	case c < 8:
		to := []string{"u1", "u2", "u3", "fresh1", "fresh2", "self", "admin0", "admin1", "contract:store", "contract:interchain", "p1", "p3"}[rng.Intn(12)]
		return Tx{K: "transfer", From: from, To: to, Amt: amounts[rng.Intn(len(amounts))], Cls: "transfer", BadSig: rng.Intn(12) == 0}
	case c < 9:
		return Tx{K: "invoke", From: from, C: "store", M: "Set", Args: []Arg{{"string", "k" + fmt.Sprint(rng.Intn(3))}, {"string", "v"}}, Cls: "store-set"}
	case c < 15:
		return genInvoke(rng, surf, from)
	case c < 17:
		pays := []string{"", "00", "ff", "0a", "0801", "08011203616263", "0802", "080210011a00", "0802100212050a03466f6f", "08031001", "ffffffffffffffffffff01", "0802100112"}
		return Tx{K: "raw", From: from, To: []string{"contract:store", "contract:interchain", "u2", "0x0000000000000000000000000000000000000000"}[rng.Intn(4)], Pay: pays[rng.Intn(len(pays))], Cls: "raw", BadSig: rng.Intn(10) == 0}
	case c < 18 && rng.Intn(2) == 0:
		switch rng.Intn(6) {
		case 0:
			// the contract address depends on the deployer's nonce: good deployments come from an account that sends
			// nothing else (the sibling node skips failed transactions, so other senders' nonces may differ there)
			if rng.Intn(3) == 0 {
				return Tx{K: "xvmdeploy", From: from, Cls: "xvm-deploy-truncated", Pay: "truncated"}
			}
			return Tx{K: "xvmdeploy", From: "xd", Cls: "xvm-deploy"}
		case 1, 2:
			return Tx{K: "xvmcall", From: from, M: "state_test_set", Args: []Arg{{"bytes", []string{"alice", "bob"}[rng.Intn(2)]}, {"bytes", fmt.Sprint(rng.Intn(500))}}, Cls: "xvm-call-set"}
		case 3:
			return Tx{K: "xvmcall", From: from, M: "state_test_get", Args: []Arg{{"bytes", "alice"}}, Cls: "xvm-call-get"}
		case 4:
			return Tx{K: "xvmcall", From: from, M: "no_such_export", Args: []Arg{{"bytes", "x"}}, Cls: "xvm-call-unknown"}
		default:
			return Tx{K: "xvmcall", From: from, M: "state_test_set", Args: []Arg{{"string", "alice"}}, Cls: "xvm-call-badargs"}
		}
	case c < 18:
		return Tx{K: "xvm", From: from, To: []string{"u2", "contract:store", "fresh3", "0x0000000000000000000000000000000000000000"}[rng.Intn(4)], M: []string{"", "set", "deploy"}[rng.Intn(3)], Args: []Arg{{"bytes", []string{"", "hex:0061736d01000000", "hex:00", "rep:2000:ab"}[rng.Intn(4)]}}, Cls: "xvm"}
	default:
		mi := []string{"Set", "Add", "AddObject", "Delete", "PostEvent", "PostInterchainEvent", "CrossInvoke", "SetObject", "Get", "Has", "Query", "Caller", "Logger", "CurrentCaller", "GetTxHash", "ValidationEngine"}[rng.Intn(16)]
		cn := []string{"interchain", "store", "txmgr", "governance", "role", "service"}[rng.Intn(6)]
		args := []Arg{{"string", []string{"bitxhub-id", "k", "x"}[rng.Intn(3)]}, {"bytes", "x"}}
		if rng.Intn(3) == 0 {
			args = args[:1]
		}
		return Tx{K: "invoke", From: from, C: cn, M: mi, Args: args, Cls: "invoke-stub"}
	}
}

// Ethereum-style transactions: plain transfers, contract creation, calls that store, revert or run out of gas, and
// messages the EVM rejects before or after it bought the gas (nonce, funds, intrinsic gas, value)
func genEth(rng *rand.Rand, st *ethState) Tx {
	ok := []string{"e1", "e2"}[rng.Intn(2)]
	fresh := func() string {
		if st.nfail < 10 {
			st.nfail++
			return fmt.Sprintf("ef%d", st.nfail-1)
		}
		return ""
	}
	word := func(first byte) string {
		b := make([]byte, 32)
		b[0] = first
		b[31] = byte(1 + rng.Intn(200))
		return hex.EncodeToString(b)
	}
	switch c := rng.Intn(14); {
	case c < 3:
		return Tx{K: "eth", From: ok, To: []string{"u1", "fresh4", "e2", "self"}[rng.Intn(4)], Amt: []string{"0", "1", "1000"}[rng.Intn(3)], Gas: 21000, Cls: "eth-transfer"}
	case c < 5 && !st.created:
		st.created = true
		return Tx{K: "eth", From: ok, To: "create", Pay: "store", Gas: 200000, Cls: "eth-create"}
	case c < 7 && st.created:
		return Tx{K: "eth", From: ok, To: "contract", Pay: word(0x01), Amt: []string{"0", "0", "3"}[rng.Intn(3)], Gas: 100000, Cls: "eth-call-store"}
	case c < 8 && st.created:
		if f := fresh(); f != "" {
			return Tx{K: "eth", From: f, To: "contract", Pay: word(0xff), Amt: []string{"0", "5", "12345"}[rng.Intn(3)], Gas: 100000, Cls: "eth-call-revert"}
		}
	case c < 9 && st.created:
		if f := fresh(); f != "" {
			return Tx{K: "eth", From: f, To: "contract", Pay: word(0x02), Amt: []string{"0", "7"}[rng.Intn(2)], Gas: 22000, Cls: "eth-call-outofgas"}
		}
	case c < 10 && rng.Intn(2) == 0: // a contract that logs, and self-destructs in favour of its caller (with the value it was sent before)
		if !st.kill {
			st.kill = true
			return Tx{K: "eth", From: ok, To: "create", Pay: "kill", Amt: []string{"0", "9"}[rng.Intn(2)], Gas: 200000, Cls: "eth-create-kill"}
		}
		first := []byte{0x01, 0x01, 0xaa}[rng.Intn(3)]
		cls := "eth-call-log"
		if first == 0xaa {
			cls = "eth-call-selfdestruct"
		}
		return Tx{K: "eth", From: ok, To: "killcontract", Pay: word(first), Amt: []string{"0", "4"}[rng.Intn(2)], Gas: 100000, Cls: cls}
	case c < 10: // rejected after the gas was bought: gas limit below the intrinsic gas
		return Tx{K: "eth", From: ok, To: "u2", Amt: "1", Gas: 20000, Cls: "eth-intrinsic-gas"}
	case c < 11: // rejected after the gas was bought: the value is no longer covered
		return Tx{K: "eth", From: ok, To: "u2", Amt: "2999000", Gas: 21000, Cls: "eth-value-not-covered"}
	case c < 12:
		return Tx{K: "eth", From: ok, To: "u2", Amt: "1", Gas: 21000, NonceOff: []int{5, -1}[rng.Intn(2)], Cls: "eth-bad-nonce"}
	case c < 13 && rng.Intn(2) == 0: // cannot pay for the gas at all
		return Tx{K: "eth", From: "p1", To: "u2", Amt: "0", Gas: 21000, Cls: "eth-no-funds"}
	case c < 13: // free gas, an allowance far above the block gas limit, init code that loops forever (JUMPDEST PUSH1 0 JUMP)
		if f := fresh(); f != "" {
			return Tx{K: "eth", From: f, To: "createloop", Pay: "5b600056", Gas: 1 << 62, Free: true, Cls: "eth-loop-free"}
		}
	}
	return Tx{K: "eth", From: ok, To: "u3", Amt: "7", Gas: 30000, Cls: "eth-transfer"}
}

type ethState struct {
	kill    bool
	created bool
	nfail   int
}

func genPlan(rng *rand.Rand, surf []methodInfo, name string, focus string) *Plan {
	p := &Plan{Name: name, NAdmins: []int{4, 9, 3}[rng.Intn(3)], Audit: rng.Intn(3) == 0, Seed: 1 + rng.Int63n(3), Views: map[int][]Tx{}, Restart: map[int]bool{}}
	nb := 4 + rng.Intn(8)
	es := &ethState{}
	withEth := focus == "eth" || rng.Intn(3) == 0
	if rng.Intn(3) == 0 { // a real WASM contract is deployed first, so that the XVM calls of the plan have a target
		p.Blocks = append(p.Blocks, []Tx{{K: "xvmdeploy", From: "xd", Cls: "xvm-deploy"}})
	}
	for b := 0; b < nb; b++ {
		k := 1 + rng.Intn(5)
		if rng.Intn(3) == 0 {
			k = 1
		}
		if rng.Intn(12) == 0 {
			k = 0
		}
		var blk []Tx
		for i := 0; i < k; i++ {
			if withEth && (focus == "eth" && rng.Intn(4) > 0 || rng.Intn(3) == 0) {
				blk = append(blk, genEth(rng, es))
			} else {
				blk = append(blk, genTx(rng, surf, focus))
			}
		}
		p.Blocks = append(p.Blocks, blk)
		if rng.Intn(4) == 0 {
			var vs []Tx
			for i := 0; i < 1+rng.Intn(3); i++ {
				vs = append(vs, genTx(rng, surf, focus))
			}
			p.Views[b] = vs
		}
		if rng.Intn(10) == 0 {
			p.Restart[b] = true
		}
		if b == 1 && rng.Intn(3) == 0 {
			// two views of one account: a transfer it can afford, then a call that fails; the next block moves most of the account's
			// balance away; the plan's later view probes repeat both questions on the same and on a fresh view executor (what the
			// failed view left behind must not keep the transfer affordable)
			p.Views[b] = append(p.Views[b], Tx{K: "transfer", From: "u4", To: "u2", Amt: "1500000", Cls: "view-transfer"},
				Tx{K: "invoke", From: "u4", C: "appchain", M: "GetAppchain", Args: []Arg{{"string", "chainZ"}}, Cls: "view-missing"})
			p.Blocks = append(p.Blocks, []Tx{{K: "transfer", From: "u4", To: "u2", Amt: "2000000", Cls: "transfer"}})
			nb++
			b++
		}
	}
	return p
}

// root pairs (C10): two identical nodes execute the same transfers in two orders (or with one perturbed
// transaction); the tx / receipt / state roots of the two blocks are logged side by side
func (r *runner) rootPairs(dir string, seed int64, rounds int) {
	opt := core.Options{NumAdmins: 4, Balance: "100000000", GasPrice: 1, Seed: 1, Quiet: true}
	pair, err := lockstep.New(opt, dir)
	if err != nil {
		panic(err)
	}
	defer pair.Close()
	r.a, r.b = pair.A, pair.B
	r.setup(r.a)
	r.setup(r.b)
	rng := rand.New(rand.NewSource(seed))
	r.emit(map[string]interface{}{"ev": "Init", "name": r.plan.Name, "admins": []string{}, "nadmins": 4, "accounts": map[string]string{"u1": ""}, "h": int(r.a.Height()),
		"bal": map[string]int{"x": 0}, "setupEqual": pair.SetupEqual()})
	for round := 0; round < rounds; round++ {
		k := 2 + rng.Intn(3) // distinct senders and receivers: the transfers commute
		big := rng.Intn(3) == 0
		if big {
			// a long transaction list (several transfers per sender: a permutation breaks their nonce order, the roots still
			// commit to what was executed): positions far from the head of the list are covered like the first ones
			k = 65 + rng.Intn(70)
		}
		var txs []pb.Transaction
		for i := 0; i < k; i++ {
			from := r.a.Account(users[i%len(users)])
			to := r.a.Account(fmt.Sprintf("recv-%d-%d", round, i)).Addr
			txs = append(txs, r.a.TransferTx(from, to, fmt.Sprint(1+rng.Intn(50))))
		}
		permuted := append([]pb.Transaction{}, txs...)
		mode := []string{"same", "perm", "perm"}[rng.Intn(3)]
		if round == rounds-1 {
			mode = "perturb"
		}
		switch mode {
		case "perm":
			if !big {
				rng.Shuffle(len(permuted), func(i, j int) { permuted[i], permuted[j] = permuted[j], permuted[i] })
			} else {
				// another interleaving of the senders' queues: every sender's own transactions keep their order (the nonce a sender
				// is left with is the one of its last transaction: transfers of ONE sender do not commute, those of different ones do)
				queues := make([][]pb.Transaction, len(users))
				for i, t := range txs {
					queues[i%len(users)] = append(queues[i%len(users)], t)
				}
				permuted = permuted[:0]
				for len(permuted) < k {
					q := rng.Intn(len(users))
					if len(queues[q]) > 0 {
						permuted = append(permuted, queues[q][0])
						queues[q] = queues[q][1:]
					}
				}
			}
		case "perturb":
			i := rng.Intn(k)
			if big && rng.Intn(4) > 0 {
				i = k - 1 - rng.Intn(k-64)
			}
			from := r.a.Account(users[i%len(users)])
			r.a.SetNonce(from.Addr, permuted[i].GetNonce())
			permuted[i] = r.a.TransferTx(from, permuted[i].GetTo(), "77")
		}
		ra, e1 := r.a.ExecBlock(txs, make([]bool, k), 0)
		rb, e2 := r.b.ExecBlock(permuted, make([]bool, k), 0)
		if e1 != nil || e2 != nil {
			r.emit(map[string]interface{}{"ev": "ExecError", "h": int(r.a.Height()), "cls": "error", "msg": fmt.Sprint(e1, e2), "height": int(r.a.Height())})
			return
		}
		hs := func(t []pb.Transaction) []string {
			out := []string{}
			for _, x := range t {
				out = append(out, x.GetHash().String())
			}
			return out
		}
		okAll := true
		for i := range ra.Receipts {
			if ra.Receipts[i].Status != pb.Receipt_SUCCESS || rb.Receipts[i].Status != pb.Receipt_SUCCESS {
				okAll = false
			}
		}
		ha, hb := ra.Block.BlockHeader, rb.Block.BlockHeader
		r.emit(map[string]interface{}{"ev": "RootPair", "mode": mode, "hashesA": hs(txs), "hashesB": hs(permuted), "allOK": okAll,
			"txA": ha.TxRoot.String(), "txB": hb.TxRoot.String(), "rcA": ha.ReceiptRoot.String(), "rcB": hb.ReceiptRoot.String(),
			"stA": ha.StateRoot.String(), "stB": hb.StateRoot.String()})
		if ha.StateRoot.String() != hb.StateRoot.String() {
			// the two nodes diverged (expected after a perturbation): start the next round from fresh nodes
			return
		}
	}
}

func main() {
	plansFile := flag.String("plans", "", "")
	outDir := flag.String("out", ".", "")
	seed := flag.Int64("seed", 1, "")
	n := flag.Int("n", 20, "")
	start := flag.Int("start", 0, "first plan index to run (resume after a crash)")
	focus := flag.String("focus", "", "value = transfer/fee heavy plans")
	surfOnly := flag.Bool("surface", false, "print the reflected contract surface and exit")
	flag.Parse()
	if *surfOnly {
		b, _ := json.Marshal(surface())
		fmt.Println(string(b))
		return
	}
	var plans []*Plan
	if *plansFile != "" {
		b, err := ioutil.ReadFile(*plansFile)
		if err != nil {
			panic(err)
		}
		if err := json.Unmarshal(b, &plans); err != nil {
			panic(err)
		}
	} else {
		surf := surface()
		rng := rand.New(rand.NewSource(*seed))
		for i := 0; i < *n; i++ {
			if *focus == "roots" {
				plans = append(plans, &Plan{Name: fmt.Sprintf("roots-%d-%d", *seed, i), Seed: rng.Int63n(1 << 30), RootPairs: 12})
			} else {
				plans = append(plans, genPlan(rng, surf, fmt.Sprintf("rand-%d-%d", *seed, i), *focus))
			}
		}
	}
	os.MkdirAll(*outDir, 0755)
	scratch, err := ioutil.TempDir(os.Getenv("TMPDIR"), "execadp-")
	if err != nil {
		panic(err)
	}
	defer os.RemoveAll(scratch)
	for i := *start; i < len(plans); i++ {
		p := plans[i]
		pb, _ := json.Marshal(p)
		ioutil.WriteFile(fmt.Sprintf("%s/plan-%05d.json", *outDir, i), pb, 0644)
		f, err := os.Create(fmt.Sprintf("%s/trace-%05d.ndjson", *outDir, i))
		if err != nil {
			panic(err)
		}
		r := &runner{plan: p, out: f}
		dir := fmt.Sprintf("%s/n%d", scratch, i)
		if p.RootPairs > 0 {
			r.rootPairs(dir, p.Seed, p.RootPairs)
		} else {
			r.run(dir)
		}
		f.Close()
		os.RemoveAll(dir)
		fmt.Printf("done %d\n", i)
	}
}
