package main

import (
	"fmt"
	"math/rand"
	"strings"
)

// Scenario generation (inputs only; no expectations). Every class is a family of scripts whose free choices
// (how many blocks, how far the executor lags, which reports arrive and in which order, where the crash is,
// which faults) are drawn from the seed. The crash/executor-lag matrix of the single raft node follows the
// model's actions: Deliver^k ; Execute^e ; Report(subset, order) ; Crash ; Restart.

type gen struct {
	r    *rand.Rand
	next int
}

func (g *gen) txs(k int) []int {
	out := []int{}
	for i := 0; i < k; i++ {
		g.next++
		out = append(out, g.next)
	}
	return out
}

func seqInts(a, b int) []int {
	out := []int{}
	for i := a; i <= b; i++ {
		out = append(out, i)
	}
	return out
}

func (g *gen) shuffled(xs []int) []int {
	ys := append([]int{}, xs...)
	g.r.Shuffle(len(ys), func(i, j int) { ys[i], ys[j] = ys[j], ys[i] })
	return ys
}

func (g *gen) subset(xs []int) []int {
	out := []int{}
	for _, x := range xs {
		if g.r.Intn(2) == 0 {
			out = append(out, x)
		}
	}
	return out
}

// reports for executed heights lo..hi: none / all in order / all reversed / random subset in random order / last only
func (g *gen) reportPattern(lo, hi int) []int {
	if hi < lo {
		return nil
	}
	all := seqInts(lo, hi)
	switch g.r.Intn(5) {
	case 0:
		return nil
	case 1:
		return all
	case 2:
		rev := []int{}
		for i := len(all) - 1; i >= 0; i-- {
			rev = append(rev, all[i])
		}
		return rev
	case 3:
		return g.shuffled(g.subset(all))
	default:
		return []int{hi}
	}
}

// one node (solo or single raft node): rounds of deliver / partial execution / partial reports / crash / restart
func (g *gen) single(mode string, name string, seed int64, snap bool, resub bool) *Plan {
	p := &Plan{Name: name, Mode: mode, Seed: seed, BatchSize: 1}
	if g.r.Intn(4) == 0 {
		p.BatchSize = 2
	}
	if snap {
		p.SnapCount = 2 + g.r.Intn(3)
	}
	if (resub || mode == "solo") && g.r.Intn(3) == 0 {
		p.Accounts = 2 // nonce sequences of two accounts instead of one account per transaction
	}
	st := []Step{{Op: "waitLeader"}}
	height := 0 // executed height the script aims at (blocks of one transaction unless batch size 2)
	all := []int{}
	rounds := 1 + g.r.Intn(2)
	for rd := 0; rd < rounds; rd++ {
		// a prefix that is executed and reported normally
		if g.r.Intn(2) == 0 {
			k := 1 + g.r.Intn(2)
			t := g.txs(k * p.BatchSize)
			all = append(all, t...)
			st = append(st, Step{Op: "submit", N: 1, Txs: t}, Step{Op: "waitTx", Txs: t})
			height += k
		}
		st = append(st, Step{Op: "policy", N: 1, Exec: "hold", Report: "hold"})
		k := 1 + g.r.Intn(4)
		if snap {
			k += 2
		}
		t := g.txs(k * p.BatchSize)
		all = append(all, t...)
		st = append(st, Step{Op: "submit", N: 1, Txs: t}, Step{Op: "waitTx", Txs: t})
		e := g.r.Intn(k + 1)
		if e > 0 {
			st = append(st, Step{Op: "exec", N: 1, Count: e})
			if hs := g.reportPattern(height+1, height+e); len(hs) > 0 {
				st = append(st, Step{Op: "report", N: 1, Hs: hs})
			}
		}
		if g.r.Intn(3) == 0 {
			st = append(st, Step{Op: "sleep", Ms: g.r.Intn(30)})
		}
		st = append(st, Step{Op: "crash", N: 1}, Step{Op: "restart", N: 1}, Step{Op: "policy", N: 1, Exec: "auto", Report: "auto"})
		st = append(st, Step{Op: "waitLeader"})
		if mode != "solo" {
			st = append(st, Step{Op: "waitDeliver", H: height + k, Opt: true, Ms: 300})
		}
		if resub || mode == "solo" {
			// clients send again what they have not seen executed
			st = append(st, Step{Op: "submit", N: 1, Txs: append([]int{}, all...), Resub: true})
		}
		height += k
	}
	st = append(st, Step{Op: "settle"})
	p.Steps = st
	return p
}

// single raft node, systematic: k blocks handed over, e executed, report pattern rp, then crash and restart
func (g *gen) raft1Matrix(name string, seed int64, pre, k, e, rp, snapCount int) *Plan {
	p := &Plan{Name: name, Mode: "raft1", Seed: seed, BatchSize: 1, SnapCount: snapCount}
	st := []Step{{Op: "waitLeader"}}
	if pre > 0 {
		t := g.txs(pre)
		st = append(st, Step{Op: "submit", N: 1, Txs: t}, Step{Op: "waitTx", Txs: t})
	}
	st = append(st, Step{Op: "policy", N: 1, Exec: "hold", Report: "hold"})
	t := g.txs(k)
	st = append(st, Step{Op: "submit", N: 1, Txs: t}, Step{Op: "waitTx", Txs: t})
	if e > 0 {
		st = append(st, Step{Op: "exec", N: 1, Count: e})
		var hs []int
		switch rp {
		case 1:
			hs = seqInts(pre+1, pre+e)
		case 2:
			for h := pre + e; h > pre; h-- {
				hs = append(hs, h)
			}
		case 3:
			hs = []int{pre + 1}
		case 4:
			hs = []int{pre + e}
		}
		if len(hs) > 0 {
			st = append(st, Step{Op: "report", N: 1, Hs: hs})
		}
	}
	st = append(st, Step{Op: "crash", N: 1}, Step{Op: "restart", N: 1}, Step{Op: "policy", N: 1, Exec: "auto", Report: "auto"},
		Step{Op: "waitLeader"}, Step{Op: "waitDeliver", H: pre + k, Opt: true}, Step{Op: "settle"})
	p.Steps = st
	return p
}

func (g *gen) cluster(name string, seed int64, class int) *Plan {
	p := &Plan{Name: name, Mode: "raft3", Seed: seed, BatchSize: 1}
	if g.r.Intn(4) == 0 {
		p.BatchSize = 2
	}
	st := []Step{{Op: "waitLeader"}}
	sub := func(k int, to string) []int {
		t := g.txs(k * p.BatchSize)
		st = append(st, Step{Op: "submit", To: to, Txs: t})
		return t
	}
	targets := []string{"leader", "leader", "follower"}
	switch class {
	case 0: // message faults only
		st = append(st, Step{Op: "net", Drop: float64(g.r.Intn(4)) * 0.04, Dup: float64(g.r.Intn(4)) * 0.08, Delay: g.r.Intn(5)})
		var all []int
		for i := 0; i < 2+g.r.Intn(3); i++ {
			all = append(all, sub(1+g.r.Intn(2), targets[g.r.Intn(3)])...)
			if g.r.Intn(2) == 0 {
				st = append(st, Step{Op: "sleep", Ms: g.r.Intn(20)})
			}
		}
		st = append(st, Step{Op: "waitTx", Txs: all, Opt: true})
	case 1: // leader isolated while executors lag behind with their reports
		if g.r.Intn(3) > 0 {
			st = append(st, Step{Op: "policy", Report: "hold"})
			if g.r.Intn(3) == 0 {
				st = append(st, Step{Op: "policy", Exec: "hold"})
			}
		}
		t := sub(1+g.r.Intn(3), "leader")
		st = append(st, Step{Op: "waitTx", Txs: t})
		st = append(st, Step{Op: "isolateLeader"}, Step{Op: "sleep", Ms: 20}, Step{Op: "waitLeader"})
		t2 := sub(1+g.r.Intn(2), "leader")
		st = append(st, Step{Op: "waitTx", Txs: t2, Opt: true}, Step{Op: "heal"})
	case 2: // a follower crashes with a lagging executor and comes back
		st = append(st, Step{Op: "pick", To: "follower"})
		t0 := sub(1+g.r.Intn(2), "leader")
		st = append(st, Step{Op: "waitTx", Txs: t0})
		st = append(st, Step{Op: "policy", N: -1, Exec: "hold", Report: "hold"})
		k := 1 + g.r.Intn(3)
		t := sub(k, targets[g.r.Intn(3)])
		st = append(st, Step{Op: "waitTx", Txs: t})
		if e := g.r.Intn(k + 1); e > 0 {
			st = append(st, Step{Op: "exec", N: -1, Count: e})
			if g.r.Intn(2) == 0 {
				st = append(st, Step{Op: "report", N: -1})
			}
		}
		st = append(st, Step{Op: "crash", N: -1})
		if g.r.Intn(2) == 0 {
			t3 := sub(1+g.r.Intn(2), "leader")
			st = append(st, Step{Op: "waitTx", Txs: t3, Opt: true})
		}
		st = append(st, Step{Op: "restart", N: -1}, Step{Op: "policy", N: -1, Exec: "auto", Report: "auto"})
	case 3: // the leader crashes, possibly with a lagging executor; later it comes back
		st = append(st, Step{Op: "pick", To: "leader"})
		t0 := sub(1+g.r.Intn(2), "leader")
		st = append(st, Step{Op: "waitTx", Txs: t0})
		if g.r.Intn(2) == 0 {
			st = append(st, Step{Op: "policy", N: -1, Exec: "hold", Report: "hold"})
			t := sub(1+g.r.Intn(2), "leader")
			st = append(st, Step{Op: "waitTx", Txs: t})
			if g.r.Intn(2) == 0 {
				st = append(st, Step{Op: "exec", N: -1, Count: 1})
			}
		}
		st = append(st, Step{Op: "crash", N: -1}, Step{Op: "waitLeader"})
		t3 := sub(1+g.r.Intn(2), "leader")
		st = append(st, Step{Op: "waitTx", Txs: t3, Opt: true})
		st = append(st, Step{Op: "restart", N: -1}, Step{Op: "policy", N: -1, Exec: "auto", Report: "auto"})
	case 4: // a follower falls behind the leader's snapshot and has to fetch blocks
		p.SnapCount = 2 + g.r.Intn(2)
		p.BatchSize = 1
		st = append(st, Step{Op: "pick", To: "follower"})
		held := g.r.Intn(2) == 0
		if held {
			// ... and its executor is held meanwhile: the snapshot arrives while blocks handed over earlier are still unexecuted
			st = append(st, Step{Op: "policy", N: -1, Exec: "hold", Report: "hold"})
		}
		t0 := sub(1+g.r.Intn(3), "leader")
		st = append(st, Step{Op: "waitTx", Txs: t0})
		st = append(st, Step{Op: "isolate", N: -1})
		k := 2*p.SnapCount + 3 + g.r.Intn(4)
		for i := 0; i < k; i++ {
			t := sub(1, "leader")
			st = append(st, Step{Op: "waitTx", Txs: t, Opt: true})
		}
		st = append(st, Step{Op: "heal"})
		if held {
			// the executor stays held until the follower has been handed the blocks it missed (settle releases it)
			st = append(st, Step{Op: "waitDeliver", H: len(t0) + k, Opt: true})
		}
	case 5: // the whole cluster stops and starts again
		t0 := sub(1+g.r.Intn(3), targets[g.r.Intn(3)])
		st = append(st, Step{Op: "waitTx", Txs: t0})
		if g.r.Intn(2) == 0 {
			st = append(st, Step{Op: "policy", Exec: "hold", Report: "hold"})
			t := sub(1+g.r.Intn(2), "leader")
			st = append(st, Step{Op: "waitTx", Txs: t})
		}
		st = append(st, Step{Op: "crash", N: 1}, Step{Op: "crash", N: 2}, Step{Op: "crash", N: 3},
			Step{Op: "restartAll"}, Step{Op: "policy", Exec: "auto", Report: "auto"})
	}
	st = append(st, Step{Op: "settle"})
	p.Steps = st
	return p
}

func syncPlans(seed int64, n int) []*Plan {
	r := rand.New(rand.NewSource(seed))
	plans := []*Plan{{Name: fmt.Sprintf("sync-grid-%d", seed), Mode: "sync", Seed: seed, Grid: []int{14, 13}}}
	// seeded sample of larger values (still within the specification's integers) and of huge bases (offsets)
	big := &Plan{Name: fmt.Sprintf("sync-large-%d", seed), Mode: "sync", Seed: seed}
	for i := 0; i < 40*n; i++ {
		f := uint64(1 + r.Intn(50))
		if r.Intn(4) == 0 {
			f = uint64(1 + r.Intn(2000))
		}
		b := uint64(r.Intn(1000000))
		span := uint64(r.Intn(int(f)*12 + 2))
		big.Cases = append(big.Cases, SyncCase{Begin: b, End: b + span, Fetch: f, Run: i%4 == 0})
	}
	bases := []uint64{1 << 31, 1 << 32, 1<<40 + 12345, 1 << 53, 1<<62 + 7, 1<<63 + 1<<40}
	for i := 0; i < 20*n; i++ {
		f := uint64(1 + r.Intn(60))
		base := bases[r.Intn(len(bases))] + uint64(r.Intn(1000))
		b := uint64(r.Intn(200))
		span := uint64(r.Intn(int(f)*10 + 2))
		big.Cases = append(big.Cases, SyncCase{Base: base, Begin: b, End: b + span, Fetch: f, Run: i%4 == 0})
	}
	// a few runs whose first fetches are refused (every refused request is asked again)
	for i := 0; i < 3; i++ {
		f := uint64(2 + r.Intn(5))
		b := uint64(r.Intn(20))
		big.Cases = append(big.Cases, SyncCase{Begin: b, End: b + uint64(r.Intn(15)), Fetch: f, Run: true, Fail: 1 + r.Intn(2)})
	}
	return append(plans, big)
}

func generate(seed int64, n int, modes string) []*Plan {
	var plans []*Plan
	has := func(m string) bool { return strings.Contains(","+modes+",", ","+m+",") }
	if has("sync") {
		plans = append(plans, syncPlans(seed, n)...)
	}
	if has("solo") {
		g := &gen{r: rand.New(rand.NewSource(seed*7919 + 1))}
		for i := 0; i < n; i++ {
			g.next = 0
			plans = append(plans, g.single("solo", fmt.Sprintf("solo-%d-%d", seed, i), seed*1000+int64(i), false, true))
		}
	}
	if has("raft1") {
		g := &gen{r: rand.New(rand.NewSource(seed*7919 + 2))}
		for i := 0; i < n; i++ {
			g.next = 0
			snap := i%3 == 2
			plans = append(plans, g.single("raft1", fmt.Sprintf("raft1-%d-%d", seed, i), seed*1000+int64(i), snap, i%4 == 3))
		}
		// the crash / executor-lag matrix, sampled by seed (n of the 2*4*(k+1)*5 cases), snapshots off and on
		type cs struct{ pre, k, e, rp, snap int }
		var all []cs
		for pre := 0; pre <= 1; pre++ {
			for k := 1; k <= 4; k++ {
				for e := 0; e <= k; e++ {
					for rp := 0; rp <= 4; rp++ {
						if e == 0 && rp > 0 {
							continue
						}
						if e == 1 && rp > 1 {
							continue
						}
						all = append(all, cs{pre, k, e, rp, 0}, cs{pre, k, e, rp, 3})
					}
				}
			}
		}
		g.r.Shuffle(len(all), func(i, j int) { all[i], all[j] = all[j], all[i] })
		m := 2 * n
		if m > len(all) {
			m = len(all)
		}
		for i := 0; i < m; i++ {
			g.next = 0
			c := all[i]
			plans = append(plans, g.raft1Matrix(fmt.Sprintf("raft1m-%d-p%dk%de%dr%ds%d", seed, c.pre, c.k, c.e, c.rp, c.snap), seed*1000+int64(i), c.pre, c.k, c.e, c.rp, c.snap))
		}
	}
	if has("raft3") {
		g := &gen{r: rand.New(rand.NewSource(seed*7919 + 3))}
		for i := 0; i < n; i++ {
			g.next = 0
			plans = append(plans, g.cluster(fmt.Sprintf("raft3-%d-%d-c%d", seed, i, i%6), seed*1000+int64(i), i%6))
		}
	}
	return plans
}
