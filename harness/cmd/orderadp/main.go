// orderadp drives the REAL ordering code of bitxhub - solo.NewNode, etcdraft.NewNode (one node, or three
// nodes in one process wired through an in-memory implementation of the peer-manager interface with scripted
// drop / duplicate / delay / isolate), and syncer.StateSyncer - with abstract plans and records one ndjson
// trace per plan. It contains NO oracle: it instantiates abstract inputs (transactions, fault actions, crash
// and restart points, executor delays), calls the public API, and projects what every node's executor stub
// actually received from Commit() back into the vocabulary of spec/Ordering.tla / spec/SyncRange.tla.
//
// A scenario that cannot be driven to its end (a wait timed out, a node did not stop) is DISCARDED as an
// infrastructure problem (no trace is written, the reason is printed); only received-event facts are logged.
package main

import (
	"encoding/json"
	"flag"
	"fmt"
	"io/ioutil"
	"os"
	"path/filepath"
	"sync"
)

// ---- plans ---------------------------------------------------------------------------------------------

type Step struct {
	Op     string   `json:"op"`
	N      int      `json:"n,omitempty"`      // node
	Txs    []int    `json:"txs,omitempty"`    // submit: transaction ids
	H      int      `json:"h,omitempty"`      // waitDeliver: height
	Nodes  []int    `json:"nodes,omitempty"`  // waitDeliver: nodes (default all up)
	Count  int      `json:"count,omitempty"`  // exec: how many queued blocks
	Hs     []int    `json:"hs,omitempty"`     // report: heights, in this order
	Exec   string   `json:"exec,omitempty"`   // policy: auto | hold
	Report string   `json:"report,omitempty"` // policy: auto | hold
	Ms     int      `json:"ms,omitempty"`     // sleep
	Drop   float64  `json:"drop,omitempty"`   // net
	Dup    float64  `json:"dup,omitempty"`    // net
	Delay  int      `json:"delay,omitempty"`  // net: max extra delay (ms), also reorders
	To     string   `json:"to,omitempty"`     // submit target: "" = node N, "leader", "follower"
	Resub  bool     `json:"resub,omitempty"`  // submit: a re-submission of transactions given before
	Note   string   `json:"note,omitempty"`
	Groups [][]int  `json:"groups,omitempty"` // partition
	Opt    bool     `json:"opt,omitempty"`    // wait steps: a timeout ends the wait instead of discarding the scenario
	_      struct{} `json:"-"`
}

type SyncCase struct {
	Begin uint64 `json:"begin"`
	End   uint64 `json:"end"`
	Fetch uint64 `json:"fetch"`
	Base  uint64 `json:"base,omitempty"` // large values: begin/end are offsets from base
	Run   bool   `json:"run,omitempty"`  // also through SyncCFTBlocks with a recording peer manager
	Fail  int    `json:"fail,omitempty"` // Run: number of fetches that fail before answers start
}

type Plan struct {
	Name      string     `json:"name"`
	Mode      string     `json:"mode"` // sync | solo | raft1 | raft3
	Seed      int64      `json:"seed"`
	BatchSize int        `json:"batchSize,omitempty"`
	SnapCount int        `json:"snapCount,omitempty"`
	TickMs    int        `json:"tickMs,omitempty"`
	Accounts  int        `json:"accounts,omitempty"` // 0: every transaction has its own account (nonce 0)
	Steps     []Step     `json:"steps,omitempty"`
	Grid      []int      `json:"grid,omitempty"` // sync: [maxV, maxF] exhaustive grid
	Cases     []SyncCase `json:"cases,omitempty"`
}

// ---- trace ---------------------------------------------------------------------------------------------

type trace struct {
	mu    sync.Mutex
	lines [][]byte
}

func (t *trace) emit(ev map[string]interface{}) {
	b, err := json.Marshal(ev)
	if err != nil {
		panic(err)
	}
	t.mu.Lock()
	t.lines = append(t.lines, b)
	t.mu.Unlock()
}

func (t *trace) write(path string) error {
	t.mu.Lock()
	defer t.mu.Unlock()
	f, err := os.Create(path)
	if err != nil {
		return err
	}
	for _, l := range t.lines {
		f.Write(l)
		f.Write([]byte("\n"))
	}
	return f.Close()
}

type discard struct{ why string }

func main() {
	out := flag.String("out", "", "output directory")
	plansF := flag.String("plans", "", "re-execute the plans of this file")
	seed := flag.Int64("seed", 1, "seed for generated plans")
	n := flag.Int("n", 10, "number of generated scenarios per class")
	modes := flag.String("modes", "sync,solo,raft1,raft3", "classes to generate")
	retries := flag.Int("retries", 2, "re-runs of a scenario that had to be discarded")
	verbose := flag.Bool("v", false, "node logs to stderr")
	flag.Parse()
	if *out == "" {
		fmt.Fprintln(os.Stderr, "need -out")
		os.Exit(2)
	}
	if err := os.MkdirAll(*out, 0755); err != nil {
		panic(err)
	}
	scratch, err := ioutil.TempDir("", "orderadp-")
	if err != nil {
		panic(err)
	}
	defer os.RemoveAll(scratch)

	var plans []*Plan
	if *plansF != "" {
		b, err := ioutil.ReadFile(*plansF)
		if err != nil {
			panic(err)
		}
		if err := json.Unmarshal(b, &plans); err != nil {
			panic(err)
		}
	} else {
		plans = generate(*seed, *n, *modes)
	}
	discarded := 0
	for i, p := range plans {
		var tr *trace
		var why string
		for attempt := 0; attempt <= *retries; attempt++ {
			dir := filepath.Join(scratch, fmt.Sprintf("s%05d-%d", i, attempt))
			os.MkdirAll(dir, 0755)
			tr, why = runPlan(p, dir, *verbose)
			os.RemoveAll(dir)
			if tr != nil {
				break
			}
			fmt.Printf("DISCARD-ATTEMPT %s: %s\n", p.Name, why)
		}
		pb, _ := json.Marshal(p)
		if err := ioutil.WriteFile(filepath.Join(*out, fmt.Sprintf("plan-%05d.json", i)), pb, 0644); err != nil {
			panic(err)
		}
		if tr == nil {
			discarded++
			fmt.Printf("DISCARDED %s: %s\n", p.Name, why)
			os.Remove(filepath.Join(*out, fmt.Sprintf("plan-%05d.json", i)))
			continue
		}
		if err := tr.write(filepath.Join(*out, fmt.Sprintf("trace-%05d.ndjson", i))); err != nil {
			panic(err)
		}
	}
	fmt.Printf("ORDERADP plans=%d discarded=%d\n", len(plans), discarded)
}

func runPlan(p *Plan, dir string, verbose bool) (tr *trace, why string) {
	defer func() {
		if r := recover(); r != nil {
			if d, ok := r.(discard); ok {
				tr, why = nil, d.why
				return
			}
			panic(r)
		}
	}()
	tr = &trace{}
	switch p.Mode {
	case "sync":
		runSync(p, tr)
	case "solo", "raft1", "raft3":
		runCluster(p, tr, dir, verbose)
	default:
		panic("unknown mode " + p.Mode)
	}
	tr.emit(map[string]interface{}{"ev": "End"})
	return tr, ""
}
