package main

import (
	"fmt"
	"math/rand"
	"sync"
	"time"

	"github.com/ethereum/go-ethereum/event"
	"github.com/libp2p/go-libp2p-core/peer"
	orderPeerMgr "github.com/meshplus/bitxhub-core/peer-mgr"
	"github.com/meshplus/bitxhub-model/pb"
)

// nopPeerMgr implements the parts of OrderPeerManager the ordering code never needs in the harness
type nopPeerMgr struct{}

func (nopPeerMgr) Start() error                                        { return nil }
func (nopPeerMgr) Stop() error                                         { return nil }
func (nopPeerMgr) AsyncSend(orderPeerMgr.KeyType, *pb.Message) error   { return nil }
func (nopPeerMgr) Send(orderPeerMgr.KeyType, *pb.Message) (*pb.Message, error) {
	return nil, fmt.Errorf("not connected")
}
func (nopPeerMgr) CountConnectedPeers() uint64             { return 0 }
func (nopPeerMgr) Peers() map[string]*peer.AddrInfo        { return map[string]*peer.AddrInfo{} }
func (nopPeerMgr) AddNode(uint64, *pb.VpInfo)              {}
func (nopPeerMgr) DelNode(uint64)                          {}
func (nopPeerMgr) UpdateRouter(map[uint64]*pb.VpInfo, bool) bool { return false }
func (nopPeerMgr) OtherPeers() map[uint64]*peer.AddrInfo   { return map[uint64]*peer.AddrInfo{} }
func (nopPeerMgr) Broadcast(*pb.Message) error             { return nil }
func (nopPeerMgr) Disconnect(map[uint64]*pb.VpInfo)        {}
func (nopPeerMgr) OrderPeers() map[uint64]*pb.VpInfo       { return map[uint64]*pb.VpInfo{} }
func (nopPeerMgr) SubscribeOrderMessage(ch chan<- orderPeerMgr.OrderMessageEvent) event.Subscription {
	return event.NewSubscription(func(q <-chan struct{}) error { <-q; return nil })
}

var _ orderPeerMgr.OrderPeerManager = nopPeerMgr{}

// ---- in-memory network -----------------------------------------------------------------------------------

// endpoint = one incarnation of one node: an inbox pumped into Order.Step by its own goroutine
type endpoint struct {
	id    uint64
	inbox chan []byte
	quit  chan struct{}
	step  func([]byte) error
}

type memNet struct {
	mu      sync.Mutex
	rnd     *rand.Rand
	n       int
	eps     map[uint64]*endpoint // live incarnations
	group   map[uint64]int       // partition group of a node (messages pass only inside a group)
	drop    float64
	dup     float64
	delayMs int
	serve   func(to uint64, m *pb.Message) (*pb.Message, error) // request/response (block fetch)
	sent    int
	lost    int
}

func newMemNet(n int, seed int64) *memNet {
	return &memNet{rnd: rand.New(rand.NewSource(seed)), n: n, eps: map[uint64]*endpoint{}, group: map[uint64]int{}}
}

func (nt *memNet) attach(id uint64, step func([]byte) error) *endpoint {
	ep := &endpoint{id: id, inbox: make(chan []byte, 8192), quit: make(chan struct{}), step: step}
	nt.mu.Lock()
	nt.eps[id] = ep
	nt.mu.Unlock()
	go func() {
		for {
			select {
			case <-ep.quit:
				return
			case m := <-ep.inbox:
				// Step blocks until the node's main loop takes the message; a stopped node never does:
				// this goroutine is then abandoned together with the incarnation
				done := make(chan struct{})
				go func() { _ = ep.step(m); close(done) }()
				select {
				case <-done:
				case <-ep.quit:
					return
				}
			}
		}
	}()
	return ep
}

func (nt *memNet) detach(id uint64) {
	nt.mu.Lock()
	if ep, ok := nt.eps[id]; ok {
		close(ep.quit)
		delete(nt.eps, id)
	}
	nt.mu.Unlock()
}

func (nt *memNet) connected(a, b uint64) bool { return nt.group[a] == nt.group[b] }

// one-way message with the scripted faults
func (nt *memNet) post(from, to uint64, data []byte) error {
	nt.mu.Lock()
	ep, ok := nt.eps[to]
	nt.sent++
	if !ok || !nt.connected(from, to) {
		nt.lost++
		nt.mu.Unlock()
		return fmt.Errorf("peer %d unreachable", to)
	}
	copies := 1
	if nt.drop > 0 && nt.rnd.Float64() < nt.drop {
		copies = 0
		nt.lost++
	} else if nt.dup > 0 && nt.rnd.Float64() < nt.dup {
		copies = 2
	}
	delays := make([]time.Duration, copies)
	for i := range delays {
		if nt.delayMs > 0 {
			delays[i] = time.Duration(nt.rnd.Intn(nt.delayMs*1000+1)) * time.Microsecond
		}
	}
	nt.mu.Unlock()
	for _, d := range delays {
		cp := append([]byte{}, data...)
		push := func() {
			select {
			case ep.inbox <- cp:
			case <-ep.quit:
			default: // inbox full: the message is lost
			}
		}
		if d == 0 {
			push()
		} else {
			time.AfterFunc(d, push)
		}
	}
	return nil
}

func (nt *memNet) setFaults(drop, dup float64, delayMs int) {
	nt.mu.Lock()
	nt.drop, nt.dup, nt.delayMs = drop, dup, delayMs
	nt.mu.Unlock()
}

func (nt *memNet) partition(groups [][]int) {
	nt.mu.Lock()
	nt.group = map[uint64]int{}
	for gi, g := range groups {
		for _, id := range g {
			nt.group[uint64(id)] = gi + 1
		}
	}
	nt.mu.Unlock()
}

// memPeer is the OrderPeerManager of one node
type memPeer struct {
	nopPeerMgr
	id uint64
	nt *memNet
}

func (p *memPeer) AsyncSend(to orderPeerMgr.KeyType, m *pb.Message) error {
	id, ok := to.(uint64)
	if !ok {
		return fmt.Errorf("unknown peer key %v", to)
	}
	return p.nt.post(p.id, id, m.Data)
}

func (p *memPeer) Broadcast(m *pb.Message) error {
	for i := 1; i <= p.nt.n; i++ {
		if uint64(i) != p.id {
			_ = p.nt.post(p.id, uint64(i), m.Data)
		}
	}
	return nil
}

func (p *memPeer) Send(to orderPeerMgr.KeyType, m *pb.Message) (*pb.Message, error) {
	id, ok := to.(uint64)
	if !ok {
		return nil, fmt.Errorf("unknown peer key %v", to)
	}
	p.nt.mu.Lock()
	_, up := p.nt.eps[id]
	conn := p.nt.connected(p.id, id)
	serve := p.nt.serve
	p.nt.mu.Unlock()
	if !up || !conn || serve == nil {
		return nil, fmt.Errorf("peer %d unreachable", id)
	}
	return serve(id, m)
}

func (p *memPeer) CountConnectedPeers() uint64 { return uint64(p.nt.n - 1) }

func (p *memPeer) OtherPeers() map[uint64]*peer.AddrInfo {
	r := map[uint64]*peer.AddrInfo{}
	for i := 1; i <= p.nt.n; i++ {
		if uint64(i) != p.id {
			r[uint64(i)] = &peer.AddrInfo{}
		}
	}
	return r
}

func (p *memPeer) OrderPeers() map[uint64]*pb.VpInfo {
	r := map[uint64]*pb.VpInfo{}
	for i := 1; i <= p.nt.n; i++ {
		r[uint64(i)] = &pb.VpInfo{Id: uint64(i), Pid: fmt.Sprintf("peer%d", i), Account: fmt.Sprintf("acct%d", i)}
	}
	return r
}
