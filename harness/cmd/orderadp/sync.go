package main

import (
	"fmt"
	"io/ioutil"
	"strconv"
	"sync"
	"time"

	orderPeerMgr "github.com/meshplus/bitxhub-core/peer-mgr"
	"github.com/meshplus/bitxhub-kit/types"
	"github.com/meshplus/bitxhub-model/pb"
	"github.com/meshplus/bitxhub/pkg/order/syncer"
	"github.com/sirupsen/logrus"
)

func quietLogger() *logrus.Entry {
	l := logrus.New()
	l.SetOutput(ioutil.Discard)
	l.SetLevel(logrus.PanicLevel)
	return logrus.NewEntry(l)
}

// clampOff projects a height to an offset from base that fits the specification's integers
func clampOff(v, base uint64) int64 {
	d := int64(v - base)
	if v < base || d < 0 {
		return -1
	}
	if d > 2000000000 {
		return 2000000000
	}
	return d
}

type rng struct {
	B int64 `json:"b"`
	E int64 `json:"e"`
}

// recPeer answers GET_BLOCKS completely (after `fail` refusals) and records the answered requests
type recPeer struct {
	nopPeerMgr
	mu    sync.Mutex
	fail  int
	reqs  []rng
	tried int
	base  uint64
}

func (r *recPeer) Send(to orderPeerMgr.KeyType, m *pb.Message) (*pb.Message, error) {
	r.mu.Lock()
	defer r.mu.Unlock()
	r.tried++
	if m.Type != pb.Message_GET_BLOCKS {
		return nil, fmt.Errorf("unexpected request %v", m.Type)
	}
	req := &pb.GetBlocksRequest{}
	if err := req.Unmarshal(m.Data); err != nil {
		return nil, err
	}
	if r.fail > 0 {
		r.fail--
		return nil, fmt.Errorf("scripted refusal")
	}
	r.reqs = append(r.reqs, rng{clampOff(req.Start, r.base), clampOff(req.End, r.base)})
	res := &pb.GetBlocksResponse{}
	if req.End >= req.Start && req.End-req.Start < 100000 {
		for h := req.Start; h <= req.End; h++ {
			res.Blocks = append(res.Blocks, &pb.Block{BlockHeader: &pb.BlockHeader{Number: h}, BlockHash: &types.Hash{}, Transactions: &pb.Transactions{}})
			if h == ^uint64(0) {
				break
			}
		}
	}
	data, err := res.Marshal()
	if err != nil {
		return nil, err
	}
	return &pb.Message{Type: pb.Message_GET_BLOCKS_ACK, Data: data}, nil
}

func runSync(p *Plan, tr *trace) {
	tr.emit(map[string]interface{}{"ev": "Init", "name": p.Name, "kind": "sync", "nodes": []int{}})
	cases := append([]SyncCase{}, p.Cases...)
	if len(p.Grid) == 2 {
		for f := 0; f <= p.Grid[1]; f++ {
			for b := 0; b <= p.Grid[0]; b++ {
				for e := 0; e <= p.Grid[0]; e++ {
					cases = append(cases, SyncCase{Begin: uint64(b), End: uint64(e), Fetch: uint64(f), Run: true})
				}
			}
		}
	}
	logger := quietLogger()
	for _, c := range cases {
		pm := &recPeer{fail: c.Fail, base: c.Base}
		s, err := syncer.New(c.Fetch, pm, 1, []uint64{2, 3, 4, 5}, logger)
		if err != nil {
			panic(discard{"syncer.New: " + err.Error()})
		}
		begin, end := c.Base+c.Begin, c.Base+c.End
		rs, cerr := s.VerifCalcRangeHeight(begin, end)
		out := []rng{}
		for _, r := range rs {
			out = append(out, rng{clampOff(r.Begin, c.Base), clampOff(r.End, c.Base)})
		}
		tr.emit(map[string]interface{}{"ev": "SyncCalc", "begin": c.Begin, "end": c.End, "fetch": c.Fetch,
			"base": strconv.FormatUint(c.Base, 10), "big": c.Base > 0, "err": cerr != nil, "rs": out})
		if !c.Run {
			continue
		}
		// the same through the public entry point: the requests the peers see and the blocks handed on
		blockCh := make(chan *pb.Block, 8192)
		ret := make(chan error, 1)
		go func() { ret <- s.SyncCFTBlocks(begin, end, blockCh) }()
		got := []int64{}
		done := false
		deadline := time.After(20 * time.Second)
	loop:
		for {
			select {
			case b := <-blockCh:
				if b == nil {
					done = true
					break loop
				}
				got = append(got, clampOff(b.Height(), c.Base))
			case err := <-ret:
				// returned: drain what is already queued
				for {
					select {
					case b := <-blockCh:
						if b == nil {
							done = true
						} else {
							got = append(got, clampOff(b.Height(), c.Base))
						}
						continue
					default:
					}
					break
				}
				if err != nil {
					done = true // refused as a whole (begin > end): ended without any request
				}
				break loop
			case <-deadline:
				panic(discard{fmt.Sprintf("SyncCFTBlocks(%d,%d,%d) did not end", begin, end, c.Fetch)})
			}
		}
		pm.mu.Lock()
		reqs := append([]rng{}, pm.reqs...)
		pm.mu.Unlock()
		tr.emit(map[string]interface{}{"ev": "SyncRun", "begin": c.Begin, "end": c.End, "fetch": c.Fetch,
			"base": strconv.FormatUint(c.Base, 10), "reqs": reqs, "got": got, "done": done, "fail": c.Fail})
	}
}
