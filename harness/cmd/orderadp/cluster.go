package main

import (
	"crypto/sha256"
	"encoding/binary"
	"encoding/hex"
	"fmt"
	"io/ioutil"
	"math/rand"
	"os"
	"path/filepath"
	"runtime"
	"sync"
	"time"

	"github.com/meshplus/bitxhub-core/order"
	"github.com/meshplus/bitxhub-kit/types"
	"github.com/meshplus/bitxhub-model/pb"
	"github.com/meshplus/bitxhub/pkg/order/etcdraft"
	"github.com/meshplus/bitxhub/pkg/order/solo"
	"github.com/sirupsen/logrus"
)

const (
	callTimeout = 4 * time.Second
	waitTimeout = 4 * time.Second
	optTimeout  = 700 * time.Millisecond
)

// stopScenario ends the driver early; the trace recorded so far stays valid (facts only)
type stopScenario struct{ why string }

type vnode struct {
	id   int
	c    *cluster
	ord  order.Order
	raft *etcdraft.Node

	mu      sync.Mutex
	up      bool
	inc     int
	ns      int
	ledger  []*pb.Block // executed blocks: the durable side of the executor stub
	queue   []*pb.Block // handed over by Commit(), not executed yet (lost in a crash)
	unrep   []uint64    // executed, not reported yet
	maxDel  int         // highest height received in this incarnation
	execPol string
	repPol  string
	seenTx  map[string]bool // transactions received in blocks during this incarnation
	stop    chan struct{}
	done    chan struct{}
}

type cluster struct {
	p       *Plan
	tr      *trace
	dir     string
	verbose bool
	nodes   []*vnode
	nt      *memNet
	rnd     *rand.Rand

	mu       sync.Mutex
	txs      map[int]pb.Transaction
	txName   map[string]string // hash -> "t<id>"
	acctN    map[int]uint64
	acctAddr map[int]*types.Address
	batchID  map[string]string
	nextMark int
	picked   *vnode
	failed   string
	cond     chan struct{} // pulsed on every delivery
}

func (c *cluster) fail(why string) {
	c.mu.Lock()
	if c.failed == "" {
		c.failed = why
	}
	c.mu.Unlock()
}

func (c *cluster) pulse() {
	select {
	case c.cond <- struct{}{}:
	default:
	}
}

// callT runs f (a call into the node that blocks until its main loop takes it) with a deadline
func callT(f func()) bool {
	done := make(chan struct{})
	go func() { f(); close(done) }()
	select {
	case <-done:
		return true
	case <-time.After(callTimeout):
		return false
	}
}

func (c *cluster) logger(id int) *logrus.Entry {
	l := logrus.New()
	if c.verbose {
		l.SetOutput(os.Stderr)
		l.SetLevel(logrus.DebugLevel)
	} else {
		l.SetOutput(ioutil.Discard)
		l.SetLevel(logrus.ErrorLevel)
	}
	// Fatal inside the node must not end the harness process: end the calling goroutine (the node's loop)
	l.ExitFunc = func(int) {
		c.fail(fmt.Sprintf("node %d: fatal log call", id))
		runtime.Goexit()
	}
	return l.WithField("node", id)
}

func (c *cluster) writeConfig() {
	tick := c.p.TickMs
	if tick == 0 {
		tick = 5
	}
	bs := c.p.BatchSize
	if bs == 0 {
		bs = 1
	}
	var s string
	if c.p.Mode == "solo" {
		s = fmt.Sprintf(`[timed_gen_block]
enable = false
block_timeout = "2s"
[solo]
batch_timeout = "15ms"
  [solo.mempool]
  batch_size = %d
  pool_size = 50000
  tx_slice_size = 1
  tx_slice_timeout = "3ms"
`, bs)
	} else {
		s = fmt.Sprintf(`[timed_gen_block]
enable = false
block_timeout = "2s"
[raft]
batch_timeout = "15ms"
tick_timeout = "%dms"
election_tick = 10
heartbeat_tick = 1
max_size_per_msg = 1048576
max_inflight_msgs = 500
check_quorum = true
pre_vote = true
disable_proposal_forwarding = true
check_interval = "150ms"
check_alive = "13m"
  [raft.mempool]
  batch_size = %d
  pool_size = 50000
  tx_slice_size = 1
  tx_slice_timeout = "3ms"
  [raft.syncer]
  sync_blocks = 3
  snapshot_count = %d
`, tick, bs, c.p.SnapCount)
	}
	if err := ioutil.WriteFile(filepath.Join(c.dir, "order.toml"), []byte(s), 0644); err != nil {
		panic(err)
	}
}

func (v *vnode) height() uint64 {
	v.mu.Lock()
	defer v.mu.Unlock()
	return uint64(len(v.ledger))
}

func (v *vnode) nonceOf(a *types.Address) uint64 {
	v.mu.Lock()
	defer v.mu.Unlock()
	var n uint64
	for _, b := range v.ledger {
		for _, tx := range b.Transactions.Transactions {
			if tx.GetFrom().String() == a.String() && tx.GetNonce()+1 > n {
				n = tx.GetNonce() + 1
			}
		}
	}
	return n
}

// create (or re-create after a crash) the real ordering node on the node's own storage directory
func (c *cluster) construct(v *vnode) {
	nodes := map[uint64]*pb.VpInfo{}
	n := len(c.nodes)
	for i := 1; i <= n; i++ {
		nodes[uint64(i)] = &pb.VpInfo{Id: uint64(i), Pid: fmt.Sprintf("peer%d", i), Account: fmt.Sprintf("acct%d", i)}
	}
	opts := []order.Option{
		order.WithRepoRoot(c.dir),
		order.WithStoragePath(filepath.Join(c.dir, fmt.Sprintf("node%d", v.id))),
		order.WithNodes(nodes),
		order.WithID(uint64(v.id)),
		order.WithIsNew(false),
		order.WithPeerManager(&memPeer{id: uint64(v.id), nt: c.nt}),
		order.WithLogger(c.logger(v.id)),
		order.WithApplied(v.height()),
		order.WithDigest(""),
		order.WithGetChainMetaFunc(func() *pb.ChainMeta {
			return &pb.ChainMeta{Height: v.height(), BlockHash: types.NewHash(make([]byte, 32))}
		}),
		order.WithGetAccountNonceFunc(v.nonceOf),
	}
	var o order.Order
	var err error
	if c.p.Mode == "solo" {
		opts = append(opts, order.WithOrderType("solo"))
		o, err = solo.NewNode(opts...)
	} else {
		opts = append(opts, order.WithOrderType("raft"))
		o, err = etcdraft.NewNode(opts...)
	}
	if err != nil {
		panic(discard{fmt.Sprintf("NewNode(%d): %v", v.id, err)})
	}
	v.ord = o
	if rn, ok := o.(*etcdraft.Node); ok {
		v.raft = rn
	}
}

func (c *cluster) start(v *vnode) {
	v.mu.Lock()
	v.up = true
	v.ns = 0
	v.maxDel = 0
	v.queue = nil
	v.unrep = nil
	v.seenTx = map[string]bool{}
	v.stop = make(chan struct{})
	v.done = make(chan struct{})
	inc := v.inc
	stop, done := v.stop, v.done
	v.mu.Unlock()
	if c.p.Mode != "solo" {
		c.nt.attach(uint64(v.id), v.ord.Step)
	}
	commitC := v.ord.Commit()
	go func() {
		defer close(done)
		for {
			select {
			case <-stop:
				return
			case ev := <-commitC:
				if ev == nil || ev.Block == nil {
					continue
				}
				c.onDeliver(v, inc, ev.Block)
			}
		}
	}()
	ok := callT(func() {
		if err := v.ord.Start(); err != nil {
			c.fail(fmt.Sprintf("Start(%d): %v", v.id, err))
		}
	})
	if !ok {
		panic(discard{fmt.Sprintf("Start(%d) did not return", v.id)})
	}
}

func (c *cluster) blockID(b *pb.Block) (string, []string) {
	h := sha256.New()
	var ts [8]byte
	binary.BigEndian.PutUint64(ts[:], uint64(b.BlockHeader.Timestamp))
	h.Write(ts[:])
	names := []string{}
	c.mu.Lock()
	defer c.mu.Unlock()
	for _, tx := range b.Transactions.Transactions {
		hs := tx.GetHash().String()
		h.Write([]byte(hs))
		nm, ok := c.txName[hs]
		if !ok {
			nm = "x" + hs[2:10] // a transaction the harness never submitted
		}
		names = append(names, nm)
	}
	d := hex.EncodeToString(h.Sum(nil))
	id, ok := c.batchID[d]
	if !ok {
		id = fmt.Sprintf("b%d", len(c.batchID)+1)
		c.batchID[d] = id
	}
	return id, names
}

// the executor stub: everything Commit() hands over is logged; execution and reports follow the scripted policy
func (c *cluster) onDeliver(v *vnode, inc int, b *pb.Block) {
	id, names := c.blockID(b)
	v.mu.Lock()
	if !v.up || v.inc != inc {
		v.mu.Unlock()
		return
	}
	v.ns++
	c.tr.emit(map[string]interface{}{"ev": "Deliver", "n": v.id, "ns": v.ns, "inc": inc, "h": int(b.BlockHeader.Number), "id": id, "txs": names})
	v.queue = append(v.queue, b)
	if int(b.BlockHeader.Number) > v.maxDel {
		v.maxDel = int(b.BlockHeader.Number)
	}
	for _, tx := range b.Transactions.Transactions {
		v.seenTx[tx.GetHash().String()] = true
	}
	auto := v.execPol == "auto"
	v.mu.Unlock()
	c.pulse()
	if auto {
		c.execute(v, inc, -1)
	}
}

// execute up to count queued blocks (-1: all): the block becomes part of the durable ledger
func (c *cluster) execute(v *vnode, inc int, count int) {
	for count != 0 {
		v.mu.Lock()
		if !v.up || v.inc != inc || len(v.queue) == 0 {
			v.mu.Unlock()
			return
		}
		b := v.queue[0]
		v.queue = v.queue[1:]
		v.ledger = append(v.ledger, b)
		v.ns++
		c.tr.emit(map[string]interface{}{"ev": "Exec", "n": v.id, "ns": v.ns, "h": int(b.BlockHeader.Number), "ledger": len(v.ledger)})
		v.unrep = append(v.unrep, b.BlockHeader.Number)
		auto := v.repPol == "auto"
		v.mu.Unlock()
		if auto {
			c.report(v, inc, b.BlockHeader.Number)
		}
		if count > 0 {
			count--
		}
	}
}

// ReportState for height h (any order: the real caller starts one goroutine per block)
func (c *cluster) report(v *vnode, inc int, h uint64) {
	v.mu.Lock()
	if !v.up || v.inc != inc {
		v.mu.Unlock()
		return
	}
	var b *pb.Block
	for _, x := range v.ledger {
		if x.BlockHeader.Number == h {
			b = x
		}
	}
	k := -1
	for i, x := range v.unrep {
		if x == h {
			k = i
		}
	}
	if b == nil || k < 0 {
		v.mu.Unlock()
		return
	}
	v.unrep = append(v.unrep[:k], v.unrep[k+1:]...)
	ord, rn := v.ord, v.raft
	v.mu.Unlock()
	hashes := []*types.Hash{}
	for _, tx := range b.Transactions.Transactions {
		hashes = append(hashes, tx.GetHash())
	}
	if !callT(func() { ord.ReportState(h, types.NewHash(make([]byte, 32)), hashes) }) {
		if c.stillUp(v, inc) {
			c.fail(fmt.Sprintf("ReportState(%d,%d) not taken", v.id, h))
		}
		return
	}
	applied := uint64(0)
	if rn != nil {
		// barrier through the same loop: when it answers, the report has been handled
		if !callT(func() { ord.GetPendingTxByHash(types.NewHash(make([]byte, 32))) }) {
			if c.stillUp(v, inc) {
				c.fail(fmt.Sprintf("barrier after ReportState(%d,%d) not answered", v.id, h))
			}
			return
		}
		if !c.stillUp(v, inc) {
			return
		}
		applied = rn.VerifPersistedApplied()
	}
	c.tr.emit(map[string]interface{}{"ev": "Report", "n": v.id, "h": int(h), "applied": int(applied), "raft": rn != nil})
}

func (c *cluster) stillUp(v *vnode, inc int) bool {
	v.mu.Lock()
	defer v.mu.Unlock()
	return v.up && v.inc == inc
}

// crash = stop the node, wait until its loop is gone, close WAL and database, forget everything volatile
func (c *cluster) crash(v *vnode, emit bool) {
	v.mu.Lock()
	if !v.up {
		v.mu.Unlock()
		return
	}
	v.up = false
	close(v.stop)
	done := v.done
	v.mu.Unlock()
	c.nt.detach(uint64(v.id))
	select {
	case <-done:
	case <-time.After(2 * callTimeout):
		panic(discard{fmt.Sprintf("executor stub of node %d did not stop", v.id)})
	}
	v.ord.Stop()
	applied, snap := 0, 0
	if v.raft != nil {
		dl := time.Now().Add(callTimeout)
		for !stoppedT(v.raft) {
			if time.Now().After(dl) {
				panic(discard{fmt.Sprintf("node %d did not stop", v.id)})
			}
			time.Sleep(2 * time.Millisecond)
		}
		applied, snap = int(v.raft.VerifPersistedApplied()), int(v.raft.VerifSnapshotIndex())
		if err := v.raft.VerifClose(); err != nil {
			panic(discard{fmt.Sprintf("close storage of node %d: %v", v.id, err)})
		}
	}
	v.mu.Lock()
	v.queue, v.unrep = nil, nil
	v.mu.Unlock()
	if emit {
		c.tr.emit(map[string]interface{}{"ev": "Crash", "n": v.id, "applied": applied, "snap": snap, "ledger": int(v.height())})
	}
}

func stoppedT(rn *etcdraft.Node) bool {
	r := false
	if !callT(func() { r = rn.VerifStopped() }) {
		return false
	}
	return r
}

func (c *cluster) restart(v *vnode) {
	v.mu.Lock()
	if v.up {
		v.mu.Unlock()
		return
	}
	v.inc++
	v.mu.Unlock()
	c.construct(v)
	applied, snap := 0, 0
	if v.raft != nil {
		applied, snap = int(v.raft.VerifPersistedApplied()), int(v.raft.VerifSnapshotIndex())
	}
	c.tr.emit(map[string]interface{}{"ev": "Restart", "n": v.id, "base": int(v.height()), "applied": applied, "snap": snap})
	c.start(v)
}

// ---- transactions ------------------------------------------------------------------------------------------

func (c *cluster) tx(id int) pb.Transaction {
	c.mu.Lock()
	defer c.mu.Unlock()
	if t, ok := c.txs[id]; ok {
		return t
	}
	acct := id + 1000
	if c.p.Accounts > 0 && id < 100000 {
		acct = id % c.p.Accounts
	}
	addr, ok := c.acctAddr[acct]
	if !ok {
		b := make([]byte, 20)
		c.rnd.Read(b)
		addr = types.NewAddress(b)
		c.acctAddr[acct] = addr
	}
	to := make([]byte, 20)
	to[19] = 1
	t := &pb.BxhTransaction{From: addr, To: types.NewAddress(to), Nonce: c.acctN[acct], Timestamp: time.Now().UnixNano(),
		Payload: []byte(fmt.Sprintf("tx-%d", id))}
	c.acctN[acct]++
	t.TransactionHash = t.Hash()
	c.txs[id] = t
	c.txName[t.TransactionHash.String()] = fmt.Sprintf("t%d", id)
	return t
}

func (c *cluster) upNodes() []*vnode {
	r := []*vnode{}
	for _, v := range c.nodes {
		v.mu.Lock()
		if v.up {
			r = append(r, v)
		}
		v.mu.Unlock()
	}
	return r
}

// the node that believes to lead and is connected to a majority (0 if none right now)
func (c *cluster) leader() *vnode {
	if c.p.Mode == "solo" {
		for _, v := range c.upNodes() {
			return v
		}
		return nil
	}
	ups := c.upNodes()
	for _, v := range ups {
		if v.raft.VerifLeader() != uint64(v.id) {
			continue
		}
		reach := 0
		c.nt.mu.Lock()
		for _, w := range ups {
			if c.nt.connected(uint64(v.id), uint64(w.id)) {
				reach++
			}
		}
		c.nt.mu.Unlock()
		if reach*2 > len(c.nodes) {
			return v
		}
	}
	return nil
}

// v can talk to a majority of the cluster (itself included) right now
func (c *cluster) inMajority(v *vnode) bool {
	reach := 0
	ups := c.upNodes()
	c.nt.mu.Lock()
	for _, w := range ups {
		if c.nt.connected(uint64(v.id), uint64(w.id)) {
			reach++
		}
	}
	c.nt.mu.Unlock()
	return reach*2 > len(c.nodes)
}

func (c *cluster) waitLeader() *vnode {
	dl := time.Now().Add(waitTimeout)
	for time.Now().Before(dl) {
		if v := c.leader(); v != nil {
			return v
		}
		time.Sleep(2 * time.Millisecond)
	}
	panic(stopScenario{"no leader"})
}

func (c *cluster) submit(v *vnode, ids []int, resub bool) {
	names := []string{}
	for _, id := range ids {
		names = append(names, fmt.Sprintf("t%d", id))
	}
	txs := []pb.Transaction{}
	for _, id := range ids {
		txs = append(txs, c.tx(id))
	}
	c.tr.emit(map[string]interface{}{"ev": "Submit", "n": v.id, "txs": names, "resub": resub})
	for _, t := range txs {
		dl := time.Now().Add(waitTimeout)
		for {
			var err error
			tt := t
			if !callT(func() { err = v.ord.Prepare(tt) }) {
				panic(stopScenario{fmt.Sprintf("Prepare on node %d not taken", v.id)})
			}
			if err == nil {
				break
			}
			if time.Now().After(dl) {
				panic(stopScenario{fmt.Sprintf("node %d not ready: %v", v.id, err)})
			}
			time.Sleep(3 * time.Millisecond)
		}
	}
}

func (c *cluster) waitFor(what string, opt bool, cond func() bool) bool {
	to := waitTimeout
	if opt {
		to = optTimeout
	}
	dl := time.After(to)
	for {
		if cond() {
			return true
		}
		c.mu.Lock()
		f := c.failed
		c.mu.Unlock()
		if f != "" {
			panic(stopScenario{f})
		}
		select {
		case <-c.cond:
		case <-time.After(3 * time.Millisecond):
		case <-dl:
			if opt {
				return false
			}
			panic(stopScenario{"timeout waiting for " + what})
		}
	}
}

func (v *vnode) reached(h int) bool {
	v.mu.Lock()
	defer v.mu.Unlock()
	return !v.up || v.maxDel >= h || len(v.ledger) >= h
}

func (v *vnode) sawTx(hash string) bool {
	v.mu.Lock()
	defer v.mu.Unlock()
	if !v.up || v.seenTx[hash] {
		return true
	}
	return false
}

// ---- scenario ----------------------------------------------------------------------------------------------

func runCluster(p *Plan, tr *trace, dir string, verbose bool) {
	n := 1
	if p.Mode == "raft3" {
		n = 3
	}
	etcdraft.VerifResetRestartFlag()
	c := &cluster{p: p, tr: tr, dir: dir, verbose: verbose, nt: newMemNet(n, p.Seed), rnd: rand.New(rand.NewSource(p.Seed)),
		txs: map[int]pb.Transaction{}, txName: map[string]string{}, acctN: map[int]uint64{}, acctAddr: map[int]*types.Address{},
		batchID: map[string]string{}, cond: make(chan struct{}, 1)}
	c.writeConfig()
	ids := []int{}
	for i := 1; i <= n; i++ {
		c.nodes = append(c.nodes, &vnode{id: i, c: c, inc: 1, execPol: "auto", repPol: "auto"})
		ids = append(ids, i)
	}
	c.nt.serve = c.serveBlocks
	kind := "raft"
	if p.Mode == "solo" {
		kind = "solo"
	}
	tr.emit(map[string]interface{}{"ev": "Init", "name": p.Name, "kind": kind, "nodes": ids, "mode": p.Mode})
	defer func() {
		// stop everything that still runs; a stop problem here no longer matters for the recorded facts
		func() {
			defer func() { recover() }()
			for _, v := range c.nodes {
				c.crash(v, false)
			}
		}()
	}()
	for _, v := range c.nodes {
		c.construct(v)
	}
	for _, v := range c.nodes {
		c.start(v)
	}
	func() {
		defer func() {
			if r := recover(); r != nil {
				if s, ok := r.(stopScenario); ok {
					tr.emit(map[string]interface{}{"ev": "Note", "note": "scenario ended early: " + s.why})
					fmt.Printf("INCOMPLETE %s: %s\n", p.Name, s.why)
					return
				}
				panic(r)
			}
		}()
		for _, st := range p.Steps {
			c.mu.Lock()
			f := c.failed
			c.mu.Unlock()
			if f != "" {
				panic(stopScenario{f})
			}
			c.step(st)
		}
	}()
}

func (c *cluster) node(i int) *vnode {
	if i == -1 && c.picked != nil {
		return c.picked
	}
	if i < 1 || i > len(c.nodes) {
		return c.nodes[0]
	}
	return c.nodes[i-1]
}

func (c *cluster) step(st Step) {
	switch st.Op {
	case "submit":
		var v *vnode
		switch st.To {
		case "leader":
			v = c.waitLeader()
		case "follower":
			l := c.waitLeader()
			for _, w := range c.upNodes() {
				if w != l {
					v = w
				}
			}
			if v == nil {
				v = l
			}
		default:
			v = c.node(st.N)
		}
		if !c.stillUp(v, v.inc) {
			return
		}
		c.submit(v, st.Txs, st.Resub)
	case "waitDeliver":
		vs := c.upNodes()
		if len(st.Nodes) > 0 {
			vs = nil
			for _, i := range st.Nodes {
				vs = append(vs, c.node(i))
			}
		}
		c.waitFor(fmt.Sprintf("height %d", st.H), st.Opt, func() bool {
			for _, v := range vs {
				if !v.reached(st.H) {
					return false
				}
			}
			return true
		})
	case "waitTx":
		// until every connected up node received the given transactions in blocks
		for _, id := range st.Txs {
			hs := c.tx(id).GetHash().String()
			c.waitFor(fmt.Sprintf("t%d", id), st.Opt, func() bool {
				for _, v := range c.upNodes() {
					if len(st.Nodes) > 0 && !contains(st.Nodes, v.id) {
						continue
					}
					if st.Opt && !c.inMajority(v) {
						continue
					}
					if !v.sawTx(hs) {
						return false
					}
				}
				return true
			})
		}
	case "policy":
		for _, v := range c.nodes {
			if st.N != 0 && c.node(st.N).id != v.id {
				continue
			}
			v.mu.Lock()
			if st.Exec != "" {
				v.execPol = st.Exec
			}
			if st.Report != "" {
				v.repPol = st.Report
			}
			v.mu.Unlock()
		}
	case "exec":
		v := c.node(st.N)
		cnt := st.Count
		if cnt == 0 {
			cnt = -1
		}
		c.execute(v, v.inc, cnt)
	case "report":
		v := c.node(st.N)
		hs := st.Hs
		if len(hs) == 0 {
			v.mu.Lock()
			for _, h := range v.unrep {
				hs = append(hs, int(h))
			}
			v.mu.Unlock()
		}
		for _, h := range hs {
			c.report(v, v.inc, uint64(h))
		}
	case "crash":
		c.crash(c.node(st.N), true)
	case "restart":
		c.restart(c.node(st.N))
	case "isolate":
		g := [][]int{{c.node(st.N).id}, {}}
		for _, v := range c.nodes {
			if v.id != c.node(st.N).id {
				g[1] = append(g[1], v.id)
			}
		}
		c.tr.emit(map[string]interface{}{"ev": "Net", "op": "isolate", "n": c.node(st.N).id, "fault": true})
		c.nt.partition(g)
	case "isolateLeader":
		l := c.waitLeader()
		g := [][]int{{l.id}, {}}
		for _, v := range c.nodes {
			if v.id != l.id {
				g[1] = append(g[1], v.id)
			}
		}
		c.tr.emit(map[string]interface{}{"ev": "Net", "op": "isolate", "n": l.id, "fault": true})
		c.nt.partition(g)
	case "crashLeader":
		c.crash(c.waitLeader(), true)
	case "restartAll":
		for _, v := range c.nodes {
			c.restart(v)
		}
	case "heal":
		c.tr.emit(map[string]interface{}{"ev": "Net", "op": "heal", "n": 0, "fault": false})
		c.nt.partition(nil)
	case "net":
		c.tr.emit(map[string]interface{}{"ev": "Net", "op": "faults", "n": 0, "fault": false, "drop": st.Drop, "dup": st.Dup, "delay": st.Delay})
		c.nt.setFaults(st.Drop, st.Dup, st.Delay)
	case "sleep":
		time.Sleep(time.Duration(st.Ms) * time.Millisecond)
	case "waitLeader":
		c.waitLeader()
	case "pick":
		l := c.waitLeader()
		c.picked = l
		if st.To == "follower" {
			var fs []*vnode
			for _, w := range c.upNodes() {
				if w != l {
					fs = append(fs, w)
				}
			}
			if len(fs) > 0 {
				c.picked = fs[c.rnd.Intn(len(fs))]
			}
		}
		c.tr.emit(map[string]interface{}{"ev": "Note", "note": fmt.Sprintf("picked %s: node %d", st.To, c.picked.id)})
	case "settle":
		c.settle()
	default:
		panic("unknown step " + st.Op)
	}
}

func contains(xs []int, x int) bool {
	for _, y := range xs {
		if y == x {
			return true
		}
	}
	return false
}

// settle: no faults, executors caught up, then fresh marker transactions until every up node received one in a block
func (c *cluster) settle() {
	c.tr.emit(map[string]interface{}{"ev": "Net", "op": "heal", "n": 0, "fault": false})
	c.nt.partition(nil)
	c.nt.setFaults(0, 0, 0)
	for _, v := range c.upNodes() {
		v.mu.Lock()
		v.execPol, v.repPol = "auto", "auto"
		inc := v.inc
		pend := append([]uint64{}, v.unrep...)
		v.mu.Unlock()
		c.execute(v, inc, -1)
		for _, h := range pend {
			c.report(v, inc, h)
		}
	}
	// (after the known re-batching finding the pool's pending counter can be one behind: a marker is then handed
	// out only when the next transaction arrives - any marker of this settle phase that reached everybody will do)
	var marks []string
	for try := 0; try < 5; try++ {
		l := c.waitLeader()
		c.mu.Lock()
		c.nextMark++
		id := 100000 + c.nextMark
		c.mu.Unlock()
		c.submit(l, []int{id}, false)
		marks = append(marks, c.tx(id).GetHash().String())
		if c.waitFor("marker", true, func() bool {
			for _, hs := range marks {
				all := true
				for _, v := range c.upNodes() {
					if !v.sawTx(hs) {
						all = false
					}
				}
				if all {
					return true
				}
			}
			return false
		}) {
			c.tr.emit(map[string]interface{}{"ev": "Note", "note": fmt.Sprintf("settled after %d marker(s)", len(marks))})
			return
		}
	}
	// Some replica does not hand over blocks any more although it is up and connected. Nothing is concluded from
	// the silence itself; but if such a replica is made the leader, what it proposes and hands over next is a fact.
	if c.p.Mode == "raft3" {
		c.leadershipProbe()
	}
	panic(stopScenario{"marker transaction not delivered everywhere"})
}

// rotate the leadership by isolating the current leader a few times, with one transaction per new leader
func (c *cluster) leadershipProbe() {
	defer func() {
		if r := recover(); r != nil {
			if _, ok := r.(stopScenario); !ok {
				panic(r)
			}
		}
	}()
	for try := 0; try < 3; try++ {
		l := c.waitLeader()
		g := [][]int{{l.id}, {}}
		for _, v := range c.nodes {
			if v.id != l.id {
				g[1] = append(g[1], v.id)
			}
		}
		c.tr.emit(map[string]interface{}{"ev": "Net", "op": "isolate", "n": l.id, "fault": true})
		c.nt.partition(g)
		time.Sleep(20 * time.Millisecond)
		nl := c.waitLeader()
		c.mu.Lock()
		c.nextMark++
		id := 100000 + c.nextMark
		c.mu.Unlock()
		c.submit(nl, []int{id}, false)
		hs := c.tx(id).GetHash().String()
		c.waitFor("probe", true, func() bool { return nl.sawTx(hs) })
		c.tr.emit(map[string]interface{}{"ev": "Net", "op": "heal", "n": 0, "fault": false})
		c.nt.partition(nil)
		time.Sleep(30 * time.Millisecond)
	}
}

// block fetch served from the executed blocks of node `to`
func (c *cluster) serveBlocks(to uint64, m *pb.Message) (*pb.Message, error) {
	if m.Type != pb.Message_GET_BLOCKS {
		return nil, fmt.Errorf("unexpected request %v", m.Type)
	}
	req := &pb.GetBlocksRequest{}
	if err := req.Unmarshal(m.Data); err != nil {
		return nil, err
	}
	v := c.node(int(to))
	res := &pb.GetBlocksResponse{}
	v.mu.Lock()
	for _, b := range v.ledger {
		if b.BlockHeader.Number >= req.Start && b.BlockHeader.Number <= req.End {
			res.Blocks = append(res.Blocks, b)
		}
	}
	v.mu.Unlock()
	if uint64(len(res.Blocks)) < req.End-req.Start+1 {
		time.Sleep(5 * time.Millisecond) // the asked node is behind: do not let the asking loop spin
	}
	c.tr.emit(map[string]interface{}{"ev": "Fetch", "to": int(to), "b": int(req.Start), "e": int(req.End), "answered": len(res.Blocks)})
	data, err := res.Marshal()
	if err != nil {
		return nil, err
	}
	return &pb.Message{Type: pb.Message_GET_BLOCKS_ACK, Data: data}, nil
}
