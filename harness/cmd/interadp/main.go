// interadp drives the real executor with interchain scenarios (IBTP requests / receipts, one-to-one and
// grouped, service governance, empty blocks, restarts) on a lockstep node pair and records ndjson
// traces: receipts, counters, transaction statuses, per-block delivery / timeout / multi-tx metadata,
// service statuses, failed-transaction state deltas. No oracle here.
package main

import (
	"crypto/sha256"
	"encoding/json"
	"flag"
	"fmt"
	"github.com/ethereum/go-ethereum/common"
	ethcrypto "github.com/ethereum/go-ethereum/crypto"
	"io/ioutil"
	"math/big"
	"math/rand"
	"os"
	"sort"
	"strconv"
	"strings"

	"github.com/meshplus/bitxhub-kit/types"
	"github.com/meshplus/bitxhub-model/constant"
	"github.com/meshplus/bitxhub-model/pb"
	"github.com/meshplus/bitxhub/internal/executor/contracts"
	"github.com/meshplus/bitxhub/verifharness/core"
	"github.com/meshplus/bitxhub/verifharness/lockstep"
)

type Tx struct {
	K     string   `json:"k"`             // ibtp | transfer | invoke
	Src   string   `json:"src,omitempty"` // "chainA:svc1" (local) or "9999:chainX:svcX" (other hub)
	Dst   string   `json:"dst,omitempty"`
	Idx   uint64   `json:"idx,omitempty"`
	Typ   string   `json:"typ,omitempty"`   // REQ | OK | FAIL | RB
	T     int64    `json:"t,omitempty"`     // timeout height (relative)
	Proof string   `json:"proof,omitempty"` // ok | bad | none
	GDst  []string `json:"gdst,omitempty"`  // group: destination services
	GIdx  []uint64 `json:"gidx,omitempty"`  // group: indices
	From  string   `json:"from,omitempty"`  // sender account
	C     string   `json:"c,omitempty"`
	M     string   `json:"m,omitempty"`
	Args  []string `json:"args,omitempty"`
	Role  string   `json:"role,omitempty"` // surface calls: outsider | otheradmin | govadmin
	// inter-BitXHub traffic (C03 multi-signature matrix)
	Ms       bool     `json:"ms,omitempty"`       // the proof is a pb.BxhProof{TxStatus, MultiSign}
	Sigs     []string `json:"sigs,omitempty"`     // signers "<label>[!idx|!status|!type|!from]" or "junk"
	MsStatus int      `json:"msstatus,omitempty"` // TxStatus inside the multi-signature proof
	Notice   string   `json:"notice,omitempty"`   // ibtp.Extra: "" | BF | RB | OK | junk (a BxhProof carrying that status)
	Mal      string   `json:"mal,omitempty"`      // structure-level mutation of the IBTP: src | dst | type | group (k becomes "ibtpmal") | payload | nopayload
	// rule scenarios: the proof is a Fabric artifact (endorsed broker response) "signer[!idx|!cc|!func|!sig]", e.g. "c0", "c1", "c0!idx"
	Art      string `json:"art,omitempty"`
	Promoted bool   `json:"promoted,omitempty"` // surface calls: method is promoted / not an entry point
	BadSig   bool   `json:"badsig,omitempty"`   // transfer: the signature does not verify
	Aim      string `json:"aim,omitempty"`      // surface calls: "self" (first argument names the caller) | "ownnode" (first argument names the node the calling audit admin is / was bound to) | ""
}

type Step struct {
	Step string `json:"step"` // block | gov | empty | restart
	Txs  []Tx   `json:"txs,omitempty"`
	M    string `json:"m,omitempty"`   // gov method: FreezeService | ActivateService | LogoutService | FreezeAppchain | ActivateAppchain | LogoutAppchain
	Obj  string `json:"obj,omitempty"` // service "chainA:svc1" or chain "chainA"
	Ok   bool   `json:"ok,omitempty"`  // approve (true) or reject
	N    int    `json:"n,omitempty"`
	// governance scenarios (C15)
	Args   []string `json:"args,omitempty"`   // submit: further arguments
	By     string   `json:"by,omitempty"`     // submit / vote / withdraw: sender account
	Pid    int      `json:"pid,omitempty"`    // vote / withdraw: index into the proposals created so far
	Ballot string   `json:"ballot,omitempty"` // vote
}

type Plan struct {
	Name    string            `json:"name"`
	Audit   bool              `json:"audit"`
	Seed    int64             `json:"seed"`
	Proof   string            `json:"prooftype"`
	Chains  []string          `json:"chains"` // chains to register; every chain gets services svc1..svcK
	NSvc    int               `json:"nsvc"`
	Unord   []string          `json:"unordered,omitempty"` // services registered as unordered
	Black   map[string]string `json:"black,omitempty"`     // service -> blacklisted full source id
	Steps   []Step            `json:"steps"`
	GovMode bool              `json:"govmode,omitempty"`
	FreeGas bool              `json:"freegas,omitempty"` // gas price 0: callers never run out of funds (surface scenarios)
	Relay   *Relay            `json:"relay,omitempty"`   // another BitXHub registered as relay chain
	Relay2  *Relay            `json:"relay2,omitempty"`  // a second one, with its own validators
	Fabric  string            `json:"fabric,omitempty"`  // a chain validated by the simplified Fabric rule (trust root: endorser c0)
	Roles   bool              `json:"roles,omitempty"`   // role / node lifecycle scenario: observe roles, audit nodes (C16 lifecycle, C14 grant)
	Align   bool              `json:"align,omitempty"`   // vote / withdraw address the n-th SUBMIT step (a failed submission has no proposal: the step is skipped)
}

func (p *Plan) allChains() []string {
	out := append([]string{}, p.Chains...)
	if p.Fabric != "" {
		out = append(out, p.Fabric)
	}
	return out
}

func (p *Plan) relays() []*Relay {
	var out []*Relay
	if p.Relay != nil {
		out = append(out, p.Relay)
	}
	if p.Relay2 != nil {
		out = append(out, p.Relay2)
	}
	return out
}

// Relay is another BitXHub: its id and the labels of its registered validators (account "val-<label>")
type Relay struct {
	ID   string   `json:"id"`
	Vals []string `json:"vals"`
}

type runner struct {
	pair         *lockstep.Pair
	plan         *Plan
	out          *os.File
	seq          int
	ids          []string // every ibtp id ever submitted
	idset        map[string]bool
	gids         map[string]bool
	svcs         []string     // local services "chain:svc"
	reps         []*core.Node // extra replicas fed with the very same blocks (C01)
	rrng         *rand.Rand
	nrep         int
	lastProposal string
	pids         []string // proposals created so far (governance scenarios)
	allPids      []string // one entry per submit step ("" if it created no proposal)
	govMode      bool
	diffed       map[int]bool
	ethContract  *types.Address
	ethInBlock   map[string]int // eth transactions of a sender built for the current block (nonce = ledger nonce + that)
}

func digest(res *core.BlockResult) map[string]interface{} {
	h := res.Block.BlockHeader
	rc := []string{}
	for _, r := range res.Receipts {
		evh := sha256.New()
		for _, e := range r.Events {
			b, _ := e.Marshal()
			evh.Write(b)
		}
		rc = append(rc, fmt.Sprintf("%s|%s|%x|%x|%x", r.TxHash.String(), r.Status.String(), sha256.Sum256(r.Ret), evh.Sum(nil), r.Hash().Bytes()))
	}
	meta := ""
	if res.Meta != nil {
		// canonical rendering of the interchain / timeout / multi-tx delivery metadata (order inside a list matters)
		var parts []string
		ks := []string{}
		for k := range res.Meta.Counter {
			ks = append(ks, k)
		}
		sort.Strings(ks)
		for _, k := range ks {
			parts = append(parts, fmt.Sprintf("C:%s=%v", k, res.Meta.Counter[k].Slice))
		}
		ks = ks[:0]
		for k := range res.Meta.TimeoutCounter {
			ks = append(ks, k)
		}
		sort.Strings(ks)
		for _, k := range ks {
			parts = append(parts, fmt.Sprintf("T:%s=%v", k, res.Meta.TimeoutCounter[k].Slice))
		}
		ks = ks[:0]
		for k := range res.Meta.MultiTxCounter {
			ks = append(ks, k)
		}
		sort.Strings(ks)
		for _, k := range ks {
			parts = append(parts, fmt.Sprintf("M:%s=%v", k, res.Meta.MultiTxCounter[k].Slice))
		}
		l2 := []string{}
		for _, x := range res.Meta.TimeoutL2Roots {
			l2 = append(l2, x.String())
		}
		parts = append(parts, "L2:"+strings.Join(l2, ","))
		meta = strings.Join(parts, ";")
	}
	str := func(x *types.Hash) string {
		if x == nil {
			return "nil"
		}
		return x.String()
	}
	return map[string]interface{}{"block": str(res.Block.BlockHash), "state": str(h.StateRoot), "tx": str(h.TxRoot), "receipt": str(h.ReceiptRoot),
		"timeout": str(h.TimeoutRoot), "parent": str(h.ParentHash), "receipts": rc, "meta": meta}
}

// replicate feeds the block that the primary just executed to every replica, with the replica's perturbations
func (r *runner) replicate(txs []pb.Transaction, primary *core.BlockResult) bool {
	if len(r.reps) == 0 {
		return true
	}
	h := int(primary.Block.BlockHeader.Number)
	r.emit(map[string]interface{}{"ev": "Executed", "r": 0, "h": h, "d": digest(primary)})
	for i, rep := range r.reps {
		restart := i == 0 || r.rrng.Intn(4) == 0 // replica 1 restarts before every block
		if restart {
			if err := rep.Restart(); err != nil {
				return false
			}
			r.emit(map[string]interface{}{"ev": "RepRestart", "r": i + 1, "h": int(rep.Height())})
		}
		if i == 1 && len(txs) > 0 { // replica 2 view-executes the block first
			rep.View(txs)
		}
		res, err := rep.ExecBlock(txs, make([]bool, len(txs)), primary.Block.BlockHeader.Timestamp)
		if err != nil {
			r.emit(map[string]interface{}{"ev": "ExecError", "h": h, "cls": "replica", "msg": err.Error(), "height": int(rep.Height())})
			return false
		}
		r.emit(map[string]interface{}{"ev": "Executed", "r": i + 1, "h": h, "d": digest(res)})
		if res.Block.BlockHeader.StateRoot.String() != primary.Block.BlockHeader.StateRoot.String() && !r.diffed[i] && !(i == 2 && len(r.reps) > 2) {
			// first divergence of this replica's state root: which stored entries differ (diagnosis only, not judged)
			r.diffed[i] = true
			pa, pb := r.pair.A.DumpRaw(), rep.DumpRaw()
			keys := []string{}
			for k, v := range pa {
				if w, ok := pb[k]; !ok || string(w) != string(v) {
					keys = append(keys, k)
				}
			}
			for k := range pb {
				if _, ok := pa[k]; !ok {
					keys = append(keys, k)
				}
			}
			sort.Strings(keys)
			if len(keys) > 12 {
				keys = keys[:12]
			}
			det := []map[string]interface{}{}
			for _, k := range keys {
				kind, addr, sk := core.DecodeKey(k)
				det = append(det, map[string]interface{}{"kind": kind, "addr": addr, "key": sk, "primary": fmt.Sprintf("%.80q", pa[k]), "replica": fmt.Sprintf("%.80q", pb[k])})
			}
			r.emit(map[string]interface{}{"ev": "StateDiff", "r": i + 1, "h": h, "keys": det})
		}
	}
	return true
}

func (r *runner) emit(m map[string]interface{}) {
	r.seq++
	m["seq"] = r.seq
	b, err := json.Marshal(m)
	if err != nil {
		panic(err)
	}
	r.out.Write(append(b, '\n'))
	r.out.Sync()
}

func full(n *core.Node, s string) string {
	if strings.Count(s, ":") == 2 {
		return s
	}
	return n.BxhID() + ":" + s
}

var typOf = map[string]pb.IBTP_Type{"REQ": pb.IBTP_INTERCHAIN, "OK": pb.IBTP_RECEIPT_SUCCESS, "FAIL": pb.IBTP_RECEIPT_FAILURE, "RB": pb.IBTP_RECEIPT_ROLLBACK}

func (r *runner) acct(n *core.Node, name string) *core.Account {
	if strings.HasPrefix(name, "@admin") && !strings.HasPrefix(name, "@admin-") {
		var i int
		fmt.Sscanf(name, "@admin%d", &i)
		return n.Admins()[i%len(n.Admins())]
	}
	return n.Account(strings.TrimPrefix(name, "@"))
}

func (r *runner) build(n *core.Node, t Tx) (pb.Transaction, map[string]interface{}) {
	from := r.acct(n, t.From)
	switch t.K {
	case "ibtp":
		src, dst := full(n, t.Src), full(n, t.Dst)
		if strings.HasSuffix(dst, ":@evm") { // a service of the hub itself that is a deployed EVM contract (or nothing, before one is deployed)
			a := "0x0000000000000000000000000000000000000abd"
			if r.ethContract != nil {
				a = r.ethContract.String()
			}
			dst = strings.TrimSuffix(dst, "@evm") + a
		}
		proof := []byte("proof-" + src + dst + fmt.Sprint(t.Idx))
		ibtp := n.NewIBTP(src, dst, t.Idx, typOf[t.Typ], t.T, proof)
		gid := ""
		if len(t.GDst) > 0 {
			g := &pb.StringUint64Map{}
			for i, d := range t.GDst {
				g.Keys = append(g.Keys, full(n, d))
				g.Vals = append(g.Vals, t.GIdx[i])
			}
			ibtp.Group = g
			gid = "G:" + src + "|" + strings.Join(g.Keys, ",") + "|" + fmt.Sprint(g.Vals)
		}
		switch t.Notice {
		case "BF", "RB", "OK":
			st := map[string]pb.TransactionStatus{"BF": pb.TransactionStatus_BEGIN_FAILURE, "RB": pb.TransactionStatus_BEGIN_ROLLBACK, "OK": pb.TransactionStatus_SUCCESS}[t.Notice]
			ibtp.Extra, _ = (&pb.BxhProof{TxStatus: st}).Marshal()
		case "junk":
			ibtp.Extra = []byte{0xff, 0xff, 0xff, 0x01}
		}
		sigs := []map[string]interface{}{}
		if t.Ms {
			bp := &pb.BxhProof{TxStatus: pb.TransactionStatus(t.MsStatus)}
			occ := map[string]int{}
			for _, sp := range t.Sigs {
				who, over := sp, "this"
				if i := strings.Index(sp, "!"); i >= 0 {
					who, over = sp[:i], sp[i+1:]
				}
				if who == "junk" {
					bp.MultiSign = append(bp.MultiSign, []byte("not a signature"))
					sigs = append(sigs, map[string]interface{}{"who": "junk", "over": "junk"})
					continue
				}
				v := *ibtp
				stt := bp.TxStatus
				occ[who+"/"+over]++
				if over == "this" && occ[who+"/this"] == 2 && (int(t.Idx)+len(t.Sigs))%2 == 0 {
					over = "twin" // a repeated signer: now the identical bytes, now the signer's other valid signature
				}
				if over == "twin" { // the same signer's second valid signature over this very message: (r, N-s, v^1)
					sg := core.TwinSignature(core.SignIBTP(n.Account("val-"+who), &v, stt))
					bp.MultiSign = append(bp.MultiSign, sg)
					sigs = append(sigs, map[string]interface{}{"who": who, "over": "this"})
					continue
				}
				switch over {
				case "idx":
					v.Index++
				case "status":
					stt = (stt + 1) % 6
				case "type":
					v.Type = (v.Type + 1) % 4
				case "from":
					v.From = v.From + "x"
				}
				bp.MultiSign = append(bp.MultiSign, core.SignIBTP(n.Account("val-"+who), &v, stt))
				sigs = append(sigs, map[string]interface{}{"who": who, "over": over})
			}
			b, _ := bp.Marshal()
			n.SetProof(ibtp, b, true)
			proof = b
		}
		art := map[string]interface{}{"kind": "none", "idx": 0, "cc": "", "signer": "", "sigok": false, "content": false}
		if t.Art != "" {
			who, what := t.Art, ""
			if i := strings.Index(t.Art, "!"); i >= 0 {
				who, what = t.Art[:i], t.Art[i+1:]
			}
			fa := core.FabricArtifact{Index: t.Idx, Chaincode: "broker", Func: "set", Args: [][]byte{[]byte("key"), []byte(fmt.Sprintf("value-%d", t.Idx))}, Signer: core.Endorser(who)}
			switch what {
			case "idx":
				fa.Index++
			case "cc":
				fa.Chaincode = "mychaincode"
			case "func":
				fa.Func = "get"
			case "sig":
				fa.BadSig = true
			}
			b := core.FabricProof(fa)
			n.SetProof(ibtp, b, true)
			proof = b
			art = map[string]interface{}{"kind": "fabric", "idx": int(fa.Index), "cc": fa.Chaincode, "signer": who, "sigok": !fa.BadSig, "content": fa.Func == "set"}
		}
		if t.Mal != "" {
			bad := []string{"", ":", "chainA", "1356:chainA", "1356:chainA:svc1:x", "::", "1356::svc1", "9999:chainX:", "1356:chainA:svc1\x00", strings.Repeat("a", 5000) + ":b:c", "１３５６:chainA:svc1"}
			pick := bad[(int(t.Idx)+len(t.Src)+len(t.Mal))%len(bad)]
			switch t.Mal {
			case "src":
				ibtp.From = pick
			case "dst":
				ibtp.To = pick
			case "type":
				ibtp.Type = pb.IBTP_Type(7 + int(t.Idx)%3)
			case "payload":
				ibtp.Payload = []byte{0xff, 0x01, 0x02}
			case "nopayload":
				ibtp.Payload = nil
			case "content0": // a bare pb.Content without arguments (what the hub's own broker unpacks when the hub is the destination)
				ibtp.Payload, _ = (&pb.Content{Func: "f"}).Marshal()
			case "content1":
				ibtp.Payload, _ = (&pb.Content{Func: "f", Args: [][]byte{[]byte("x")}}).Marshal()
			case "calldata": // calldata for the storage test contract: stores a word; reverts if the first byte is 0xff
				w := make([]byte, 32)
				w[0], w[31] = []byte{1, 1, 0xff}[int(t.Idx)%3], byte(t.Idx)
				ibtp.Payload, _ = (&pb.Content{Func: "f", Args: [][]byte{w}}).Marshal()
			case "group":
				ibtp.Group = &pb.StringUint64Map{Keys: []string{dst, "x"}, Vals: []uint64{1}}
			}
		}
		var tx pb.Transaction
		switch t.Proof {
		case "bad":
			tx = n.IBTPTxWithProof(from, ibtp, append([]byte("another proof"), proof...))
		case "none":
			tx = n.IBTPTxWithProof(from, ibtp, nil)
		default:
			tx = n.IBTPTx(from, ibtp)
		}
		id := fmt.Sprintf("%s-%s-%d", src, dst, t.Idx)
		if !r.idset[id] {
			r.idset[id] = true
			r.ids = append(r.ids, id)
		}
		srcLocal := strings.HasPrefix(src, n.BxhID()+":")
		dstLocal := strings.HasPrefix(dst, n.BxhID()+":")
		kk := "ibtp"
		if t.Mal != "" && t.Mal != "payload" && t.Mal != "nopayload" && t.Mal != "content0" && t.Mal != "content1" && t.Mal != "calldata" { // (the payload is opaque to the hub: such an IBTP is an ordinary one)
			kk = "ibtpmal" // judged by the generic block formulas only (C08 alive, C07 no effect when failed, C02 delivery)
		}
		d := map[string]interface{}{"k": kk, "from": from.Addr.String(), "to": tx.GetTo().String(), "cls": "ibtp", "badsig": false, "m": t.Mal,
			"amtKind": "none", "amtNum": 0, "amt": "",
			"src": src, "dst": dst, "idx": int(t.Idx), "typ": t.Typ, "T": tOf(t.T), "proofok": t.Proof == "" || t.Proof == "ok", "id": id,
			"gid": gid, "gcount": len(t.GDst), "srcLocal": srcLocal, "dstLocal": dstLocal,
			"srcChain": chainOf(src), "dstChain": chainOf(dst),
			"srcBxh": strings.Split(src, ":")[0], "dstBxh": strings.Split(dst, ":")[0], "hashok": t.Proof == "" || t.Proof == "ok",
			"ms": t.Ms, "sigs": sigs, "notice": t.Notice, "art": art}
		return tx, d
	case "eth": // Ethereum-style transaction executed by the EVM: m = transfer | create | store | lowgas
		var to *types.Address
		var data []byte
		gas := uint64(100000)
		val := big.NewInt(0)
		switch t.M {
		case "create":
			data, gas = core.StoreContractInit, 200000
			r.ethContract = types.NewAddress(ethcrypto.CreateAddress(common.BytesToAddress(from.Addr.Bytes()), n.LedgerNonce(from.Addr)).Bytes())
		case "store":
			to = r.ethContract
			if to == nil {
				to = n.Account("nocontract").Addr
			}
			data = make([]byte, 32)
			data[0], data[31] = 1, byte(len(r.ids)+1)
		case "lowgas":
			to, gas, val = n.Account("u2").Addr, 20000, big.NewInt(1)
		default:
			to, gas, val = n.Account("u2").Addr, 21000, big.NewInt(3)
		}
		tx := n.EthTxNonce(from, to, val, gas, 1, data, n.LedgerNonce(from.Addr)+uint64(r.ethInBlock[from.Addr.String()]))
		if t.M != "lowgas" {
			r.ethInBlock[from.Addr.String()]++
		}
		tos := "nil"
		if to != nil {
			tos = to.String()
		}
		return tx, map[string]interface{}{"k": "eth", "from": from.Addr.String(), "to": tos, "cls": "eth", "badsig": false, "m": t.M,
			"amtKind": "none", "amtNum": 0, "amt": ""}
	case "transfer":
		tx := n.TransferTx(from, n.Account(t.Dst).Addr, "7")
		if bx, ok := tx.(*pb.BxhTransaction); ok && t.BadSig {
			sig := append([]byte{}, bx.Signature...)
			sig[len(sig)/2] ^= 0x55
			bx.Signature = sig
			bx.TransactionHash = bx.Hash()
		}
		return tx, map[string]interface{}{"k": "transfer", "from": from.Addr.String(), "to": n.Account(t.Dst).Addr.String(), "cls": "transfer", "badsig": t.BadSig, "m": "",
			"amtKind": "num", "amtNum": 7, "amt": "7"}
	default: // direct invocation of a contract method with string args
		var args []*pb.Arg
		for _, a := range t.Args {
			switch {
			case strings.HasPrefix(a, "u64:"):
				v, _ := strconv.ParseUint(a[4:], 10, 64)
				args = append(args, pb.Uint64(v))
			case strings.HasPrefix(a, "bool:"):
				args = append(args, pb.Bool(a[5:] == "true"))
			case strings.HasPrefix(a, "i32:"):
				v, _ := strconv.Atoi(a[4:])
				args = append(args, pb.Int32(int32(v)))
			case strings.HasPrefix(a, "f64:"):
				args = append(args, &pb.Arg{Type: pb.Arg_F64, Value: []byte(a[4:])})
			case strings.HasPrefix(a, "i64:"):
				args = append(args, &pb.Arg{Type: pb.Arg_I64, Value: []byte(a[4:])})
			case strings.HasPrefix(a, "bytes:"):
				args = append(args, pb.Bytes([]byte(a[6:])))
			case strings.HasPrefix(a, "bxhproof:"): // a well-formed proof of another BitXHub carrying a transaction status
				v, _ := strconv.Atoi(a[9:])
				b, _ := (&pb.BxhProof{TxStatus: pb.TransactionStatus(v)}).Marshal()
				args = append(args, pb.Bytes(b))
			case strings.HasPrefix(a, "ibtpbytes:"): // a well-formed marshalled IBTP chainA:svc1 -> chainB:svc1
				v, _ := strconv.Atoi(a[10:])
				ib := n.NewIBTP(full(n, "chainA:svc1"), full(n, "chainB:svc1"), uint64(v), pb.IBTP_INTERCHAIN, 0, []byte("p"))
				b, _ := ib.Marshal()
				args = append(args, pb.Bytes(b))
			case strings.HasPrefix(a, "svc:"):
				x := a[4:]
				if i := strings.Index(x, "-"); i > 0 { // ibtp id "<svc>-<full dst>-<idx>"
					args = append(args, pb.String(full(n, x[:i])+x[i:]))
				} else {
					args = append(args, pb.String(full(n, x)))
				}
			case a == "@proposal":
				args = append(args, pb.String(r.lastProposal))
			case strings.HasPrefix(a, "@"):
				args = append(args, pb.String(r.acct(n, a).Addr.String()))
			default:
				args = append(args, pb.String(a))
			}
		}
		addr := lockstep.ContractsByName[t.C].Address()
		tx := n.InvokeTx(from, addr, t.M, args...)
		cls := "direct"
		if t.Role != "" {
			cls = "surface"
		}
		return tx, map[string]interface{}{"k": "invoke", "from": from.Addr.String(), "to": addr.String(), "cls": cls, "badsig": false, "m": t.M, "c": t.C,
			"role": t.Role, "promoted": t.Promoted, "aim": t.Aim, "amtKind": "none", "amtNum": 0, "amt": ""}
	}
}

func ruleName(addr string) string {
	switch addr {
	case "0x00000000000000000000000000000000000000a2":
		return "happy"
	case "0x00000000000000000000000000000000000000a1":
		return "simfabric"
	case "0x00000000000000000000000000000000000000a0":
		return "fabric"
	}
	return addr
}

// the model's integers are 32 bit: timeouts beyond that are "huge" (-1 in the trace)
func tOf(t int64) int {
	if t < 0 || t > 1<<20 {
		return -1
	}
	return int(t)
}

func chainOf(fullID string) string {
	p := strings.Split(fullID, ":")
	if len(p) != 3 {
		return ""
	}
	return p[1]
}

var statusName = map[string]string{"0": "BEGIN", "1": "BEGIN_FAILURE", "2": "BEGIN_ROLLBACK", "3": "SUCCESS", "4": "FAILURE", "5": "ROLLBACK"}

func (r *runner) observe(n *core.Node, res *core.BlockResult) map[string]interface{} {
	type m = map[string]interface{}
	// counters of every local service and of every remote source seen
	ctr := []m{}
	ics := map[string]bool{}
	for _, s := range r.svcs {
		ics[full(n, s)] = true
	}
	for _, id := range r.ids {
		p := strings.Split(id, "-")
		ics[p[0]] = true
		ics[p[1]] = true
	}
	names := []string{}
	for s := range ics {
		names = append(names, s)
	}
	sort.Strings(names)
	for _, s := range names {
		ic := n.GetInterchain(s)
		if ic == nil {
			continue
		}
		add := func(kind string, mm map[string]uint64) {
			ks := []string{}
			for k := range mm {
				ks = append(ks, k)
			}
			sort.Strings(ks)
			for _, k := range ks {
				ctr = append(ctr, m{"s": s, "d": k, "kind": kind, "n": int(mm[k])})
			}
		}
		add("ic", ic.InterchainCounter)
		add("rc", ic.ReceiptCounter)
		add("sic", ic.SourceInterchainCounter)
		add("src", ic.SourceReceiptCounter)
	}
	// the hub's own broker: requests handed to services of the hub itself, per (source, destination)
	if rc := n.Query(constant.InterBrokerContractAddr.Address(), "GetInMeta"); rc != nil && rc.Status == pb.Receipt_SUCCESS {
		in := map[string]uint64{}
		if json.Unmarshal(rc.Ret, &in) == nil {
			ks := []string{}
			for k := range in {
				ks = append(ks, k)
			}
			sort.Strings(ks)
			for _, k := range ks {
				if i := strings.Index(k, "-"); i > 0 {
					ctr = append(ctr, m{"s": k[:i], "d": k[i+1:], "kind": "bin", "n": int(in[k])})
				}
			}
		}
	}
	// statuses
	st := []m{}
	for _, id := range r.ids {
		s := n.GetStatus(id)
		if v, ok := statusName[s]; ok {
			s = v
		} else if s == "" {
			s = "NONE"
		}
		st = append(st, m{"id": id, "st": s})
	}
	// group records straight from the state store
	groups := []m{}
	for k, v := range n.DumpRaw() {
		kind, addr, sk := core.DecodeKey(k)
		if kind == "state" && strings.EqualFold(addr, constant.TransactionMgrContractAddr.Address().String()) && strings.HasPrefix(sk, "global-tx-") {
			ti := contracts.TransactionInfo{}
			if err := json.Unmarshal(v, &ti); err != nil {
				continue
			}
			kids := []m{}
			ks := []string{}
			for c := range ti.ChildTxInfo {
				ks = append(ks, c)
			}
			sort.Strings(ks)
			for _, c := range ks {
				kids = append(kids, m{"id": c, "st": statusName[fmt.Sprint(int(ti.ChildTxInfo[c]))]})
			}
			groups = append(groups, m{"gkey": sk[len("global-tx-"):], "state": statusName[fmt.Sprint(int(ti.GlobalState))], "kids": kids, "count": int(ti.ChildTxCount)})
		}
	}
	sort.Slice(groups, func(i, j int) bool { return groups[i]["gkey"].(string) < groups[j]["gkey"].(string) })
	lists := func(mm map[string]*pb.StringSlice) []m {
		out := []m{}
		ks := []string{}
		for k := range mm {
			ks = append(ks, k)
		}
		sort.Strings(ks)
		for _, k := range ks {
			out = append(out, m{"chain": k, "ids": append([]string{}, mm[k].Slice...)})
		}
		return out
	}
	tm, mmeta := []m{}, []m{}
	if res != nil && res.Meta != nil {
		tm, mmeta = lists(res.Meta.TimeoutCounter), lists(res.Meta.MultiTxCounter)
	}
	sv := []m{}
	for _, s := range r.svcs {
		sv = append(sv, m{"svc": full(n, s), "st": n.ServiceStatus(s), "chainOf": strings.Split(s, ":")[0]})
	}
	ch := []m{}
	for _, c := range r.plan.allChains() {
		ch = append(ch, m{"chain": c, "st": n.AppchainStatus(c)})
	}
	relay := []m{}
	label := map[string]string{}
	for _, l := range []string{"v0", "v1", "v2", "v3", "v4", "v5", "v6", "w0", "w1", "w2", "w3", "x0", "x1", "x2"} {
		label[n.Account("val-"+l).Addr.String()] = l
	}
	for _, rl := range r.plan.relays() {
		stt, addrs, found := n.AppchainTrustRoot(rl.ID)
		vals := []string{}
		for _, a := range addrs {
			if l, ok := label[a]; ok {
				vals = append(vals, l)
			} else {
				vals = append(vals, "?"+a)
			}
		}
		if found {
			relay = append(relay, m{"bxh": rl.ID, "st": stt, "vals": vals, "n": len(addrs)})
		}
	}
	// the validation rules stored for every registered appchain: which one (if any) is bound (status available)
	rules, rall := []m{}, []m{}
	for _, c := range r.plan.allChains() {
		rc := n.Query(constant.RuleManagerContractAddr.Address(), "Rules", pb.String(c))
		var rl []struct {
			Address string `json:"address"`
			Master  bool   `json:"master"`
			Status  string `json:"status"`
		}
		bound, unbinding := "", ""
		if rc != nil && rc.Status == pb.Receipt_SUCCESS && json.Unmarshal(rc.Ret, &rl) == nil {
			for _, x := range rl {
				rall = append(rall, m{"a": c + "/" + ruleName(x.Address), "st": x.Status})
				if x.Status == "available" && bound == "" {
					bound = ruleName(x.Address)
				}
				if x.Status == "unbinding" && unbinding == "" {
					unbinding = ruleName(x.Address)
				}
			}
		}
		rules = append(rules, m{"chain": c, "bound": bound, "unbinding": unbinding, "cert": core.EndorserLabelOf(n.AppchainRawTrustRoot(c))})
	}
	rlist, nlist := []m{}, []m{}
	if r.plan.Roles {
		accts := append([]*core.Account{}, n.Admins()...)
		for _, nm := range []string{"newadmin1", "newadmin2", "aud1", "aud2"} {
			accts = append(accts, n.Account(nm))
		}
		for _, a := range accts {
			rc := n.Query(constant.RoleContractAddr.Address(), "GetRoleInfoById", pb.String(a.Addr.String()))
			ro := contracts.Role{}
			stt, typ := "", ""
			if rc != nil && rc.Status == pb.Receipt_SUCCESS && json.Unmarshal(rc.Ret, &ro) == nil {
				stt, typ = string(ro.Status), string(ro.RoleType)
			}
			rlist = append(rlist, m{"a": a.Addr.String(), "st": stt, "typ": typ})
		}
		for _, nm := range []string{"nvp1", "nvp2", "vp1", "nvp3"} {
			rc := n.Query(constant.NodeManagerContractAddr.Address(), "GetNode", pb.String(n.Account(nm).Addr.String()))
			var nd struct {
				Status string `json:"status"`
			}
			stt := ""
			if rc != nil && rc.Status == pb.Receipt_SUCCESS && json.Unmarshal(rc.Ret, &nd) == nil {
				stt = nd.Status
			}
			nlist = append(nlist, m{"a": n.Account(nm).Addr.String(), "st": stt})
		}
	}
	out := m{"counters": ctr, "status": st, "groups": groups, "tmeta": tm, "mmeta": mmeta, "svc": sv, "chains": ch, "relay": relay, "rules": rules,
		"rlist": rlist, "nlist": nlist, "rall": rall}
	// the router's view: what every pier is sent for this block (live feed) and gets for this height (query)
	route, routeErr := []m{}, ""
	if res != nil && res.Block != nil {
		ps := map[string]bool{contracts.DEFAULT_UNION_PIER_ID: true, n.BxhID(): true}
		for _, c := range r.plan.allChains() {
			ps[c] = true
		}
		if res.Meta != nil {
			for k := range res.Meta.Counter {
				ps[k] = true
			}
			for k := range res.Meta.TimeoutCounter {
				ps[k] = true
			}
			for k := range res.Meta.MultiTxCounter {
				ps[k] = true
			}
		}
		piers := []string{}
		for k := range ps {
			piers = append(piers, k)
		}
		sort.Strings(piers)
		live, query, err := n.Route(res, piers)
		if err != nil {
			routeErr = err.Error()
		} else {
			for _, p := range piers {
				route = append(route, m{"pier": p, "live": live[p], "query": query[p]})
			}
		}
	}
	out["route"], out["routeErr"] = route, routeErr
	// the callers every registered service refuses, as stored now (a permission update takes effect at once)
	black := []m{}
	for _, sv := range r.svcs {
		for _, b := range n.ServiceBlacklist(sv) {
			black = append(black, m{"svc": full(n, sv), "src": b})
		}
	}
	out["black"] = black
	if r.govMode {
		props := []m{}
		for _, pid := range r.pids {
			rc := n.Query(constant.GovernanceContractAddr.Address(), "GetProposal", pb.String(pid))
			pr := contracts.Proposal{}
			if rc == nil || rc.Status != pb.Receipt_SUCCESS || json.Unmarshal(rc.Ret, &pr) != nil {
				props = append(props, m{"pid": pid, "found": false, "status": "missing", "approve": 0, "against": 0, "voters": []m{}, "elect": []string{}, "initial": 0, "avail": 0,
					"expr": "", "special": false, "superVoted": false, "endReason": "", "obj": "", "event": "", "typ": ""})
				continue
			}
			voters := []m{}
			vs := []string{}
			for a := range pr.BallotMap {
				vs = append(vs, a)
			}
			sort.Strings(vs)
			for _, a := range vs {
				voters = append(voters, m{"a": a, "b": pr.BallotMap[a].Approve})
			}
			el := []string{}
			for _, e := range pr.ElectorateList {
				el = append(el, e.ID)
			}
			sort.Strings(el)
			props = append(props, m{"pid": pid, "found": true, "status": string(pr.Status), "approve": int(pr.ApproveNum), "against": int(pr.AgainstNum), "voters": voters, "elect": el,
				"initial": int(pr.InitialElectorateNum), "avail": int(pr.AvailableElectorateNum), "expr": strings.Replace(pr.StrategyExpression, " ", "", -1), "special": pr.IsSpecial,
				"superVoted": pr.IsSuperAdminVoted, "endReason": string(pr.EndReason), "obj": pr.ObjId, "event": string(pr.EventType), "typ": string(pr.Typ)})
		}
		roles := []m{}
		accts := append([]*core.Account{}, n.Admins()...)
		accts = append(accts, n.Account("newadmin1"), n.Account("newadmin2"))
		for i, a := range accts {
			rc := n.Query(constant.RoleContractAddr.Address(), "GetRoleInfoById", pb.String(a.Addr.String()))
			ro := contracts.Role{}
			stt := "none"
			w := 0
			if rc != nil && rc.Status == pb.Receipt_SUCCESS && json.Unmarshal(rc.Ret, &ro) == nil {
				stt, w = string(ro.Status), int(ro.Weight)
			}
			roles = append(roles, m{"a": a.Addr.String(), "st": stt, "w": w, "i": i})
		}
		out["props"], out["roles"] = props, roles
	}
	return out
}

func (r *runner) execBlock(txs []pb.Transaction, descs []map[string]interface{}) bool {
	r.emit(map[string]interface{}{"ev": "Submit", "h": int(r.pair.A.Height() + 1), "n": len(txs)})
	ev, res := r.pair.Exec(txs, descs, 0)
	if res != nil {
		for k, v := range r.observe(r.pair.A, res) {
			ev[k] = v
		}
	}
	r.emit(ev)
	if res == nil {
		return false
	}
	return r.replicate(txs, res)
}

func (r *runner) gov(st Step) bool {
	a := r.pair.A
	var from *core.Account
	var contract *types.Address
	if strings.HasSuffix(st.M, "Service") {
		contract = constant.ServiceMgrContractAddr.Address()
	} else {
		contract = constant.AppchainMgrContractAddr.Address()
	}
	chain := strings.Split(st.Obj, ":")[0]
	if strings.HasPrefix(st.M, "Freeze") {
		from = a.Admins()[0]
	} else {
		from = a.Account("admin-" + chain)
	}
	tx := a.InvokeTx(from, contract, st.M, pb.String(st.Obj), pb.String("reason"))
	if st.M == "UpdateMasterRule" { // the appchain admin proposes another master rule (st.Args[0]: happy | simfabric | fabric)
		a.SetNonce(from.Addr, a.NextNonce(from.Addr)-1)
		addr := map[string]string{"happy": "0x00000000000000000000000000000000000000a2", "simfabric": "0x00000000000000000000000000000000000000a1", "fabric": "0x00000000000000000000000000000000000000a0"}[st.Args[0]]
		contract = constant.RuleManagerContractAddr.Address()
		tx = a.InvokeTx(from, contract, "UpdateMasterRule", pb.String(st.Obj), pb.String(addr), pb.String("reason"))
	}
	if st.M == "UpdateRelay" { // the relay chain's admin replaces its validator set (trust root)
		a.SetNonce(from.Addr, a.NextNonce(from.Addr)-1) // the transaction above is discarded
		var vals []*types.Address
		for _, l := range st.Args {
			vals = append(vals, a.Account("val-"+l).Addr)
		}
		tx = a.UpdateTrustRootTx(from, st.Obj, vals)
	}
	d := map[string]interface{}{"k": "gov", "from": from.Addr.String(), "to": contract.String(), "cls": "gov", "badsig": false, "m": st.M, "amtKind": "none", "amtNum": 0, "amt": "", "obj": st.Obj}
	r.emit(map[string]interface{}{"ev": "Submit", "h": int(a.Height() + 1), "n": 1})
	ev, res := r.pair.Exec([]pb.Transaction{tx}, []map[string]interface{}{d}, 0)
	if res != nil {
		for k, v := range r.observe(a, res) {
			ev[k] = v
		}
	}
	r.emit(ev)
	if res == nil || !r.replicate([]pb.Transaction{tx}, res) {
		return false
	}
	if res.Receipts[0].Status != pb.Receipt_SUCCESS {
		return true
	}
	pid := a.ProposalIDOf(res.Receipts[0])
	r.lastProposal = pid
	if st.N == -1 {
		return true
	}
	for i := 0; i < len(a.Admins()); i++ {
		if s := a.ProposalStatus(pid); s != "proposed" && s != "" {
			break
		}
		v := "approve"
		if !st.Ok {
			v = "reject"
		}
		vt := a.InvokeTx(a.Admins()[i], constant.GovernanceContractAddr.Address(), "Vote", pb.String(pid), pb.String(v), pb.String("r"))
		vd := map[string]interface{}{"k": "vote", "from": a.Admins()[i].Addr.String(), "to": constant.GovernanceContractAddr.Address().String(), "cls": "vote", "badsig": false, "m": "Vote", "amtKind": "none", "amtNum": 0, "amt": ""}
		if !r.execBlock([]pb.Transaction{vt}, []map[string]interface{}{vd}) {
			return false
		}
	}
	return true
}

func (r *runner) run(dir string) {
	p := r.plan
	opt := core.Options{NumAdmins: 4, Balance: "100000000", GasPrice: 1, EnableAudit: p.Audit, Seed: p.Seed, Quiet: true, ProofType: p.Proof}
	if p.FreeGas {
		opt.GasPrice = -1
	}
	pair, err := lockstep.New(opt, dir)
	if err != nil {
		panic(err)
	}
	r.pair = pair
	defer pair.Close()
	r.idset, r.gids, r.diffed, r.ethInBlock = map[string]bool{}, map[string]bool{}, map[int]bool{}, map[string]int{}
	r.govMode = p.GovMode
	unord := map[string]bool{}
	for _, s := range p.Unord {
		unord[s] = true
	}
	for _, c := range p.Chains {
		for k := 1; k <= p.NSvc; k++ {
			r.svcs = append(r.svcs, fmt.Sprintf("%s:svc%d", c, k))
		}
	}
	if p.Fabric != "" {
		r.svcs = append(r.svcs, p.Fabric+":svc1")
	}
	setup := func(n *core.Node) error {
		for _, u := range []string{"u1", "u2", "u3", "e1"} {
			if _, err := n.Fund(n.Account(u).Addr, "6000000"); err != nil {
				return err
			}
		}
		if _, err := n.Fund(n.Account("thin").Addr, "250000"); err != nil { // pays for one call (210000), not for two
			return err
		}
		for _, c := range p.Chains {
			adm := n.Account("admin-" + c)
			if _, err := n.Fund(adm.Addr, "3000000"); err != nil {
				return err
			}
			if _, err := n.RegisterAppchain(adm, c); err != nil {
				return err
			}
			for k := 1; k <= p.NSvc; k++ {
				s := fmt.Sprintf("%s:svc%d", c, k)
				if _, err := n.RegisterService(adm, c, fmt.Sprintf("svc%d", k), !unord[s], p.Black[s]); err != nil {
					return err
				}
			}
		}
		if p.Fabric != "" {
			adm := n.Account("admin-" + p.Fabric)
			if _, err := n.Fund(adm.Addr, "3000000"); err != nil {
				return err
			}
			if _, err := n.RegisterFabricAppchain(adm, p.Fabric, core.Endorser("c0")); err != nil {
				return err
			}
			if _, err := n.RegisterService(adm, p.Fabric, "svc1", true, ""); err != nil {
				return err
			}
		}
		for _, rl := range p.relays() {
			adm := n.Account("admin-" + rl.ID)
			if _, err := n.Fund(adm.Addr, "3000000"); err != nil {
				return err
			}
			var vals []*types.Address
			for _, l := range rl.Vals {
				vals = append(vals, n.Account("val-"+l).Addr)
			}
			if _, err := n.RegisterRelayChain(adm, rl.ID, vals); err != nil {
				return err
			}
		}
		return nil
	}
	if err := pair.Both(setup); err != nil {
		panic(err)
	}
	r.rrng = rand.New(rand.NewSource(p.Seed*977 + int64(len(p.Steps))))
	genesisRestart := []int{}
	setupFailed := []map[string]interface{}{}
	for i := 0; i < r.nrep; i++ {
		o := opt
		o.Dir = fmt.Sprintf("%s/r%d", dir, i+1)
		o.ProofType = []string{"parallel", "serial"}[i%2]
		rep, err := core.NewNode(o)
		if err != nil {
			panic(err)
		}
		defer rep.Close()
		if i == 2 { // replica 3: stop / reopen right after genesis, before any block
			if err := rep.Restart(); err != nil {
				return
			}
			genesisRestart = append(genesisRestart, i+1)
		}
		if err := setup(rep); err != nil {
			// the primary completed the very same setup: the replica computed something else
			setupFailed = append(setupFailed, map[string]interface{}{"ev": "ReplicaDiverged", "r": i + 1, "h": int(rep.Height()), "msg": err.Error(),
				"genesisRestart": i == 2})
			continue
		}
		r.reps = append(r.reps, rep)
	}
	a := pair.A
	admins := []string{}
	for _, ad := range a.Admins() {
		admins = append(admins, ad.Addr.String())
	}
	svcs := []string{}
	for _, s := range r.svcs {
		svcs = append(svcs, full(a, s))
	}
	if p.Unord == nil {
		p.Unord = []string{}
	}
	bal0, _, _ := lockstep.Balances(a)
	black := []map[string]interface{}{}
	for sv, srcs := range p.Black {
		for _, b := range strings.Split(srcs, ",") {
			if b != "" {
				black = append(black, map[string]interface{}{"svc": full(a, sv), "src": b})
			}
		}
	}
	sort.Slice(black, func(i, j int) bool { return fmt.Sprint(black[i]) < fmt.Sprint(black[j]) })
	init := map[string]interface{}{"ev": "Init", "black": black, "name": p.Name, "admins": admins, "nadmins": 4, "h": int(a.Height()), "bal": bal0, "grant": 100000000,
		"setupEqual": pair.SetupEqual(), "bxh": a.BxhID(), "svcs": svcs, "unordered": p.Unord, "audit": p.Audit,
		"replicas": len(r.reps), "genesisRestart": genesisRestart}
	for k, v := range r.observe(a, nil) {
		init[k] = v
	}
	r.emit(init)
	for _, e := range setupFailed {
		r.emit(e)
	}
	for _, st := range p.Steps {
		switch st.Step {
		case "block":
			var txs []pb.Transaction
			var descs []map[string]interface{}
			r.ethInBlock = map[string]int{}
			for _, t := range st.Txs {
				if t.From == "" {
					t.From = "u1"
				}
				tx, d := r.build(a, t)
				txs = append(txs, tx)
				descs = append(descs, d)
			}
			if !r.execBlock(txs, descs) {
				return
			}
		case "empty":
			for i := 0; i < st.N; i++ {
				if !r.execBlock(nil, []map[string]interface{}{}) {
					return
				}
			}
		case "gov":
			if !r.gov(st) {
				return
			}
		case "submit": // a governance operation submitted by `By` with explicit arguments (one transaction, one block)
			var from *core.Account = r.acct(a, st.By)
			var args []*pb.Arg
			for _, x := range st.Args {
				switch {
				case strings.HasPrefix(x, "@"):
					args = append(args, pb.String(r.acct(a, x).Addr.String()))
				case strings.HasPrefix(x, "u64:"):
					v, _ := strconv.ParseUint(x[4:], 10, 64)
					args = append(args, pb.Uint64(v))
				case strings.HasPrefix(x, "bytes:"):
					args = append(args, pb.Bytes([]byte(x[6:])))
				default:
					args = append(args, pb.String(x))
				}
			}
			cname := map[string]string{"Service": "service", "Appchain": "appchain", "Role": "role", "Strategy": "strategy", "Node": "node"}
			c := "service"
			for suf, cn := range cname {
				if strings.Contains(st.M, suf) {
					c = cn
				}
			}
			if st.M == "RegisterService" && len(st.Args) >= 2 {
				r.svcs = append(r.svcs, st.Args[0]+":"+st.Args[1])
			}
			tx := a.InvokeTx(from, lockstep.ContractsByName[c].Address(), st.M, args...)
			d := map[string]interface{}{"k": "gov", "from": from.Addr.String(), "to": tx.GetTo().String(), "cls": "gov", "badsig": false, "m": st.M, "amtKind": "none", "amtNum": 0, "amt": "", "obj": st.Obj, "pid": ""}
			r.emit(map[string]interface{}{"ev": "Submit", "h": int(a.Height() + 1), "n": 1})
			ev, res := r.pair.Exec([]pb.Transaction{tx}, []map[string]interface{}{d}, 0)
			got := ""
			if res != nil && res.Receipts[0].Status == pb.Receipt_SUCCESS {
				if pid := a.ProposalIDOf(res.Receipts[0]); pid != "" {
					r.pids = append(r.pids, pid)
					d["pid"] = pid
					got = pid
				}
			}
			r.allPids = append(r.allPids, got)
			if res != nil {
				for k, v := range r.observe(a, res) {
					ev[k] = v
				}
			}
			r.emit(ev)
			if res == nil || !r.replicate([]pb.Transaction{tx}, res) {
				return
			}
		case "vote", "withdraw":
			if len(r.pids) == 0 {
				continue
			}
			pid := r.pids[st.Pid%len(r.pids)]
			if p.Align {
				if st.Pid >= len(r.allPids) || r.allPids[st.Pid] == "" {
					continue
				}
				pid = r.allPids[st.Pid]
			}
			from := r.acct(a, st.By)
			var tx pb.Transaction
			if st.Step == "vote" {
				tx = a.InvokeTx(from, constant.GovernanceContractAddr.Address(), "Vote", pb.String(pid), pb.String(st.Ballot), pb.String("r"))
			} else {
				tx = a.InvokeTx(from, constant.GovernanceContractAddr.Address(), "WithdrawProposal", pb.String(pid), pb.String("r"))
			}
			d := map[string]interface{}{"k": st.Step, "from": from.Addr.String(), "to": tx.GetTo().String(), "cls": st.Step, "badsig": false, "m": st.Step, "amtKind": "none", "amtNum": 0, "amt": "",
				"pid": pid, "ballot": st.Ballot}
			if !r.execBlock([]pb.Transaction{tx}, []map[string]interface{}{d}) {
				return
			}
		case "open":
			st2 := st
			st2.N = -1 // submit only
			if !r.gov(st2) {
				return
			}
		case "restart":
			if err := a.Restart(); err != nil {
				return
			}
			r.emit(map[string]interface{}{"ev": "Restart", "h": int(a.Height())})
		}
	}
}

// ---------------------------------------------------------------------------------------------
// random scenario generator
// ---------------------------------------------------------------------------------------------
// sender of a transaction: mostly one of the funded users, now and then an account that can pay for exactly one
// call ("thin") or for none ("pauper")
func sender(rng *rand.Rand) string {
	switch rng.Intn(16) {
	case 0:
		return "pauper"
	case 1:
		return "thin"
	}
	return []string{"u1", "u2", "u3"}[rng.Intn(3)]
}

func genPlan(rng *rand.Rand, name string, mode string) *Plan {
	p := &Plan{Name: name, Audit: rng.Intn(3) == 0, Seed: 1 + rng.Int63n(2), Proof: []string{"serial", "parallel"}[rng.Intn(2)],
		Chains: []string{"chainA", "chainB"}, NSvc: 1 + rng.Intn(2), Black: map[string]string{}}
	if mode == "group" || rng.Intn(3) == 0 {
		p.Chains = append(p.Chains, "chainC")
	}
	var svcs []string
	for _, c := range p.Chains {
		for k := 1; k <= p.NSvc; k++ {
			svcs = append(svcs, fmt.Sprintf("%s:svc%d", c, k))
		}
	}
	if rng.Intn(5) == 0 { // one service is registered as unordered ("batch"): no index check towards it, batch receipts from it
		p.Unord = []string{svcs[rng.Intn(len(svcs))]}
	}
	if rng.Intn(4) == 0 { // one service does not let one of the others call it (its requests must begin failed)
		i, j := rng.Intn(len(svcs)), rng.Intn(len(svcs))
		if i > j {
			i, j = j, i
		}
		if i != j { // the blocked service has to be registered before the one that blocks it
			p.Black[svcs[j]] = "1356:" + svcs[i]
		}
	}
	next := map[string]uint64{}  // next request index per pair (generator's own bookkeeping, not an oracle)
	nextR := map[string]uint64{} // next receipt index per pair
	if mode == "group" && len(p.Unord) == 0 && len(p.Black) == 0 && rng.Intn(4) == 0 {
		// a one-to-many transaction whose last receipt arrives in the very block at whose end a one-to-one request of the same
		// source chain expires: that chain's pier is owed a timeout list and a multi-tx list in one wrapper
		s, d1, d2 := "chainA:svc1", "chainB:svc1", "chainC:svc1"
		g, gi := []string{d1, d2}, []uint64{1, 1}
		last := []string{"OK", "OK", "FAIL"}[rng.Intn(3)]
		p.Steps = append(p.Steps,
			Step{Step: "block", Txs: []Tx{{K: "ibtp", Src: s, Dst: d1, Idx: 1, Typ: "REQ", Proof: "ok", GDst: g, GIdx: gi, From: "u1"},
				{K: "ibtp", Src: s, Dst: d2, Idx: 1, Typ: "REQ", Proof: "ok", GDst: g, GIdx: gi, From: "u1"}}},
			Step{Step: "block", Txs: []Tx{{K: "ibtp", Src: s, Dst: d1, Idx: 2, Typ: "REQ", T: 2, Proof: "ok", From: "u1"}}},
			Step{Step: "block", Txs: []Tx{{K: "ibtp", Src: s, Dst: d1, Idx: 1, Typ: "OK", Proof: "ok", From: "u2"}}},
			Step{Step: "block", Txs: []Tx{{K: "ibtp", Src: s, Dst: d2, Idx: 1, Typ: last, Proof: "ok", From: "u2"}}})
		next[s+">"+d1], nextR[s+">"+d1] = 3, 2
		next[s+">"+d2], nextR[s+">"+d2] = 2, 2
	}
	pick := func() (string, string) {
		for {
			s, d := svcs[rng.Intn(len(svcs))], svcs[rng.Intn(len(svcs))]
			if rng.Intn(12) == 0 {
				d = "chainZ:svc9" // unregistered destination
			}
			if rng.Intn(25) == 0 {
				s = "chainZ:svc9" // unregistered source
			}
			if rng.Intn(14) == 0 {
				d = "1356:0x0000000000000000000000000000000000000abc" // a service of the hub itself: executed by the hub's own broker
				if rng.Intn(2) == 0 {
					d = "1356:@evm" // ... the EVM contract deployed earlier in the scenario, if any
				}
			}
			if len(p.Unord) > 0 && rng.Intn(3) == 0 {
				d = p.Unord[0]
			}
			if s != d || rng.Intn(6) == 0 {
				return s, d
			}
		}
	}
	idxAround := func(n uint64) uint64 {
		switch rng.Intn(24) {
		case 0:
			return 0
		case 1:
			if n > 1 {
				return n - 1
			}
			return n
		case 2:
			return n + 1
		case 3:
			return 1 << 62
		}
		return n
	}
	timeouts := []int64{0, 1, 1, 2, 2, 3, 9223372036854775807, 1 << 62}
	type pend struct {
		s, d string
		idx  uint64
	}
	var sentU []Tx     // requests sent to the unordered service (replayed later)
	var groupKids []Tx // children of declared groups not yet sent
	var groupRcpt []Tx // receipts of group children not yet sent
	nsteps := 8 + rng.Intn(14)
	for i := 0; i < nsteps; i++ {
		c := rng.Intn(20)
		if (mode == "group" || rng.Intn(4) == 0) && rng.Intn(3) == 0 && len(p.Chains) > 2 {
			// declare a one-to-many transaction: one source, 2-3 destinations
			src := svcs[rng.Intn(len(svcs))]
			var ds []string
			for _, d := range svcs {
				if d != src && strings.Split(d, ":")[0] != strings.Split(src, ":")[0] && rng.Intn(2) == 0 && len(ds) < 3 {
					ds = append(ds, d)
				}
			}
			if len(ds) >= 1 && len(ds) < 3 && rng.Intn(6) == 0 {
				ds = append(ds, "1356:0x0000000000000000000000000000000000000abc") // a child executed by the hub's own broker
			}
			if len(ds) >= 2 {
				var gi []uint64
				for _, d := range ds {
					pr := src + ">" + d
					if next[pr] == 0 {
						next[pr], nextR[pr] = 1, 1
					}
					gi = append(gi, next[pr])
					next[pr]++
				}
				T := timeouts[rng.Intn(len(timeouts))]
				for j, d := range ds {
					groupKids = append(groupKids, Tx{K: "ibtp", Src: src, Dst: d, Idx: gi[j], Typ: "REQ", T: T, Proof: "ok", GDst: ds, GIdx: gi, From: "u1"})
					typ := "OK"
					if rng.Intn(4) == 0 {
						typ = "FAIL"
					}
					groupRcpt = append(groupRcpt, Tx{K: "ibtp", Src: src, Dst: d, Idx: gi[j], Typ: typ, Proof: "ok", From: "u2"})
				}
				rng.Shuffle(len(groupKids), func(a, b int) { groupKids[a], groupKids[b] = groupKids[b], groupKids[a] })
			}
		}
		if len(groupKids)+len(groupRcpt) > 0 && rng.Intn(2) == 0 {
			// send some pending group traffic (children first, mostly; duplicates and late reports happen too)
			var txs []Tx
			for k := 0; k < 1+rng.Intn(3); k++ {
				if len(groupKids) > 0 && (len(groupRcpt) == 0 || rng.Intn(3) > 0) {
					txs = append(txs, groupKids[0])
					if rng.Intn(10) > 0 {
						groupKids = groupKids[1:]
					}
				} else if len(groupRcpt) > 0 {
					j := rng.Intn(len(groupRcpt))
					txs = append(txs, groupRcpt[j])
					if rng.Intn(10) > 0 {
						groupRcpt = append(groupRcpt[:j], groupRcpt[j+1:]...)
					}
				}
			}
			p.Steps = append(p.Steps, Step{Step: "block", Txs: txs})
			continue
		}
		switch {
		case c < 13:
			if rng.Intn(12) == 0 {
				// a long block of plain transfers, every third with a signature that does not verify: the signature checks of one
				// block run side by side, which transactions they refuse must not depend on how they are scheduled
				var txs []Tx
				for j := 24 + rng.Intn(24); j > 0; j-- {
					txs = append(txs, Tx{K: "transfer", From: sender(rng), Dst: "u2", BadSig: j%3 == 0})
				}
				p.Steps = append(p.Steps, Step{Step: "block", Txs: txs})
				continue
			}
			k := 1 + rng.Intn(3)
			if rng.Intn(3) == 0 {
				k = 1
			}
			if rng.Intn(8) == 0 {
				k = 6 + rng.Intn(8) // more transactions than proof-verification groups
			}
			var txs []Tx
			for j := 0; j < k; j++ {
				s, d := pick()
				pair := s + ">" + d
				if next[pair] == 0 {
					next[pair], nextR[pair] = 1, 1
				}
				from := sender(rng)
				proof := "ok"
				if rng.Intn(9) == 0 {
					proof = []string{"bad", "none"}[rng.Intn(2)]
				}
				if len(p.Unord) > 0 && len(sentU) > 0 && rng.Intn(4) == 0 {
					// the very same request again, towards the unordered service (no index check stops it)
					q := sentU[rng.Intn(len(sentU))]
					q.From = from
					txs = append(txs, q)
				} else if rng.Intn(5) < 3 {
					idx := idxAround(next[pair])
					if idx == next[pair] && proof == "ok" {
						next[pair]++
					}
					if len(p.Unord) > 0 && d == p.Unord[0] {
						sentU = append(sentU, Tx{K: "ibtp", Src: s, Dst: d, Idx: idx, Typ: "REQ", T: timeouts[rng.Intn(len(timeouts))], Proof: "ok"})
					}
					txs = append(txs, Tx{K: "ibtp", Src: s, Dst: d, Idx: idx, Typ: "REQ", T: timeouts[rng.Intn(len(timeouts))], Proof: proof, From: from})
				} else if rng.Intn(9) > 0 {
					idx := idxAround(nextR[pair])
					typ := []string{"OK", "OK", "FAIL", "RB"}[rng.Intn(4)]
					if idx == nextR[pair] && idx < next[pair] && proof == "ok" {
						nextR[pair]++
					}
					txs = append(txs, Tx{K: "ibtp", Src: s, Dst: d, Idx: idx, Typ: typ, Proof: proof, From: from})
				} else if rng.Intn(3) == 0 {
					mal := []string{"src", "dst", "type", "payload", "nopayload", "group", "content0", "content1", "calldata", "calldata"}[rng.Intn(10)]
					txs = append(txs, Tx{K: "ibtp", Src: s, Dst: d, Idx: next[pair] + uint64(rng.Intn(2)), Typ: []string{"REQ", "REQ", "OK"}[rng.Intn(3)], T: timeouts[rng.Intn(len(timeouts))], Proof: "ok", From: from, Mal: mal})
				} else if rng.Intn(3) == 0 {
					m := []string{"transfer", "create", "store", "store", "lowgas"}[rng.Intn(5)]
					txs = append(txs, Tx{K: "eth", From: "e1", M: m})
				} else if rng.Intn(2) == 0 {
					// (now and then with a signature that does not verify, next to the valid transactions of the block)
					txs = append(txs, Tx{K: "transfer", From: from, Dst: "u2", BadSig: rng.Intn(3) == 0})
				} else {
					dm := [][]string{{"interchain", "DeleteInterchain", "svc:" + s}, {"interchain", "Register", s}, {"interchain", "GetInterchain", "svc:" + s},
						{"txmgr", "Begin", "x-y-1", "u64:3", "bool:false"}, {"txmgr", "Report", "svc:" + s + "-x-1", "i32:1"}, {"interchain", "GetIBTPByID", "a-b-1", "bool:true"},
						{"interchain", "HandleIBTPData", "bytes:xx"}, {"service", "RecordInvokeService", "svc:" + s, "svc:" + d, "bool:true"},
						// a rule address that is hexadecimal but no address (the chain's own admin gets as far as the address check)
						{"rule", "RegisterRule", strings.Split(s, ":")[0], []string{"0xabcd", "0x00", "0x"}[rng.Intn(3)], "url"}}[rng.Intn(9)]
					if dm[1] == "RegisterRule" {
						from = "admin-" + strings.Split(s, ":")[0]
					}
					txs = append(txs, Tx{K: "invoke", From: from, C: dm[0], M: dm[1], Args: dm[2:]})
				}
			}
			p.Steps = append(p.Steps, Step{Step: "block", Txs: txs})
		case c < 16:
			p.Steps = append(p.Steps, Step{Step: "empty", N: 1 + rng.Intn(3)})
		case c < 18:
			s := svcs[rng.Intn(len(svcs))]
			if rng.Intn(3) == 0 {
				// the owner of a service changes whom it refuses (nobody, or one of the others): no proposal, effective in the next block
				cs := strings.Split(s, ":")
				permits := ""
				if o := svcs[rng.Intn(len(svcs))]; o != s && rng.Intn(4) > 0 {
					permits = "1356:" + o
				}
				p.Steps = append(p.Steps, Step{Step: "submit", M: "UpdateService", By: "@admin-" + cs[0], Obj: s,
					Args: []string{s, "name-" + cs[0] + "-" + cs[1], "intro", permits, "details", "reason"}})
				continue
			}
			m := []string{"FreezeService", "ActivateService", "LogoutService", "FreezeAppchain", "ActivateAppchain"}[rng.Intn(5)]
			obj := s
			if strings.HasSuffix(m, "Appchain") {
				obj = strings.Split(s, ":")[0]
			}
			p.Steps = append(p.Steps, Step{Step: "gov", M: m, Obj: obj, Ok: rng.Intn(4) > 0})
		default:
			p.Steps = append(p.Steps, Step{Step: "restart"})
		}
	}
	return p
}

// inter-BitXHub scenarios (C03 multi-signature matrix; C02 / C04 / C06 between two hubs): another BitXHub "9999" with
// n validators is registered as relay chain; requests arrive from its services with multi-signature proofs whose
// signer sets straddle the threshold (distinct / duplicate / unregistered signers, signatures over another index,
// status, type or source, garbage), requests leave for its services, its receipts and begin-failure / rollback
// notices come back; its validator set is replaced and it is frozen / activated / logged out in between.
func genXhub(rng *rand.Rand, name string) *Plan {
	nval := []int{1, 2, 3, 4, 4, 5, 7}[rng.Intn(7)]
	var vals []string
	for i := 0; i < nval; i++ {
		vals = append(vals, fmt.Sprintf("v%d", i))
	}
	if rng.Intn(5) == 0 && nval > 1 { // a validator listed twice: the list is longer than the set
		vals[nval-1] = vals[0]
	}
	p := &Plan{Name: name, Audit: rng.Intn(3) == 0, Seed: 1 + rng.Int63n(2), Proof: []string{"serial", "parallel"}[rng.Intn(2)],
		Chains: []string{"chainA", "chainB"}, NSvc: 1, Black: map[string]string{}, Relay: &Relay{ID: "9999", Vals: vals}}
	if rng.Intn(4) == 0 {
		p.Unord = []string{"chainB:svc1"}
	}
	cur := append([]string{}, vals...) // the generator's idea of the registered set (not an oracle)
	local := []string{"chainA:svc1", "chainB:svc1"}
	remote := []string{"9999:chainX:svcX", "9999:chainY:svcY"}
	if rng.Intn(3) == 0 { // a second hub with validators of its own: signatures of one hub must not count for the other
		p.Relay2 = &Relay{ID: "7777", Vals: []string{"w0", "w1", "w2", "w3"}[:1+rng.Intn(4)]}
		remote[1] = "7777:chainY:svcY"
	}
	next, nextR := map[string]uint64{}, map[string]uint64{}
	decoys := rng.Intn(7)
	sigsFor := func(end string) []string {
		reg := map[string]bool{}
		var regs []string
		cur := cur
		if strings.HasPrefix(end, "7777") && p.Relay2 != nil && rng.Intn(6) > 0 {
			cur = p.Relay2.Vals
		}
		for _, v := range cur {
			if !reg[v] {
				reg[v] = true
				regs = append(regs, v)
			}
		}
		thr := 0
		if len(cur) > 0 {
			thr = (len(cur) - 1) / 3
		}
		rng.Shuffle(len(regs), func(a, b int) { regs[a], regs[b] = regs[b], regs[a] })
		want := thr + 1 // just enough
		switch rng.Intn(8) {
		case 0, 1, 2:
			want = thr // one too few
		case 3:
			want = len(regs)
		case 4:
			want = 0
		}
		if want > len(regs) {
			want = len(regs)
		}
		out := append([]string{}, regs[:want]...)
		if want == thr && want > 0 && rng.Intn(3) > 0 {
			// one short, plus exactly one decoy that must not count: cycled through every kind
			decoys++
			switch decoys % 7 {
			case 0:
				out = append(out, out[0]) // the same signature again
			case 1:
				out = append(out, out[0]+"!twin") // the same signer's other valid signature
			case 2:
				out = append(out, fmt.Sprintf("x%d", rng.Intn(3))) // unregistered
			case 3:
				out = append(out, regs[len(regs)-1]+"!idx")
			case 4:
				out = append(out, regs[len(regs)-1]+"!status")
			case 5:
				out = append(out, regs[len(regs)-1]+"!type")
			case 6:
				if p.Relay2 != nil {
					out = append(out, "w0") // registered, but on the other hub
				} else {
					out = append(out, regs[len(regs)-1]+"!from")
				}
			}
			rng.Shuffle(len(out), func(a, b int) { out[a], out[b] = out[b], out[a] })
			return out
		}
		// padding that must not count
		for k := rng.Intn(4); k > 0 && len(out) > 0+0; k-- {
			switch rng.Intn(5) {
			case 0:
				dup := out[rng.Intn(len(out))] // duplicate signer: the same bytes again, or the signer's twin signature
				if rng.Intn(2) == 0 && !strings.Contains(dup, "!") && dup != "junk" {
					dup += "!twin"
				}
				out = append(out, dup)
			case 1:
				out = append(out, fmt.Sprintf("x%d", rng.Intn(3))) // unregistered signer
			case 2:
				out = append(out, regs[rng.Intn(len(regs))]+"!"+[]string{"idx", "status", "type", "from"}[rng.Intn(4)]) // signed something else
			case 3:
				out = append(out, "junk")
			case 4:
				out = append(out, fmt.Sprintf("v%d", rng.Intn(7))) // maybe registered, maybe not, maybe duplicate
			}
			if p.Relay2 != nil && rng.Intn(3) == 0 {
				out = append(out, fmt.Sprintf("w%d", rng.Intn(4))) // a validator of the other hub
			}
		}
		if len(out) == 0 && rng.Intn(2) == 0 {
			out = append(out, fmt.Sprintf("x%d", rng.Intn(3)))
		}
		rng.Shuffle(len(out), func(a, b int) { out[a], out[b] = out[b], out[a] })
		return out
	}
	timeouts := []int64{0, 0, 1, 2, 3, 1 << 62}
	idxAround := func(n uint64) uint64 {
		switch rng.Intn(16) {
		case 0:
			return 0
		case 1:
			return n + 1
		case 2:
			if n > 1 {
				return n - 1
			}
		}
		return n
	}
	type sent struct {
		s, d string
		idx  uint64
		T    int64
	}
	var reqs []sent
	var sentX []Tx // requests of the other hub, as sent
	nsteps := 10 + rng.Intn(14)
	for i := 0; i < nsteps; i++ {
		c := rng.Intn(24)
		switch {
		case c < 15:
			var txs []Tx
			for j := 1 + rng.Intn(3); j > 0; j-- {
				from := sender(rng)
				proof := "ok"
				if rng.Intn(12) == 0 {
					proof = []string{"bad", "none"}[rng.Intn(2)]
				}
				switch k := rng.Intn(10); {
				case k < 3: // request from the other hub to a local service
					s, d := remote[rng.Intn(2)], local[rng.Intn(2)]
					if len(p.Unord) > 0 && rng.Intn(2) == 0 {
						d = p.Unord[0] // no index check towards an unordered service: replays reach the transaction manager
					}
					if rng.Intn(14) == 0 {
						s = []string{"8888:chainX:svcX", "chainA:chainX:svcX"}[rng.Intn(2)] // unregistered hub / an appchain that is no hub
					}
					if rng.Intn(20) == 0 {
						d = remote[1] // neither end is here
					}
					pr := s + ">" + d
					if next[pr] == 0 {
						next[pr], nextR[pr] = 1, 1
					}
					idx := idxAround(next[pr])
					t := Tx{K: "ibtp", Src: s, Dst: d, Idx: idx, Typ: "REQ", T: timeouts[rng.Intn(len(timeouts))], Proof: proof, From: from, Ms: rng.Intn(15) > 0,
						Sigs: sigsFor(s), MsStatus: []int{0, 0, 0, 1, 3}[rng.Intn(5)]}
					if rng.Intn(8) == 0 {
						t.Notice = []string{"BF", "RB", "OK", "junk"}[rng.Intn(4)]
					}
					if idx == next[pr] {
						next[pr]++ // optimistic; the proof may still fail
					}
					reqs = append(reqs, sent{s, d, idx, t.T})
					sentX = append(sentX, t)
					txs = append(txs, t)
				case k < 5 && rng.Intn(6) == 0: // a one-to-many transaction with one child here and one on the other hub
					s := local[rng.Intn(2)]
					d1, d2 := local[0], remote[rng.Intn(2)]
					if d1 == s {
						d1 = local[1]
					}
					p1, p2 := s+">"+d1, s+">"+d2
					for _, pr := range []string{p1, p2} {
						if next[pr] == 0 {
							next[pr], nextR[pr] = 1, 1
						}
					}
					g, gi := []string{d1, d2}, []uint64{next[p1], next[p2]}
					next[p1]++
					next[p2]++
					T := timeouts[rng.Intn(len(timeouts))]
					txs = append(txs, Tx{K: "ibtp", Src: s, Dst: d1, Idx: gi[0], Typ: "REQ", T: T, Proof: "ok", From: from, GDst: g, GIdx: gi},
						Tx{K: "ibtp", Src: s, Dst: d2, Idx: gi[1], Typ: "REQ", T: T, Proof: "ok", From: from, GDst: g, GIdx: gi})
					reqs = append(reqs, sent{s, d1, gi[0], T}, sent{s, d2, gi[1], T})
				case k < 5: // request from a local service to the other hub
					s, d := local[rng.Intn(2)], remote[rng.Intn(2)]
					if rng.Intn(14) == 0 {
						d = "8888:chainX:svcX"
					}
					pr := s + ">" + d
					if next[pr] == 0 {
						next[pr], nextR[pr] = 1, 1
					}
					idx := idxAround(next[pr])
					t := Tx{K: "ibtp", Src: s, Dst: d, Idx: idx, Typ: "REQ", T: timeouts[rng.Intn(len(timeouts))], Proof: proof, From: from}
					if rng.Intn(6) == 0 {
						t.Ms, t.Sigs = true, sigsFor(d)
					}
					if idx == next[pr] {
						next[pr]++
					}
					reqs = append(reqs, sent{s, d, idx, t.T})
					txs = append(txs, t)
				case k < 8 && len(sentX) > 0 && rng.Intn(5) == 0: // a request of the other hub delivered a second time, as it was
					t := sentX[rng.Intn(len(sentX))]
					t.From = from
					txs = append(txs, t)
				case k < 8 && len(reqs) > 0: // a receipt or a notice for something sent earlier
					q := reqs[rng.Intn(len(reqs))]
					idx := q.idx
					if rng.Intn(10) == 0 {
						idx = idxAround(idx)
					}
					if rng.Intn(3) == 0 { // notice: the request again, carrying the other hub's status
						t := Tx{K: "ibtp", Src: q.s, Dst: q.d, Idx: idx, Typ: "REQ", T: q.T, Proof: proof, From: from, Notice: []string{"BF", "RB", "BF", "RB", "OK", "junk", "", ""}[rng.Intn(8)]}
						if !strings.HasPrefix(q.s, "chain") || rng.Intn(5) == 0 {
							t.Ms, t.Sigs, t.MsStatus = true, sigsFor(q.s), []int{0, 1, 2}[rng.Intn(3)]
						}
						txs = append(txs, t)
					} else {
						t := Tx{K: "ibtp", Src: q.s, Dst: q.d, Idx: idx, Typ: []string{"OK", "OK", "FAIL", "RB"}[rng.Intn(4)], Proof: proof, From: from}
						if !strings.HasPrefix(q.d, "chain") || rng.Intn(6) == 0 { // proven by the other hub
							t.Ms, t.Sigs, t.MsStatus = true, sigsFor(q.d), []int{0, 3, 4, 5}[rng.Intn(4)]
						}
						txs = append(txs, t)
					}
				case k < 9: // ordinary local traffic next to it
					s, d := local[rng.Intn(2)], local[rng.Intn(2)]
					if s == d {
						continue
					}
					pr := s + ">" + d
					if next[pr] == 0 {
						next[pr], nextR[pr] = 1, 1
					}
					idx := next[pr]
					next[pr]++
					reqs = append(reqs, sent{s, d, idx, 0})
					txs = append(txs, Tx{K: "ibtp", Src: s, Dst: d, Idx: idx, Typ: "REQ", T: timeouts[rng.Intn(len(timeouts))], Proof: proof, From: from})
				default:
					txs = append(txs, Tx{K: "transfer", From: from, Dst: "u2"})
				}
			}
			if len(txs) > 0 {
				p.Steps = append(p.Steps, Step{Step: "block", Txs: txs})
			}
		case c < 18:
			p.Steps = append(p.Steps, Step{Step: "empty", N: 1 + rng.Intn(3)})
		case c < 20: // the other hub's validator set is replaced
			n2 := []int{1, 2, 3, 4, 5, 7}[rng.Intn(6)]
			var nv []string
			off := rng.Intn(3)
			for k := 0; k < n2; k++ {
				nv = append(nv, fmt.Sprintf("v%d", (k+off)%7))
			}
			ok := rng.Intn(4) > 0
			p.Steps = append(p.Steps, Step{Step: "gov", M: "UpdateRelay", Obj: "9999", Args: nv, Ok: ok})
			if ok {
				cur = nv
			}
		case c < 22:
			m := []string{"FreezeAppchain", "ActivateAppchain", "FreezeAppchain", "ActivateAppchain", "LogoutAppchain"}[rng.Intn(5)]
			p.Steps = append(p.Steps, Step{Step: "gov", M: m, Obj: "9999", Ok: rng.Intn(4) > 0})
		case c < 23:
			s := local[rng.Intn(2)]
			m := []string{"FreezeService", "ActivateService"}[rng.Intn(2)]
			p.Steps = append(p.Steps, Step{Step: "gov", M: m, Obj: s, Ok: true})
		default:
			p.Steps = append(p.Steps, Step{Step: "restart"})
		}
	}
	return p
}

// rule scenarios (C03): chainF is validated by the simplified Fabric rule (trust root: the certificate of endorser c0),
// chainA by the rule that accepts everything. IBTPs that chainF has to prove (its requests, receipts addressed to it)
// carry real endorsed artifacts: the right one, or one for another index / chaincode / function, with a broken
// signature, endorsed by somebody else, or no artifact at all; chainF's master rule is replaced (and replaced back)
// through real proposals, chainF is frozen / logged out in between.
func genRules(rng *rand.Rand, name string) *Plan {
	p := &Plan{Name: name, Audit: rng.Intn(3) == 0, Seed: 1 + rng.Int63n(2), Proof: []string{"serial", "parallel"}[rng.Intn(2)],
		Chains: []string{"chainA"}, NSvc: 1, Black: map[string]string{}, Fabric: "chainF"}
	next := map[string]uint64{}
	artFor := func() string {
		switch rng.Intn(10) {
		case 0:
			return "c0!idx"
		case 1:
			return "c0!cc"
		case 2:
			return "c0!func"
		case 3:
			return "c0!sig"
		case 4:
			return "c1"
		case 5:
			return ""
		}
		return "c0"
	}
	type sent struct {
		s, d string
		idx  uint64
	}
	var reqs []sent
	nsteps := 10 + rng.Intn(12)
	for i := 0; i < nsteps; i++ {
		c := rng.Intn(20)
		switch {
		case c < 13:
			var txs []Tx
			for j := 1 + rng.Intn(3); j > 0; j-- {
				from := sender(rng)
				proof := "ok"
				if rng.Intn(14) == 0 {
					proof = []string{"bad", "none"}[rng.Intn(2)]
				}
				s, d := "chainF:svc1", "chainA:svc1"
				if rng.Intn(2) == 0 {
					s, d = d, s
				}
				if rng.Intn(3) > 0 || len(reqs) == 0 {
					pr := s + ">" + d
					if next[pr] == 0 {
						next[pr] = 1
					}
					idx := next[pr]
					if rng.Intn(12) == 0 {
						idx++
					}
					t := Tx{K: "ibtp", Src: s, Dst: d, Idx: idx, Typ: "REQ", T: []int64{0, 0, 2, 3}[rng.Intn(4)], Proof: proof, From: from}
					if s == "chainF:svc1" {
						t.Art = artFor()
					} else if rng.Intn(8) == 0 {
						t.Art = "c0"
					}
					if idx == next[pr] {
						next[pr]++ // optimistic
					}
					reqs = append(reqs, sent{s, d, idx})
					txs = append(txs, t)
				} else {
					q := reqs[rng.Intn(len(reqs))]
					t := Tx{K: "ibtp", Src: q.s, Dst: q.d, Idx: q.idx, Typ: []string{"OK", "OK", "FAIL", "RB"}[rng.Intn(4)], Proof: proof, From: from}
					if q.d == "chainF:svc1" {
						t.Art = artFor()
					}
					txs = append(txs, t)
				}
			}
			p.Steps = append(p.Steps, Step{Step: "block", Txs: txs})
		case c < 15:
			p.Steps = append(p.Steps, Step{Step: "empty", N: 1 + rng.Intn(2)})
		case c < 18:
			to := []string{"happy", "simfabric", "happy", "simfabric", "fabric"}[rng.Intn(5)]
			st := Step{Step: "gov", M: "UpdateMasterRule", Obj: "chainF", Args: []string{to}, Ok: rng.Intn(4) > 0}
			if rng.Intn(3) == 0 { // leave the proposal open for a while: traffic during the replacement
				st.Step = "open"
			}
			p.Steps = append(p.Steps, st)
		case c < 19:
			m := []string{"FreezeAppchain", "ActivateAppchain", "LogoutAppchain"}[rng.Intn(3)]
			p.Steps = append(p.Steps, Step{Step: "gov", M: m, Obj: "chainF", Ok: rng.Intn(4) > 0})
		default:
			p.Steps = append(p.Steps, Step{Step: "restart"})
		}
	}
	return p
}

// role / node lifecycle scenarios (C16 lifecycle half for roles and nodes, C14 grant clause): audit nodes are
// registered, updated, logged out; audit admins are registered bound to a node, paused when their node goes, bound to
// another node; a governance admin is registered, frozen, activated, logged out; proposals are approved or rejected,
// and concluded in interleaved orders
func genRoles(rng *rand.Rand, name string) *Plan {
	p := &Plan{Name: name, Seed: 1, Proof: "serial", Chains: []string{"chainA"}, NSvc: 1, Black: map[string]string{}, Audit: rng.Intn(2) == 0, GovMode: true, Roles: true, Align: true}
	np := 0
	adm := func() string { return fmt.Sprintf("@admin%d", rng.Intn(4)) }
	vote := func(pid int, approve bool) {
		b := "approve"
		if !approve {
			b = "reject"
		}
		for i := 0; i < 4; i++ {
			p.Steps = append(p.Steps, Step{Step: "vote", Pid: pid, By: fmt.Sprintf("@admin%d", i), Ballot: b})
		}
	}
	var open []int
	submit := func(m string, args ...string) {
		p.Steps = append(p.Steps, Step{Step: "submit", M: m, By: adm(), Obj: "x", Args: args})
		open = append(open, np)
		np++
	}
	node := func() string { return []string{"@nvp1", "@nvp2"}[rng.Intn(2)] }
	aud := func() string { return []string{"@aud1", "@aud2"}[rng.Intn(2)] }
	// most scenarios start with a node and an audit admin bound to it
	if rng.Intn(4) > 0 {
		submit("RegisterNode", "@nvp1", "nvpNode", "", "u64:0", "node1", "chainA", "r")
		vote(np-1, true)
		open = open[:len(open)-1]
		submit("RegisterRole", "@aud1", "auditAdmin", "@nvp1", "r")
		if rng.Intn(3) > 0 {
			vote(np-1, rng.Intn(5) > 0)
			open = open[:len(open)-1]
		}
	}
	// a third of them goes on: second node, first node logged out (the audit admin is paused), the admin bound again
	if len(open) == 0 && rng.Intn(2) == 0 {
		if rng.Intn(2) == 0 { // (otherwise the admin is bound to a node that was never registered: the bind must fail cleanly)
			submit("RegisterNode", "@nvp2", "nvpNode", "", "u64:0", "node2", "chainA", "r")
			vote(np-1, true)
		}
		submit("LogoutNode", "@nvp1", "r")
		vote(np-1, rng.Intn(5) > 0)
		submit("BindRole", "@aud1", "@nvp2", "r")
		vote(np-1, rng.Intn(4) > 0)
		open = nil
	}
	// a quarter: an admin (governance or audit) is frozen, then a logout or an activation of the frozen admin is proposed and
	// mostly turned down: it has to be frozen again, not available
	if len(open) == 0 && rng.Intn(4) == 0 {
		who := []string{"@newadmin1", "@newadmin2", "@aud1"}[rng.Intn(3)]
		if who != "@aud1" {
			submit("RegisterRole", who, "governanceAdmin", "", "r")
			vote(np-1, true)
		}
		submit("FreezeRole", who, "r")
		vote(np-1, rng.Intn(6) > 0)
		submit([]string{"LogoutRole", "LogoutRole", "ActivateRole"}[rng.Intn(3)], who, "r")
		vote(np-1, rng.Intn(3) == 0)
		open = nil
	}
	nsteps := 8 + rng.Intn(10)
	for i := 0; i < nsteps; i++ {
		switch rng.Intn(14) {
		case 0, 1:
			submit("RegisterNode", node(), "nvpNode", "", "u64:0", fmt.Sprintf("node%d", rng.Intn(3)), "chainA", "r")
		case 2, 3:
			submit("RegisterRole", aud(), "auditAdmin", node(), "r")
		case 4:
			submit("RegisterRole", []string{"@newadmin1", "@newadmin2"}[rng.Intn(2)], "governanceAdmin", "", "r")
		case 5:
			submit("LogoutNode", node(), "r")
		case 6:
			submit("BindRole", aud(), node(), "r")
		case 7:
			if rng.Intn(3) == 0 { // a consensus (vp) node: id 5 is the next one after the four genesis nodes
				if rng.Intn(2) == 0 {
					submit("RegisterNode", "@vp1", "vpNode", "QmVerifPid1", "u64:5", "vpnode1", "", "r")
				} else {
					submit("LogoutNode", "@vp1", "r")
				}
			} else {
				submit("UpdateNode", node(), fmt.Sprintf("nn%d", rng.Intn(9)), "chainA", "r")
			}
		case 8:
			submit([]string{"FreezeRole", "ActivateRole", "LogoutRole"}[rng.Intn(3)], []string{"@newadmin1", "@aud1", "@aud2", "@aud1", "@newadmin1", "@admin3"}[rng.Intn(6)], "r")
		case 9:
			if rng.Intn(2) == 0 {
				p.Steps = append(p.Steps, Step{Step: "restart"})
			} else {
				p.Steps = append(p.Steps, Step{Step: "block", Txs: []Tx{{K: "transfer", From: "u1", Dst: "u2"}}})
			}
		default: // conclude one of the open proposals (not necessarily the oldest)
			if len(open) > 0 {
				j := rng.Intn(len(open))
				vote(open[j], rng.Intn(4) > 0)
				open = append(open[:j], open[j+1:]...)
			}
		}
	}
	for _, pid := range open {
		vote(pid, rng.Intn(3) > 0)
	}
	return p
}

// timed scenarios: a request with timeout T, a receipt of every type arriving before, at and after H+T
func genTimed(rng *rand.Rand, name string) *Plan {
	p := &Plan{Name: name, Seed: 1, Proof: "serial", Chains: []string{"chainA", "chainB", "chainC"}, NSvc: 2, Black: map[string]string{}, Audit: rng.Intn(2) == 0}
	var svcs []string
	for _, c := range p.Chains {
		svcs = append(svcs, c+":svc1", c+":svc2")
	}
	if rng.Intn(3) == 0 { // one service is unordered: its requests get "batch" receipts, requests to it register no timeout
		p.Unord = []string{svcs[rng.Intn(len(svcs))]}
	}
	used := map[string]uint64{}
	for round := 0; round < 4; round++ {
		s, d := svcs[rng.Intn(len(svcs))], svcs[rng.Intn(len(svcs))]
		if s == d {
			continue
		}
		if rng.Intn(4) == 0 {
			// several requests sharing one timeout height (same block or consecutive blocks with T, T-1), their receipts
			// together in one block before, at or after that height
			k := 2 + rng.Intn(2)
			T := int64(2 + rng.Intn(2))
			var rq, rc []Tx
			for j := 0; j < k; j++ {
				d2 := svcs[rng.Intn(len(svcs))]
				if d2 == s {
					continue
				}
				pr := s + ">" + d2
				used[pr]++
				rq = append(rq, Tx{K: "ibtp", Src: s, Dst: d2, Idx: used[pr], Typ: "REQ", T: T, From: "u1"})
				rc = append(rc, Tx{K: "ibtp", Src: s, Dst: d2, Idx: used[pr], Typ: []string{"OK", "OK", "FAIL"}[rng.Intn(3)], From: "u2"})
			}
			if len(rq) < 2 {
				continue
			}
			if rng.Intn(2) == 0 {
				p.Steps = append(p.Steps, Step{Step: "block", Txs: rq})
			} else { // consecutive blocks, same expiry height
				p.Steps = append(p.Steps, Step{Step: "block", Txs: rq[:1]})
				for j := range rq[1:] {
					rq[j+1].T = T - 1
				}
				p.Steps = append(p.Steps, Step{Step: "block", Txs: rq[1:]})
				T--
			}
			delay := int(T) - 1 + rng.Intn(3)
			if delay > 1 {
				p.Steps = append(p.Steps, Step{Step: "empty", N: delay - 1})
			}
			if rng.Intn(4) == 0 {
				rc = rc[:len(rc)-1] // one of them gets no receipt
			}
			if delay >= 1 {
				p.Steps = append(p.Steps, Step{Step: "block", Txs: rc})
			}
			p.Steps = append(p.Steps, Step{Step: "empty", N: 3})
			continue
		}
		pr := s + ">" + d
		used[pr]++
		idx := used[pr]
		T := int64(1 + rng.Intn(3))
		delay := int(T) - 1 + rng.Intn(3) // receipt lands in block H+T-1, H+T or H+T+1
		typ := []string{"OK", "FAIL", "RB"}[rng.Intn(3)]
		if rng.Intn(4) == 0 {
			// grouped variant: two children, one reports success, the group then runs into its timeout
			d2 := svcs[rng.Intn(len(svcs))]
			if d2 == d || d2 == s || strings.Split(d2, ":")[0] == strings.Split(d, ":")[0] {
				continue
			}
			pr2 := s + ">" + d2
			used[pr2]++
			g := []string{d, d2}
			gi := []uint64{idx, used[pr2]}
			p.Steps = append(p.Steps, Step{Step: "block", Txs: []Tx{{K: "ibtp", Src: s, Dst: d, Idx: gi[0], Typ: "REQ", T: T + 1, GDst: g, GIdx: gi, From: "u1"},
				{K: "ibtp", Src: s, Dst: d2, Idx: gi[1], Typ: "REQ", T: T + 1, GDst: g, GIdx: gi, From: "u1"}}})
			if rng.Intn(3) > 0 {
				p.Steps = append(p.Steps, Step{Step: "block", Txs: []Tx{{K: "ibtp", Src: s, Dst: d, Idx: gi[0], Typ: "OK", From: "u2"}}})
			}
			p.Steps = append(p.Steps, Step{Step: "empty", N: int(T) + 2})
			p.Steps = append(p.Steps, Step{Step: "block", Txs: []Tx{{K: "ibtp", Src: s, Dst: d2, Idx: gi[1], Typ: []string{"OK", "RB", "FAIL"}[rng.Intn(3)], From: "u2"}}})
			continue
		}
		p.Steps = append(p.Steps, Step{Step: "block", Txs: []Tx{{K: "ibtp", Src: s, Dst: d, Idx: idx, Typ: "REQ", T: T, From: "u1"}}})
		if delay > 1 {
			p.Steps = append(p.Steps, Step{Step: "empty", N: delay - 1})
		}
		if delay >= 1 {
			p.Steps = append(p.Steps, Step{Step: "block", Txs: []Tx{{K: "ibtp", Src: s, Dst: d, Idx: idx, Typ: typ, From: "u2"}}})
		}
		p.Steps = append(p.Steps, Step{Step: "empty", N: 2})
		if rng.Intn(2) == 0 {
			p.Steps = append(p.Steps, Step{Step: "block", Txs: []Tx{{K: "ibtp", Src: s, Dst: d, Idx: idx, Typ: []string{"OK", "FAIL", "RB"}[rng.Intn(3)], From: "u3"}}})
		}
		if rng.Intn(5) == 0 {
			p.Steps = append(p.Steps, Step{Step: "restart"})
		}
	}
	return p
}

// surface scenarios (C17): live context, then direct invocations of every exported method by every role
func genSurface(rng *rand.Rand, name string, surf []lockstep.MethodInfo, frac int, part int) *Plan {
	// "CHAINA" differs from "chainA" only in letter case: its admin is the "admin of another chain"
	p := &Plan{Name: name, Seed: 1, Proof: "serial", Chains: []string{"chainA", "chainB", "CHAINA"}, NSvc: 1, Black: map[string]string{}, Audit: rng.Intn(2) == 0, FreeGas: true, Roles: true}
	// live context: an accepted request (BEGIN), a finished one, an open proposal
	p.Steps = append(p.Steps, Step{Step: "block", Txs: []Tx{{K: "ibtp", Src: "chainA:svc1", Dst: "chainB:svc1", Idx: 1, Typ: "REQ", T: 0, From: "u1"}}})
	p.Steps = append(p.Steps, Step{Step: "block", Txs: []Tx{{K: "ibtp", Src: "chainA:svc1", Dst: "chainB:svc1", Idx: 1, Typ: "OK", From: "u2"}}})
	p.Steps = append(p.Steps, Step{Step: "block", Txs: []Tx{{K: "ibtp", Src: "chainA:svc1", Dst: "chainB:svc1", Idx: 2, Typ: "REQ", T: 0, From: "u1"}}})
	// a begun one-to-many transaction of chain B's service: its children are somebody else's records
	p.Steps = append(p.Steps, Step{Step: "block", Txs: []Tx{
		{K: "ibtp", Src: "chainB:svc1", Dst: "chainA:svc1", Idx: 1, Typ: "REQ", T: 0, Proof: "ok", From: "u1", GDst: []string{"chainA:svc1", "CHAINA:svc1"}, GIdx: []uint64{1, 1}},
		{K: "ibtp", Src: "chainB:svc1", Dst: "CHAINA:svc1", Idx: 1, Typ: "REQ", T: 0, Proof: "ok", From: "u1", GDst: []string{"chainA:svc1", "CHAINA:svc1"}, GIdx: []uint64{1, 1}}}})
	// a registered audit node: its account is the "node account" among the callers
	p.Align = true
	p.Steps = append(p.Steps, Step{Step: "submit", M: "RegisterNode", By: "@admin0", Obj: "x", Args: []string{"@nvp1", "nvpNode", "", "u64:0", "node1", "chainA", "r"}})
	for i := 0; i < 3; i++ {
		p.Steps = append(p.Steps, Step{Step: "vote", Pid: 0, By: fmt.Sprintf("@admin%d", i), Ballot: "approve"})
	}
	// a governance admin that has been frozen: no longer one of "the governance admins" the privileged operations are reserved to
	p.Steps = append(p.Steps, Step{Step: "submit", M: "FreezeRole", By: "@admin0", Obj: "x", Args: []string{"@admin3", "r"}})
	for i := 0; i < 3; i++ {
		p.Steps = append(p.Steps, Step{Step: "vote", Pid: 1, By: fmt.Sprintf("@admin%d", i), Ballot: "approve"})
	}
	// an audit admin bound to that node: an admin, but none of those the privileged operations are reserved to
	p.Steps = append(p.Steps, Step{Step: "submit", M: "RegisterRole", By: "@admin0", Obj: "x", Args: []string{"@aud1", "auditAdmin", "@nvp1", "r"}})
	for i := 0; i < 3; i++ {
		p.Steps = append(p.Steps, Step{Step: "vote", Pid: 2, By: fmt.Sprintf("@admin%d", i), Ballot: "approve"})
	}
	// a second audit admin whose node has been logged out (the admin is frozen, waiting to be bound to another node), and a
	// free node it could be bound to: binding is the governance admins' decision, not its own
	np := 3
	for _, sub := range [][]string{{"RegisterNode", "@nvp2", "nvpNode", "", "u64:0", "node2", "chainA", "r"}, {"RegisterNode", "@nvp3", "nvpNode", "", "u64:0", "node3", "chainA", "r"},
		{"RegisterRole", "@aud2", "auditAdmin", "@nvp2", "r"}, {"LogoutNode", "@nvp2", "r"}} {
		p.Steps = append(p.Steps, Step{Step: "submit", M: sub[0], By: "@admin0", Obj: "x", Args: sub[1:]})
		for i := 0; i < 3; i++ {
			p.Steps = append(p.Steps, Step{Step: "vote", Pid: np, By: fmt.Sprintf("@admin%d", i), Ballot: "approve"})
		}
		np++
	}
	p.Steps = append(p.Steps, Step{Step: "open", M: "FreezeService", Obj: "chainB:svc1"})
	strs := []string{"chainA", "chainB", "chainA:svc1", "chainB:svc1", "svc:chainA:svc1", "svc:chainB:svc1", "svc:chainA:svc1-1356:chainB:svc1-2",
		"svc:chainA:svc1-1356:chainB:svc1-1", "@proposal", "@admin0", "@admin1", "@admin-chainA", "@admin-chainB", "@u3",
		"0x00000000000000000000000000000000000000a2", "register", "update", "freeze", "activate", "logout", "pause", "unpause", "clear", "bind",
		"available", "frozen", "approve", "reject", "governanceAdmin", "appchainAdmin", "auditAdmin", "vpNode", "nvpNode", "ServiceMgr", "AppchainMgr", "SimpleMajority", "a > 0.5 * t",
		"name-chainA", "CallContract", "ETH", "x", ""}
	ids := []string{"chainA", "chainA:svc1", "svc:chainA:svc1", "svc:chainA:svc1-1356:chainB:svc1-2", "svc:chainA:svc1-1356:chainB:svc1-1", "@proposal", "@admin-chainA", "chainB:svc1", "@nvp1",
		"svc:chainB:svc1-1356:chainA:svc1-1", "svc:chainB:svc1-1356:CHAINA:svc1-1"}
	arg := func(t string) (string, bool) {
		switch t {
		case "string":
			if rng.Intn(2) == 0 {
				return ids[rng.Intn(len(ids))], true
			}
			return strs[rng.Intn(len(strs))], true
		case "[]uint8":
			return []string{"bytes:", "bytes:x", "bytes:{}", "bytes:[]", "bxhproof:1", "bxhproof:2", "bxhproof:3", "ibtpbytes:3", "ibtpbytes:1"}[rng.Intn(9)], true
		case "uint64":
			return "u64:" + []string{"0", "1", "2", "5"}[rng.Intn(4)], true
		case "int32":
			return "i32:" + []string{"0", "1", "2", "3"}[rng.Intn(4)], true
		case "int64":
			return "i64:" + []string{"0", "1"}[rng.Intn(2)], true
		case "bool":
			return "bool:" + []string{"true", "false"}[rng.Intn(2)], true
		case "float64":
			return "f64:" + []string{"1", "4.5"}[rng.Intn(2)], true
		}
		return "", false // not constructible through the transaction encoding
	}
	roles := []struct{ role, acct string }{{"outsider", "u3"}, {"otheradmin", "admin-CHAINA"}, {"otheradmin", "admin-chainB"}, {"govadmin", "@admin1"}, {"nodeacct", "nvp1"}, {"frozenadmin", "@admin3"}, {"auditadmin", "aud1"}, {"frozenaudit", "aud2"}}

	var calls []Tx
	combo := 0
	for _, mi := range surf {
		for _, ro := range roles {
			// plan number `part` takes every frac-th (method, role) combination: frac consecutive plans cover all of them
			combo++
			if (combo+part)%frac != 0 {
				continue
			}
			tries := 2
			if !mi.Promoted && !strings.HasPrefix(mi.M, "Get") && !strings.HasPrefix(mi.M, "Is") && !strings.HasPrefix(mi.M, "Count") {
				tries = 10
				if ro.role == "frozenadmin" || ro.role == "frozenaudit" { // its calls pass every check but the availability of the caller: more argument vectors
					tries = 30
				}
			}
			for try := 0; try < tries; try++ {
				var args []string
				ok := true
				for ai, t := range mi.In {
					a, c := arg(t)
					if (ro.role == "frozenaudit" || ro.role == "auditadmin" || (ro.role == "frozenadmin" && try%4 == 1)) && t == "string" && try%2 == 1 {
						// aimed at itself: the caller is the object of the call, the other names are nodes
						if ai == 0 {
							a = "@" + strings.TrimPrefix(ro.acct, "@")
						} else {
							a = []string{"@nvp3", "@nvp1", "@nvp2", "@" + strings.TrimPrefix(ro.acct, "@"), "r"}[(try/2+(ai-1)*(1+try/10))%5] // every name in every place
						}
					}
					if !c {
						ok = false
						a = "x"
					}
					if ro.role == "otheradmin" {
						// the admin of another chain is aimed at chain A's objects only (its own chain's are its to govern)
						a = strings.Replace(strings.Replace(a, "chainB", "chainA", -1), "CHAINA", "chainA", -1)
					}
					args = append(args, a)
				}
				_ = ok
				aim := ""
				if len(args) > 0 && strings.TrimPrefix(args[0], "@") == strings.TrimPrefix(ro.acct, "@") {
					aim = "self"
				} else if len(args) > 0 && ((ro.acct == "aud1" && args[0] == "@nvp1") || (ro.acct == "aud2" && args[0] == "@nvp2")) {
					aim = "ownnode"
				}
				calls = append(calls, Tx{K: "invoke", From: ro.acct, C: mi.C, M: mi.M, Args: args, Role: ro.role, Promoted: mi.Promoted, Aim: aim})
			}
		}
	}
	rng.Shuffle(len(calls), func(i, j int) { calls[i], calls[j] = calls[j], calls[i] })
	// operations a party may start on itself (Surface.tla: OpenTo) go last: they succeed by design and take the caller out of
	// the status the reserved operations are tried in (a frozen audit admin that logs itself out is no longer waiting to be bound)
	var first, last []Tx
	for _, c := range calls {
		if c.Aim != "" && (c.M == "ActivateRole" || c.M == "LogoutRole" || c.M == "LogoutNode") {
			last = append(last, c)
		} else {
			first = append(first, c)
		}
	}
	// (own activation first: it is refused once the own logout is under way; own logout at the very end)
	var lastOut []Tx
	{
		var keep []Tx
		for _, c := range last {
			if c.M == "LogoutRole" {
				lastOut = append(lastOut, c)
			} else {
				keep = append(keep, c)
			}
		}
		last = keep
	}
	sort.SliceStable(last, func(i, j int) bool { return last[i].M == "ActivateRole" && last[j].M != "ActivateRole" })
	// ... and once it has asked for its own activation (status activating: still not one of the available admins) a frozen
	// caller tries a third of its reserved operations again
	var again []Tx
	for i, c := range first {
		if (c.Role == "frozenadmin" || c.Role == "frozenaudit") && !c.Promoted && i%3 == 0 && !strings.HasPrefix(c.M, "Get") && !strings.HasPrefix(c.M, "Is") && !strings.HasPrefix(c.M, "Count") {
			again = append(again, c)
		}
	}
	calls = append(append(append(first, last...), again...), lastOut...)
	for i := 0; i < len(calls); i += 3 {
		j := i + 3
		if j > len(calls) {
			j = len(calls)
		}
		p.Steps = append(p.Steps, Step{Step: "block", Txs: calls[i:j]})
	}
	return p
}

// governance scenarios (C15): proposals of several kinds and priorities, votes by admins / outsiders / frozen
// admins with valid and garbage ballots, repeated votes, withdrawals, electorate changes while proposals are open
func genGov(rng *rand.Rand, name string) *Plan {
	p := &Plan{Name: name, Seed: 1, Proof: "serial", Chains: []string{"chainA", "chainB"}, NSvc: 1, Black: map[string]string{}, Audit: rng.Intn(3) == 0, GovMode: true}
	admins := []string{"@admin0", "@admin1", "@admin2", "@admin3"}
	exprs := []string{"a > 0.5 * t", "a == t", "a >= 1", "a * 3 > t * 2", "a >= 2"}
	np := 0
	submit := func() {
		switch rng.Intn(10) {
		case 0, 1:
			p.Steps = append(p.Steps, Step{Step: "submit", M: "FreezeService", By: admins[rng.Intn(4)], Obj: "chainA:svc1", Args: []string{"chainA:svc1", "r"}})
		case 2:
			p.Steps = append(p.Steps, Step{Step: "submit", M: "ActivateService", By: admins[rng.Intn(4)], Obj: "chainA:svc1", Args: []string{"chainA:svc1", "r"}})
		case 3:
			p.Steps = append(p.Steps, Step{Step: "submit", M: "LogoutService", By: "admin-chainA", Obj: "chainA:svc1", Args: []string{"chainA:svc1", "r"}})
		case 4:
			p.Steps = append(p.Steps, Step{Step: "submit", M: "UpdateService", By: "admin-chainB", Obj: "chainB:svc1", Args: []string{"chainB:svc1", fmt.Sprintf("nm%d", rng.Intn(99)), "intro2", "", "details", "r"}})
		case 5:
			p.Steps = append(p.Steps, Step{Step: "submit", M: "FreezeAppchain", By: admins[rng.Intn(4)], Obj: "chainB", Args: []string{"chainB", "r"}})
		case 6:
			p.Steps = append(p.Steps, Step{Step: "submit", M: "RegisterRole", By: admins[rng.Intn(4)], Obj: "newadmin", Args: []string{[]string{"@newadmin1", "@newadmin2"}[rng.Intn(2)], "governanceAdmin", "", "r"}})
		case 7:
			p.Steps = append(p.Steps, Step{Step: "submit", M: "FreezeRole", By: admins[rng.Intn(4)], Obj: "admin", Args: []string{admins[1+rng.Intn(3)], "r"}})
		case 8:
			p.Steps = append(p.Steps, Step{Step: "submit", M: "ActivateRole", By: admins[rng.Intn(4)], Obj: "admin", Args: []string{admins[1+rng.Intn(3)], "r"}})
		default:
			p.Steps = append(p.Steps, Step{Step: "submit", M: "UpdateProposalStrategy", By: admins[rng.Intn(4)], Obj: "strategy",
				Args: []string{[]string{"ServiceMgr", "AppchainMgr", "RoleMgr"}[rng.Intn(3)], "SimpleMajority", exprs[rng.Intn(len(exprs))], "r"}})
		}
		np++
	}
	for i := 0; i < 12+rng.Intn(25); i++ {
		c := rng.Intn(10)
		switch {
		case np == 0 || c < 2:
			submit()
		case c < 9:
			voter := admins[rng.Intn(4)]
			if rng.Intn(10) == 0 {
				voter = []string{"u3", "admin-chainA", "@newadmin1", "@newadmin2"}[rng.Intn(4)]
			}
			ballot := []string{"approve", "approve", "approve", "reject", "reject", "garbage", ""}[rng.Intn(7)]
			pid := np - 1 - rng.Intn(2)
			if rng.Intn(6) == 0 {
				pid = rng.Intn(np)
			}
			if pid < 0 {
				pid = 0
			}
			p.Steps = append(p.Steps, Step{Step: "vote", Pid: pid, By: voter, Ballot: ballot})
		default:
			p.Steps = append(p.Steps, Step{Step: "withdraw", Pid: rng.Intn(np), By: admins[rng.Intn(4)]})
		}
		if rng.Intn(15) == 0 {
			p.Steps = append(p.Steps, Step{Step: "restart"})
		}
	}
	return p
}

// electorate changes while a proposal is open: an admin is frozen (or a new one registered) before / after a
// proposal is created and activated again while it is still open, then everybody votes
func genGovElectorate(rng *rand.Rand, name string) *Plan {
	p := &Plan{Name: name, Seed: 1, Proof: "serial", Chains: []string{"chainA", "chainB"}, NSvc: 1, Black: map[string]string{}, Audit: rng.Intn(3) == 0, GovMode: true}
	np := 0
	victim := []string{"@admin1", "@admin2", "@admin3"}[rng.Intn(3)]
	others := []string{}
	for _, a := range []string{"@admin0", "@admin1", "@admin2", "@admin3"} {
		if a != victim {
			others = append(others, a)
		}
	}
	conclude := func(pid int, ballot string) {
		for _, a := range others {
			p.Steps = append(p.Steps, Step{Step: "vote", Pid: pid, By: a, Ballot: ballot})
		}
	}
	target := func() {
		switch rng.Intn(3) {
		case 0:
			p.Steps = append(p.Steps, Step{Step: "submit", M: "UpdateService", By: "admin-chainB", Obj: "chainB:svc1", Args: []string{"chainB:svc1", fmt.Sprintf("nm%d", rng.Intn(99)), "intro2", "", "details", "r"}})
		case 1:
			p.Steps = append(p.Steps, Step{Step: "submit", M: "FreezeService", By: others[0], Obj: "chainA:svc1", Args: []string{"chainA:svc1", "r"}})
		default:
			p.Steps = append(p.Steps, Step{Step: "submit", M: "UpdateProposalStrategy", By: others[1], Obj: "strategy", Args: []string{"ServiceMgr", "SimpleMajority", []string{"a == t", "a >= 2", "a * 3 > t * 2"}[rng.Intn(3)], "r"}})
		}
		np++
	}
	if rng.Intn(2) == 0 {
		target() // proposal created while everybody is available
	}
	p.Steps = append(p.Steps, Step{Step: "submit", M: "FreezeRole", By: others[rng.Intn(3)], Obj: "admin", Args: []string{victim, "r"}})
	freezeP := np
	np++
	conclude(freezeP, "approve")
	target() // proposal created while the victim is frozen
	tp := np - 1
	if rng.Intn(3) > 0 {
		p.Steps = append(p.Steps, Step{Step: "submit", M: "ActivateRole", By: others[rng.Intn(3)], Obj: "admin", Args: []string{victim, "r"}})
		actP := np
		np++
		conclude(actP, "approve")
	}
	// now everybody votes on the open proposals, the (re)activated admin first or in between
	voters := append([]string{victim}, others...)
	rng.Shuffle(len(voters), func(i, j int) { voters[i], voters[j] = voters[j], voters[i] })
	for _, v := range voters {
		p.Steps = append(p.Steps, Step{Step: "vote", Pid: tp, By: v, Ballot: []string{"approve", "approve", "reject"}[rng.Intn(3)]})
		if rng.Intn(3) == 0 {
			p.Steps = append(p.Steps, Step{Step: "vote", Pid: 0, By: v, Ballot: "approve"})
		}
	}
	return p
}

// lifecycle scenarios (C16): governance operations on services and appchains whose proposals are concluded in an
// interleaved order (a registration approved after its chain was frozen, ...), with IBTP traffic in between
func genLifecycle(rng *rand.Rand, name string) *Plan {
	p := &Plan{Name: name, Seed: 1, Proof: "serial", Chains: []string{"chainA", "chainB"}, NSvc: 1, Black: map[string]string{}, Audit: rng.Intn(3) == 0, Align: true}
	admins := []string{"@admin0", "@admin1", "@admin2", "@admin3"}
	var open []int
	np := 0
	nsvc := map[string]int{"chainA": 1, "chainB": 1}
	next := map[string]uint64{}
	traffic := func() {
		var txs []Tx
		for j := 0; j < 1+rng.Intn(3); j++ {
			c1, c2 := []string{"chainA", "chainB"}[rng.Intn(2)], []string{"chainA", "chainB"}[rng.Intn(2)]
			s := fmt.Sprintf("%s:svc%d", c1, 1+rng.Intn(nsvc[c1]))
			d := fmt.Sprintf("%s:svc%d", c2, 1+rng.Intn(nsvc[c2]))
			if s == d {
				continue
			}
			pr := s + ">" + d
			next[pr]++
			txs = append(txs, Tx{K: "ibtp", Src: s, Dst: d, Idx: next[pr], Typ: "REQ", T: 0, From: []string{"u1", "u2"}[rng.Intn(2)]})
		}
		if len(txs) > 0 {
			p.Steps = append(p.Steps, Step{Step: "block", Txs: txs})
		}
	}
	by := map[int]string{} // who submitted proposal #pid (only the submitter may withdraw it)
	sub := func(m, who, obj string, args ...string) int {
		p.Steps = append(p.Steps, Step{Step: "submit", M: m, By: who, Obj: obj, Args: args})
		by[np] = who
		np++
		return np - 1
	}
	conclude := func(pid int, how string) {
		if how == "withdraw" {
			p.Steps = append(p.Steps, Step{Step: "withdraw", Pid: pid, By: by[pid]})
			return
		}
		for _, a := range admins[:3] {
			p.Steps = append(p.Steps, Step{Step: "vote", Pid: pid, By: a, Ballot: how})
		}
	}
	svcOf := func(ch string) string { return fmt.Sprintf("%s:svc%d", ch, 1+rng.Intn(nsvc[ch])) }
	endings := []string{"approve", "reject", "withdraw"}
	// stacked proposals: two operations pending on one object while a third one (often on the owning chain) concludes,
	// then the pending ones conclude in either order, each approved, rejected or withdrawn
	stacked := func() {
		ch := []string{"chainA", "chainB"}[rng.Intn(2)]
		sv := svcOf(ch)
		switch rng.Intn(4) {
		case 0: // chain frozen; activation pending; logout pending on top; both concluded
			conclude(sub("FreezeAppchain", admins[rng.Intn(4)], ch, ch, "r"), "approve")
			a := sub("ActivateAppchain", "admin-"+ch, ch, ch, "r")
			l := sub("LogoutAppchain", "admin-"+ch, ch, ch, "r")
			traffic()
			conclude(l, endings[rng.Intn(3)])
			traffic()
			conclude(a, endings[rng.Intn(3)])
		case 1: // service update pending; logout pending on top; chain frozen meanwhile; both concluded
			u := sub("UpdateService", "admin-"+ch, ch, sv, fmt.Sprintf("nm%d", rng.Intn(999)), "intro2", "", "details", "r")
			l := sub("LogoutService", "admin-"+ch, ch, sv, "r")
			if rng.Intn(3) > 0 {
				conclude(sub("FreezeAppchain", admins[rng.Intn(4)], ch, ch, "r"), "approve")
			}
			traffic()
			conclude(l, endings[1+rng.Intn(2)])
			traffic()
			conclude(u, endings[rng.Intn(3)])
		case 2: // chain update pending (services paused); logout pending on top; both concluded
			u := sub("UpdateAppchain", "admin-"+ch, ch, ch, fmt.Sprintf("name-%s-%d", ch, rng.Intn(999)), "desc", "bytes:", "@admin-"+ch, "r")
			l := sub("LogoutAppchain", "admin-"+ch, ch, ch, "r")
			traffic()
			conclude(l, endings[rng.Intn(3)])
			traffic()
			conclude(u, endings[rng.Intn(3)])
		default: // service freeze pending; chain logout pending; chain logout rejected; freeze concluded
			f := sub("FreezeService", admins[rng.Intn(4)], ch, sv, "r")
			l := sub("LogoutAppchain", "admin-"+ch, ch, ch, "r")
			traffic()
			conclude(l, endings[rng.Intn(3)])
			conclude(f, endings[rng.Intn(3)])
		}
		traffic()
	}
	if rng.Intn(2) == 0 {
		stacked()
	}
	for i := 0; i < 10+rng.Intn(14); i++ {
		switch c := rng.Intn(11); {
		case c < 3:
			ch := []string{"chainA", "chainB"}[rng.Intn(2)]
			var pid int
			switch rng.Intn(9) {
			case 0:
				nsvc[ch]++
				pid = sub("RegisterService", "admin-"+ch, ch, ch, fmt.Sprintf("svc%d", nsvc[ch]), fmt.Sprintf("name-%s-%d-%d", ch, nsvc[ch], rng.Intn(999)), "CallContract", "intro", "u64:1", "", "details", "r")
			case 1:
				pid = sub("FreezeAppchain", admins[rng.Intn(4)], ch, ch, "r")
			case 2:
				pid = sub("ActivateAppchain", "admin-"+ch, ch, ch, "r")
			case 3:
				pid = sub("FreezeService", admins[rng.Intn(4)], ch, svcOf(ch), "r")
			case 4:
				pid = sub("ActivateService", "admin-"+ch, ch, svcOf(ch), "r")
			case 5:
				pid = sub("UpdateService", "admin-"+ch, ch, svcOf(ch), fmt.Sprintf("nm%d", rng.Intn(999)), "intro2", "", "details", "r")
			case 6:
				pid = sub("LogoutService", "admin-"+ch, ch, svcOf(ch), "r")
			case 7:
				pid = sub("UpdateAppchain", "admin-"+ch, ch, ch, fmt.Sprintf("name-%s-%d", ch, rng.Intn(999)), "desc", "bytes:", "@admin-"+ch, "r")
			default:
				pid = sub("LogoutAppchain", "admin-"+ch, ch, ch, "r")
			}
			open = append(open, pid)
		case c < 6 && len(open) > 0:
			j := rng.Intn(len(open))
			pid := open[j]
			open = append(open[:j], open[j+1:]...)
			how := "approve"
			if rng.Intn(3) == 0 {
				how = endings[1+rng.Intn(2)]
			}
			conclude(pid, how)
		case c < 9:
			traffic()
		case c < 10:
			stacked()
		default:
			p.Steps = append(p.Steps, Step{Step: "restart"})
		}
	}
	traffic()
	return p
}

var surfCache []lockstep.MethodInfo

func main() {
	plansFile := flag.String("plans", "", "")
	outDir := flag.String("out", ".", "")
	seed := flag.Int64("seed", 1, "")
	n := flag.Int("n", 20, "")
	start := flag.Int("start", 0, "")
	mode := flag.String("mode", "", "group = one-to-many heavy")
	frac := flag.Int("frac", 1, "surface mode: call one in frac (method, role) combinations")
	nrep := flag.Int("replicas", 0, "extra replicas executing the same blocks (C01)")
	flag.Parse()
	var plans []*Plan
	if *plansFile != "" {
		b, err := ioutil.ReadFile(*plansFile)
		if err != nil {
			panic(err)
		}
		if err := json.Unmarshal(b, &plans); err != nil {
			panic(err)
		}
	} else {
		rng := rand.New(rand.NewSource(*seed))
		for i := 0; i < *n; i++ {
			if *mode == "lifecycle" {
				plans = append(plans, genLifecycle(rng, fmt.Sprintf("life-%d-%d", *seed, i)))
			} else if *mode == "gov" {
				if i%3 == 2 {
					plans = append(plans, genGovElectorate(rng, fmt.Sprintf("govel-%d-%d", *seed, i)))
				} else {
					plans = append(plans, genGov(rng, fmt.Sprintf("gov-%d-%d", *seed, i)))
				}
			} else if *mode == "surface" {
				if surfCache == nil {
					surfCache = lockstep.Surface()
				}
				plans = append(plans, genSurface(rng, fmt.Sprintf("surface-%d-%d", *seed, i), surfCache, *frac, i))
			} else if *mode == "roles" {
				plans = append(plans, genRoles(rng, fmt.Sprintf("roles-%d-%d", *seed, i)))
			} else if *mode == "rules" {
				plans = append(plans, genRules(rng, fmt.Sprintf("rules-%d-%d", *seed, i)))
			} else if *mode == "xhub" {
				plans = append(plans, genXhub(rng, fmt.Sprintf("xhub-%d-%d", *seed, i)))
			} else if *mode == "timed" {
				plans = append(plans, genTimed(rng, fmt.Sprintf("timed-%d-%d", *seed, i)))
			} else {
				plans = append(plans, genPlan(rng, fmt.Sprintf("rand-%d-%d", *seed, i), *mode))
			}
		}
	}
	os.MkdirAll(*outDir, 0755)
	scratch, err := ioutil.TempDir(os.Getenv("TMPDIR"), "interadp-")
	if err != nil {
		panic(err)
	}
	defer os.RemoveAll(scratch)
	for i := *start; i < len(plans); i++ {
		p := plans[i]
		pbs, _ := json.Marshal(p)
		ioutil.WriteFile(fmt.Sprintf("%s/plan-%05d.json", *outDir, i), pbs, 0644)
		f, err := os.Create(fmt.Sprintf("%s/trace-%05d.ndjson", *outDir, i))
		if err != nil {
			panic(err)
		}
		r := &runner{plan: p, out: f, nrep: *nrep}
		dir := fmt.Sprintf("%s/n%d", scratch, i)
		r.run(dir)
		f.Close()
		os.RemoveAll(dir)
		fmt.Printf("done %d\n", i)
	}
}
