SPECIFICATION Spec
CONSTANTS
  Window = 10
  TruncateAheadFix = TRUE
  Heights = {1, 2, 3, 5, 10, 11, 12, 13, 14, 21, 22, 30}
  Extra = 3
  Coded = FALSE
INVARIANTS Inv_Durable Inv_C11_Opens Inv_C11_HeightPrevOrNew Inv_C11_StoresConsistent Inv_C11_NoLoss Inv_C11_SameChainAfterContinue
CHECK_DEADLOCK FALSE
