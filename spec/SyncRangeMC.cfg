SPECIFICATION Spec
CONSTANTS
  MaxV = 14
  MaxF = 13
INVARIANTS Inv_C20_SyncCoversOnce Inv_ErrIffEmpty Inv_RangeSize
CHECK_DEADLOCK FALSE
