------------------------------ MODULE ExecMC ------------------------------
(* Exhaustive check of the execution shell's value movement and side effects: no sequence of transfers,      *)
(* built-in calls (IBTPs, contract invocations), failing calls and fee payments creates value, loses more     *)
(* than (admins-1) units per transaction or goes negative (C14), and a FAILED transaction leaves nothing      *)
(* behind besides nonce and fee - in particular none of the records a built-in call writes without journal    *)
(* and none of the deliveries it announces (C07, C02).                                                        *)
EXTENDS Exec
CONSTANTS Users, Admins, MaxBal, Fees, MaxSteps,
          FeeFirst   \* BOOLEAN: TRUE = the sender of a fixed-gas call is checked for the fee BEFORE the call runs (repaired);
                     \* FALSE = as first found: the fee is only collected afterwards
VARIABLES bal, steps, lastLoss,
          rec,       \* records written without journal by built-in calls (transaction records, index maps, proposals)
          deliv,     \* deliveries announced by built-in calls (events processed at the end of the transaction)
          last       \* [status, kind] of the last transaction
vars == <<bal, steps, lastLoss, rec, deliv, last>>
Accts == Users \cup Admins
Init == bal \in [Accts -> 0..MaxBal] /\ steps = 0 /\ lastLoss = 0 /\ rec = {} /\ deliv = {} /\ last = [status |-> "none", kind |-> "none"]

\* a native transfer (the body only uses journaled writes: taking the state back takes everything back)
Step == \E from \in Accts, to \in Accts, amt \in -1..MaxBal, fee \in Fees, bodyOK \in BOOLEAN :
  LET body == IF bodyOK THEN Transfer(bal, from, to, amt) ELSE [ok |-> FALSE, bal |-> bal]
      r == ApplyTx(bal, Admins, from, body, fee) IN
  /\ steps < MaxSteps /\ steps' = steps + 1
  /\ bal' = r.bal
  /\ lastLoss' = SumOver(bal) - SumOver(r.bal)
  /\ last' = [status |-> r.status, kind |-> "transfer"] /\ UNCHANGED <<rec, deliv>>

\* a built-in call with fixed gas: a call that succeeds writes a record without journal and announces a delivery; a
\* call that fails does so before it writes.  handle.go applyTransaction / applyBxhTransaction / payGasFee
Call == \E from \in Accts, fee \in Fees, callOK \in BOOLEAN :
  LET n == steps + 1
      payLeft == PayAdmins([bal EXCEPT ![from] = 0], Admins, bal[from]) IN
  /\ steps < MaxSteps /\ steps' = n
  /\ IF FeeFirst /\ bal[from] < fee
     THEN \* turned away before the call runs
          /\ bal' = payLeft /\ UNCHANGED <<rec, deliv>> /\ last' = [status |-> "FAILED", kind |-> "call"]
     ELSE LET ranRec   == IF callOK THEN rec \cup {n} ELSE rec
              ranDeliv == IF callOK THEN deliv \cup {n} ELSE deliv IN
          IF bal[from] >= fee
          THEN /\ bal' = PayAdmins([bal EXCEPT ![from] = @ - fee], Admins, fee)
               /\ rec' = ranRec /\ deliv' = ranDeliv
               /\ last' = [status |-> IF callOK THEN "SUCCESS" ELSE "FAILED", kind |-> "call"]
          ELSE \* the fee cannot be paid after the call ran: journaled state is taken back, the rest is not
               /\ bal' = payLeft /\ rec' = ranRec /\ deliv' = ranDeliv
               /\ last' = [status |-> "FAILED", kind |-> "call"]
  /\ lastLoss' = SumOver(bal) - SumOver(bal')

Next == Step \/ Call
Spec == Init /\ [][Next]_vars
Inv_C14_NoCreation == lastLoss >= 0
Inv_C14_FeeRounding == lastLoss <= Cardinality(Admins) - 1
Inv_C14_NonNegative == \A a \in Accts : bal[a] >= 0
\* C07 / C02: a transaction that FAILED wrote no record and is delivered nowhere
C07_FailedLeavesNothing == [][last'.status = "FAILED" => (rec' = rec /\ deliv' = deliv)]_vars
=============================================================================
