------------------------------ MODULE ExecMC ------------------------------
(* Exhaustive check of the value-movement model: no sequence of transfers, failing calls and fee *)
(* payments creates value, loses more than (admins-1) units per transaction, or goes negative.   *)
EXTENDS Exec
CONSTANTS Users, Admins, MaxBal, Fees, MaxSteps
VARIABLES bal, steps, lastLoss
vars == <<bal, steps, lastLoss>>
Accts == Users \cup Admins
Init == bal \in [Accts -> 0..MaxBal] /\ steps = 0 /\ lastLoss = 0
Step == \E from \in Accts, to \in Accts, amt \in -1..MaxBal, fee \in Fees, bodyOK \in BOOLEAN :
  LET body == IF bodyOK THEN Transfer(bal, from, to, amt) ELSE [ok |-> FALSE, bal |-> bal]
      r == ApplyTx(bal, Admins, from, body, fee) IN
  /\ steps < MaxSteps /\ steps' = steps + 1
  /\ bal' = r.bal
  /\ lastLoss' = SumOver(bal) - SumOver(r.bal)
Spec == Init /\ [][Step]_vars
Inv_C14_NoCreation == lastLoss >= 0
Inv_C14_FeeRounding == lastLoss <= Cardinality(Admins) - 1
Inv_C14_NonNegative == \A a \in Accts : bal[a] >= 0
=============================================================================
