SPECIFICATION Spec
CONSTANTS
  SnapFix = TRUE
  DedupFix = TRUE
  Nodes = {n1}
  NoNode = NoNode
  Txs = {t1, t2, t3}
  MaxLog = 4
  MaxProp = 5
  MaxCrash = 2
  MaxLC = 2
  MaxDup = 1
  SnapCount = 2
  MaxLagNodes = 1
INVARIANTS Inv_C20_Contiguous Inv_C20_AtMostOnce Inv_C20_SameContent Inv_C20_NoSkip Inv_C20_TxOnce Inv_Canon Inv_C20_NoSkipModel
CHECK_DEADLOCK FALSE
SYMMETRY Sym
