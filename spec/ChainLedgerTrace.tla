------------------------- MODULE ChainLedgerTrace -------------------------
(***************************************************************************)
(* Validation of traces recorded from the real ledger.Ledger by            *)
(* harness/cmd/chainadp (synthetic blocks and executor-produced blocks).   *)
(* The ghost g is updated from the logged inputs / outcomes (Persist,      *)
(* Rollback result); every logged Audit (all lookups for everything ever   *)
(* stored) is judged by the C09_x formulas of ChainLedger.tla against g,   *)
(* and the audit after a refused rollback by C12_RefusedNoChange against   *)
(* the audit before it.  The implementation-shaped model s is stepped      *)
(* alongside; where its predicted audit / error class differs from the     *)
(* logged one that is drift.                                               *)
(***************************************************************************)
EXTENDS ChainLedger, Json, IOUtils

TraceFile == IF "TRACE" \in DOMAIN IOEnv THEN IOEnv.TRACE ELSE "trace.ndjson"
Tr == ndJsonDeserialize(TraceFile)

VARIABLES l, tname, s, g, prevA, pend, viol, drift
tvars == <<l, tname, s, g, prevA, pend, viol, drift>>

NoPend == [k |-> "none", t |-> 0]
NoAudit == [byHeight |-> <<>>, byHash |-> <<>>, byTx |-> <<>>, metaC |-> ZeroMeta, metaD |-> ZeroMeta]

Init == /\ l = 0 /\ tname = "" /\ s = SInit /\ g = GInit /\ prevA = NoAudit /\ pend = NoPend
        /\ viol = {} /\ drift = {}
        /\ TLCSet(1, 0)

\* the logged audit in the shape of SAudit
MkAudit(e) ==
  [ byHeight |-> [i \in 1..Len(e.byHeight) |->
                    [full |-> e.byHeight[i].full, light |-> e.byHeight[i].light, bhash |-> e.byHeight[i].bhash,
                     txCount |-> e.byHeight[i].txCount, im |-> e.byHeight[i].im]],
    byHash |-> e.byHash, byTx |-> e.byTx, metaC |-> e.metaC, metaD |-> e.metaD ]

Parts == {"byHeight", "byHash", "byTx", "metaC", "metaD"}
Part(A, p) == CASE p = "byHeight" -> A.byHeight [] p = "byHash" -> A.byHash [] p = "byTx" -> A.byTx
                [] p = "metaC" -> A.metaC [] OTHER -> A.metaD
DiffParts(A, B) == {p \in Parts : Part(A, p) # Part(B, p)}

Tag(name, bads) == {<<name, b>> : b \in bads}

Step(e) ==
  LET nm == IF e.ev = "Init" THEN e.name ELSE tname
      r == \* [g, s, prevA, pend, v: set of <<formula, detail>>, d: set of drift tags]
        CASE e.ev = "Init" -> [g |-> GInit, s |-> SInit, prevA |-> NoAudit, pend |-> NoPend, v |-> {}, d |-> {}]
          [] e.ev = "Persist" ->
               LET B == [num |-> e.h, hash |-> e.hash, parent |-> e.parent, txs |-> e.txs, rcs |-> e.rcs, cnt |-> e.cnt,
                         txRoot |-> e.txRoot, rcRoot |-> e.rcRoot]
                   gok == e.h = Len(g.chain) + 1
                   sok == e.h = s.metaC.h + 1 IN
               [g |-> IF gok THEN GPersist(g, B) ELSE g, s |-> IF sok THEN SPersist(s, B) ELSE s, prevA |-> prevA, pend |-> NoPend,
                v |-> {}, d |-> (IF gok THEN {} ELSE {"Persist.height"}) \cup (IF sok THEN {} ELSE {"Persist.modelHeight"})]
          [] e.ev = "Rollback" ->
               LET ok == e.err = "ok"
                   x == SLedgerRollback(s, e.t) IN
               [g |-> IF ok THEN GRollback(g, e.t) ELSE g,
                s |-> IF ok /\ x.err = "ok" THEN x.s ELSE s, prevA |-> prevA,
                pend |-> IF ok THEN NoPend ELSE [k |-> "refused", t |-> e.t],
                v |-> {}, d |-> IF x.err = e.err THEN {} ELSE {"Rollback.err"}]
          [] e.ev = "Reopen" ->
               [g |-> g, s |-> IF e.err = "ok" THEN SReopen(s) ELSE s, prevA |-> prevA, pend |-> pend,
                v |-> {}, d |-> IF e.err = "ok" THEN {} ELSE {"Reopen.err"}]
          [] e.ev = "Audit" ->
               LET A == MkAudit(e)
                   cov == Covers(g, A)
                   M == SAudit(s, g) IN
               [g |-> g, s |-> s, prevA |-> A, pend |-> NoPend,
                v |-> (IF ~cov THEN {} ELSE
                         Tag("C09_HashLinked", C09_HashLinked_Bad(g, A)) \cup Tag("C09_RootsMatch", C09_RootsMatch_Bad(g, A))
                         \cup Tag("C09_IndexAgree", C09_IndexAgree_Bad(g, A)) \cup Tag("C09_MetaAgree", C09_MetaAgree_Bad(g, A))
                         \cup Tag("C09_NothingAboveAfterRollback", C09_NothingAbove_Bad(g, A)))
                      \cup (IF pend.k = "refused" /\ ~C12_RefusedNoChange(prevA, A)
                            THEN {<<"C12_RefusedNoChange", [t |-> pend.t, changed |-> DiffParts(prevA, A)]>>} ELSE {}),
                d |-> (IF cov THEN {} ELSE {"Audit.coverage"})
                      \cup (IF cov /\ A # M THEN {"Audit." \o p : p \in DiffParts(A, M)} ELSE {})]
  IN /\ tname' = nm /\ g' = r.g /\ s' = r.s /\ prevA' = r.prevA /\ pend' = r.pend
     /\ viol'  = viol \cup {<<nm, l + 1, x[1], x[2]>> : x \in r.v}
     /\ drift' = drift \cup {<<nm, l + 1, <<e.ev, x>>>> : x \in r.d}

Next == /\ l < Len(Tr)
        /\ l' = l + 1
        /\ Step(Tr[l + 1])
        /\ TLCSet(1, l + 1)
        /\ TLCSet(2, viol') /\ TLCSet(3, drift')

Spec == Init /\ [][Next]_tvars

Accepted ==
  /\ PrintT(<<"VERIF_RESULT", "lines", Len(Tr), "consumed", TLCGet(1)>>)
  /\ PrintT(<<"VERIF_VIOL", ToJson(IF TLCGet(1) = 0 THEN {} ELSE TLCGet(2))>>)
  /\ PrintT(<<"VERIF_DRIFT", ToJson(IF TLCGet(1) = 0 THEN {} ELSE TLCGet(3))>>)
  /\ TLCGet(1) = Len(Tr)
=============================================================================
