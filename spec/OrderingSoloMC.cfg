SPECIFICATION Spec
CONSTANTS
  SnapFix = TRUE
  DedupFix = TRUE
  Txs = {t1, t2, t3}
  MaxProp = 5
  MaxCrash = 2
INVARIANTS Inv_C20_Contiguous Inv_C20_AtMostOnce Inv_C20_SameContent Inv_C20_NoSkip Inv_C20_TxOnce Inv_NeverDead
CHECK_DEADLOCK FALSE
