---------------------------- MODULE LifecycleMC ----------------------------
(***************************************************************************)
(* Operational reading of the governance status machines (the fsm.Events   *)
(* tables of bitxhub-core appchain-mgr / service-mgr and of                *)
(* internal/executor/contracts/role.go) for ONE object with stacked        *)
(* proposals, checked against what trace validation uses:                  *)
(*   - every step is an edge of the edge set of Lifecycle.tla (EdgeOK),    *)
(*   - the history-aware formula ReturnViol never fires (ReturnOK), with   *)
(*     the remembered status maintained by NextLast exactly as             *)
(*     InterchainTrace.tla does,                                           *)
(*   - a logged-out object stays logged out (Absorbing).                   *)
(* A proposal records the status at its submission (`last`); only the most *)
(* recent open proposal of an object can be concluded (older ones are      *)
(* locked); approval leads to the event's target, rejection / withdrawal   *)
(* to `last`, except where the table names a fixed status (a rejected      *)
(* update leaves the object frozen; a rejected bind leaves the admin       *)
(* frozen).  Cascades: an appchain is paused / resumed while its master    *)
(* rule is replaced; services are paused, resumed and cleared with their   *)
(* appchain, a resumed service goes on to the status of its suspended      *)
(* proposal; an audit admin is frozen when its node goes away, also while  *)
(* a proposal on it is open (then the remembered status becomes frozen).   *)
(***************************************************************************)
EXTENDS Lifecycle, Integers, TLC

CONSTANTS Kind,      \* "appchain" | "service" | "role" | "node"
          MaxOpen    \* bound on stacked open proposals

LAST == "LAST"
Ev(src, mid, ok, no) == [src |-> src, mid |-> mid, ok |-> ok, no |-> no]
Tbl ==
  CASE Kind = "appchain" ->
         [update   |-> Ev({"available", "frozen", "logouting"}, "updating", "available", "frozen"),
          freeze   |-> Ev({"available", "logouting"}, "freezing", "frozen", LAST),
          activate |-> Ev({"frozen", "logouting"}, "activating", "available", LAST),
          logout   |-> Ev({"available", "updating", "freezing", "frozen", "activating"}, "logouting", "forbidden", LAST)]
    [] Kind = "service" ->
         [update   |-> Ev({"available", "frozen", "logouting"}, "updating", "available", "frozen"),
          freeze   |-> Ev({"available", "logouting"}, "freezing", "frozen", LAST),
          activate |-> Ev({"frozen", "logouting"}, "activating", "available", LAST),
          logout   |-> Ev({"available", "updating", "freezing", "frozen", "activating", "pause"}, "logouting", "forbidden", LAST)]
    [] Kind = "node" ->   \* bind / unbind follow the registration and the fate of the audit admin bound to the node
         [update   |-> Ev({"available", "binded", "logouting"}, "updating", LAST, LAST),
          bind     |-> Ev({"available", "logouting"}, "binding", "binded", "available"),
          logout   |-> Ev({"available", "binding", "binded", "updating"}, "logouting", "forbidden", LAST)]
    [] OTHER ->
         [freeze   |-> Ev({"available", "activating", "logouting"}, "freezing", "frozen", LAST),
          activate |-> Ev({"frozen", "freezing", "logouting"}, "activating", "available", LAST),
          logout   |-> Ev({"available", "freezing", "frozen", "activating", "binding"}, "logouting", "forbidden", LAST),
          bind     |-> Ev({"frozen"}, "binding", "available", "frozen")]
Edges == CASE Kind = "appchain" -> AppchainEdges [] Kind = "service" -> ServiceEdges [] Kind = "node" -> NodeEdges [] OTHER -> RoleEdges

VARIABLES st,      \* status of the object
          stack,   \* open proposals, oldest first: [ev, last]
          lst      \* what trace validation remembers (NextLast)
vars == <<st, stack, lst>>
O == "o"
Obs(s) == [x \in {O} |-> s]

Init == st = "available" /\ stack = <<>> /\ lst = Obs("?")

\* nchg: objects that changed status in the step, as trace validation counts them (other = a cascade's origin changed too)
Track(s2, other) == lst' = NextLast(lst, Obs(st), Obs(s2), 1, (IF s2 # st THEN 1 ELSE 0) + other)

Submit(ev) ==
  /\ Len(stack) < MaxOpen /\ st \in Tbl[ev].src
  /\ st' = Tbl[ev].mid /\ stack' = Append(stack, [ev |-> ev, last |-> st]) /\ Track(Tbl[ev].mid, 0)

Conclude(approve) ==
  /\ stack # <<>>
  /\ LET top == stack[Len(stack)]
         e   == Tbl[top.ev]
         to  == IF approve THEN (IF e.ok = LAST THEN top.last ELSE e.ok) ELSE IF e.no = LAST THEN top.last ELSE e.no
     IN /\ st = e.mid                       \* suspended (paused) or locked proposals cannot be voted
        /\ st' = to /\ Track(to, 0)
        /\ stack' = IF to = "forbidden" THEN <<>> ELSE SubSeq(stack, 1, Len(stack) - 1)

\* cascades; `other` = 1: the object the cascade comes from changed status in the same block
Pause ==
  \/ /\ Kind = "appchain" /\ st = "available" /\ st' = "frozen" /\ UNCHANGED stack /\ Track("frozen", 1)
  \/ /\ Kind = "service" /\ st \in SvcPau /\ st' = "pause" /\ UNCHANGED stack /\ Track("pause", 1)
  \/ /\ Kind = "role" /\ st \in {"available", "binding"} /\ st' = "frozen" /\ Track("frozen", 1)
     /\ stack' = IF st = "binding" /\ stack # <<>> THEN SubSeq(stack, 1, Len(stack) - 1) ELSE stack
  \* the audit admin's node went away while a proposal on the admin is open: it will come back frozen
  \/ /\ Kind = "role" /\ stack # <<>> /\ st \in Transit /\ UNCHANGED st /\ Track(st, 1)
     /\ stack' = [stack EXCEPT ![Len(stack)].last = "frozen"]
Unpause ==
  \/ /\ Kind = "appchain" /\ st = "frozen" /\ stack = <<>> /\ st' = "available" /\ UNCHANGED stack /\ Track("available", 1)
  \/ /\ Kind = "service" /\ st = "pause"
     /\ LET to == IF stack = <<>> THEN "available" ELSE Tbl[stack[Len(stack)].ev].mid IN st' = to /\ Track(to, 1)
     /\ UNCHANGED stack
\* the audit admin bound (or being bound) to the node is logged out or bound elsewhere
Unbind == /\ Kind = "node" /\ st \in {"binded", "binding"} /\ st' = "available" /\ Track("available", 1)
          /\ stack' = IF st = "binding" /\ stack # <<>> THEN SubSeq(stack, 1, Len(stack) - 1) ELSE stack
Clear == /\ Kind = "service" /\ st \in {"pause", "logouting"} /\ st' = "forbidden" /\ stack' = <<>> /\ Track("forbidden", 1)

Next == (\E ev \in DOMAIN Tbl : Submit(ev)) \/ Conclude(TRUE) \/ Conclude(FALSE) \/ Pause \/ Unpause \/ Clear \/ Unbind
Spec == Init /\ [][Next]_vars

EdgeOK    == [][LifecycleViol(Kind, Edges, Obs(st), Obs(st'), 1) = {}]_vars
ReturnOK  == [][ReturnViol(Kind, lst, Obs(st), Obs(st'), 1) = {}]_vars
Absorbing == [][st = "forbidden" => st' = "forbidden"]_vars
\* non-vacuity: the remembered status is used (a tracked object settles again) -- expected to be VIOLATED when checked
NeverTracked == [][~(lst[O] # "?" /\ st \in Transit /\ st' \in Settled)]_vars
=============================================================================
