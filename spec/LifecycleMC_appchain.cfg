SPECIFICATION Spec
CONSTANTS
  Kind = "appchain"
  MaxOpen = 3
PROPERTIES EdgeOK ReturnOK Absorbing
CHECK_DEADLOCK FALSE
