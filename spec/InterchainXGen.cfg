SPECIFICATION GenSpec
CONSTANTS
  BeginOnce = TRUE
  MaxIdx = 2
  Timeouts = {0, 1, 2, 3}
  MaxH = 14
  Vals <- Vals4
  NVals = 4
  SigSeqs <- SigSeqs4
  HubStatuses = {"available", "frozen"}
INVARIANT EmitPlan
CHECK_DEADLOCK FALSE
