------------------------------ MODULE Ordering ------------------------------
(***************************************************************************)
(* What bitxhub adds on top of etcd/raft (pkg/order/etcdraft) and the      *)
(* one-node "solo" ordering (pkg/order/solo), for property C20:            *)
(*   the ordering service delivers blocks to the executor with heights     *)
(*   increasing by exactly one from the last executed height, each         *)
(*   proposed batch at most once and with identical content on every       *)
(*   replica, a transaction in at most one delivered block - across leader *)
(*   changes, message faults and crash/restart at any point: replayed log  *)
(*   entries of executed blocks are skipped, no entry that was not         *)
(*   executed is skipped.                                                  *)
(*                                                                         *)
(* etcd/raft, the WAL and the snapshot files are a trusted library and are *)
(* abstracted as ONE growing sequence `log` of committed entries (index -> *)
(* batch | empty), per-leader uncommitted proposals that are lost on a     *)
(* leader change, and a per-node durable snapshot position from which the  *)
(* log is replayed after a restart.                                        *)
(*                                                                         *)
(* Part 1: per-node record and one pure step function per critical section *)
(* of the implementation.  Part 2: property-level ghost (what every        *)
(* executor was handed, and the executed height at every (re)start) and    *)
(* the C20 formulas over the ghost only.  The formulas come in an "_At"    *)
(* form (about the i-th delivery of node n) so that trace validation can   *)
(* evaluate exactly the new delivery; the invariant form quantifies it.    *)
(*                                                                         *)
(* SnapFix / DedupFix = TRUE model the behaviour that satisfies C20; FALSE *)
(* transcribes what the code does today (see Ordering.README.md).          *)
(***************************************************************************)
EXTENDS Naturals, Sequences, FiniteSets

CONSTANTS SnapFix,     \* TRUE: a snapshot never covers entries whose block was not reported as executed,
                       \*       and a restart below the snapshot height fetches the missing blocks
          DedupFix     \* TRUE: transactions of a delivered block are not batched again by a later leader, and a new
                       \*       leader does not batch while entries of its predecessor are still in flight

OMax(S) == CHOOSE x \in S : \A y \in S : y <= x
OMin(a, b) == IF a < b THEN a ELSE b

(***************************************************************************)
(* Part 1.  Node record.                                                   *)
(*  volatile: up, inc, lastExec, applied (appliedIndex), bai (the          *)
(*   blockAppliedIndex map as a set of <<height, index>>), seqNo (mempool  *)
(*   batch sequence), just (justElected), q (commit channel to the         *)
(*   executor), unrep (executed, ReportState not yet handled), pool /      *)
(*   batched (mempool: held / already batched transactions), pend (this    *)
(*   leader's proposals raft has not committed yet), rep (index, height of *)
(*   the last handled report - used by the repaired snapshot rule only)    *)
(*  durable: appliedKey (the "applied" key), led (executed chain = the     *)
(*   ledger, a sequence of batches), snapIdx / snapH (newest snapshot).    *)
(***************************************************************************)
NodeInit == [ up |-> TRUE, inc |-> 1, lastExec |-> 0, applied |-> 0, bai |-> {<<0, 0>>}, seqNo |-> 0,
              just |-> FALSE, q |-> <<>>, unrep |-> {}, pool |-> {}, batched |-> {}, pend |-> <<>>,
              rep |-> [idx |-> 0, h |-> 0],
              appliedKey |-> 0, led |-> <<>>, snapIdx |-> 0, snapH |-> 0 ]

\* getBlockAppliedIndex: the index stored for the highest height
BaiTop(s) == LET hs == {p[1] : p \in s.bai} IN
             IF hs = {} THEN 0 ELSE (CHOOSE p \in s.bai : p[1] = OMax(hs))[2]
BaiHas(s, h) == \E p \in s.bai : p[1] = h
BaiGet(s, h) == (CHOOSE p \in s.bai : p[1] = h)[2]

\* mempool.GenerateBlock + postProposal on the leader
Propose(s, B, id) ==
  [s EXCEPT !.pend = Append(@, [k |-> "b", h |-> s.seqNo + 1, id |-> id, txs |-> B]),
            !.seqNo = @ + 1, !.batched = @ \cup B]

\* publishEntries for one committed entry e at raft index idx.  Returns the node and whether a block was minted.
Publish(s, e, idx, isLeader) ==
  IF e.k # "b" THEN [s |-> [s EXCEPT !.applied = idx], m |-> FALSE]                 \* empty / conf entry
  ELSE IF BaiTop(s) >= idx THEN [s |-> [s EXCEPT !.applied = idx], m |-> FALSE]     \* filter 1: replay of an executed block
  ELSE IF e.h # s.lastExec + 1 THEN [s |-> [s EXCEPT !.applied = idx], m |-> FALSE] \* filter 2: not the next height
  ELSE [s |-> [s EXCEPT !.applied = idx,
                        !.q = Append(@, [h |-> e.h, id |-> e.id, txs |-> e.txs]),
                        !.bai = {p \in @ : p[1] # e.h} \cup {<<e.h, idx>>},
                        !.lastExec = e.h,
                        !.seqNo = IF isLeader THEN @ ELSE e.h,
                        !.batched = IF DedupFix THEN @ \cup e.txs ELSE @],
        m |-> TRUE]

\* rest of the Ready handler: a just elected leader resets the batch sequence until in-flight entries are applied
AfterReady(s, logLen) ==
  IF s.just THEN [s EXCEPT !.seqNo = s.lastExec, !.just = (logLen > s.applied + 1)] ELSE s

\* maybeTriggerSnapshot (snapCount = 0 switches snapshots off)
MaybeSnapshot(s, snapCount) ==
  LET idx == IF SnapFix THEN s.rep.idx ELSE s.applied
      hh  == IF SnapFix THEN s.rep.h ELSE s.lastExec IN
  IF snapCount = 0 \/ idx < s.snapIdx + snapCount THEN s
  ELSE [s EXCEPT !.snapIdx = idx, !.snapH = hh]

\* the executor persisted the next block of the queue
Execute(s) == [s EXCEPT !.led = Append(@, Head(s.q)), !.q = Tail(@), !.unrep = @ \cup {Head(s.q).h}]

\* reportState(h): the block of height h is persisted
Report(s, h) ==
  IF ~BaiHas(s, h) THEN [s EXCEPT !.unrep = @ \ {h}]
  ELSE [s EXCEPT !.unrep = @ \ {h},
                 !.appliedKey = BaiGet(s, h),
                 !.rep = [idx |-> BaiGet(s, h), h |-> h],
                 !.bai = {p \in @ : p[1] # h - 1},
                 !.pool = @ \ s.led[h].txs, !.batched = @ \ s.led[h].txs]

\* stop at any point: everything volatile is gone
Crash(s) == [s EXCEPT !.up = FALSE, !.q = <<>>, !.unrep = {}, !.pool = {}, !.batched = {}, !.pend = <<>>,
                      !.just = FALSE, !.bai = {}, !.rep = [idx |-> 0, h |-> 0]]

\* blocks fetched from a peer's ledger and handed to the executor (recoverFromSnapshot): heights lastExec+1..target
Synced(s, chain, target) ==
  [s EXCEPT !.q = @ \o [i \in 1..(target - s.lastExec) |-> chain[s.lastExec + i]], !.lastExec = target,
            !.batched = IF DedupFix THEN @ \cup UNION {chain[s.lastExec + i].txs : i \in 1..(target - s.lastExec)} ELSE @]

\* NewNode(Applied = ledger height) + Start: replay starts behind the newest snapshot
Restart(s) ==
  [s EXCEPT !.up = TRUE, !.inc = @ + 1, !.lastExec = Len(s.led), !.seqNo = Len(s.led),
            !.bai = {<<Len(s.led), s.appliedKey>>}, !.applied = s.snapIdx]

\* a follower installs the leader's snapshot (rd.Snapshot): durable first, then block fetch up to its height
Install(s, sIdx, sH, chain) ==
  LET s1 == [s EXCEPT !.snapIdx = sIdx, !.snapH = sH] IN
  [Synced(s1, chain, sH) EXCEPT !.applied = sIdx]

(***************************************************************************)
(* Solo (pkg/order/solo): one node, no log.  The mempool hands a batch     *)
(* with height seqNo + 1 to the proposal goroutine, which forwards it to   *)
(* the executor iff that is lastExec + 1 and otherwise terminates          *)
(* (`dead`: nothing is delivered any more).  ReportState only reaches the  *)
(* mempool for heights that are multiples of 10 (not relevant to C20).     *)
(***************************************************************************)
SoloInit == [NodeInit EXCEPT !.just = FALSE]
SoloPropose(s, B, id) ==
  LET h == s.seqNo + 1 IN
  IF s.just THEN [s |-> [s EXCEPT !.seqNo = h, !.batched = @ \cup B], m |-> FALSE]      \* goroutine gone (just = dead)
  ELSE IF h # s.lastExec + 1 THEN [s |-> [s EXCEPT !.seqNo = h, !.batched = @ \cup B, !.just = TRUE], m |-> FALSE]
  ELSE [s |-> [s EXCEPT !.seqNo = h, !.batched = @ \cup B, !.lastExec = h,
                        !.q = Append(@, [h |-> h, id |-> id, txs |-> B])], m |-> TRUE]
SoloReport(s, h) == [s EXCEPT !.unrep = @ \ {h}]
SoloRestart(s) == [s EXCEPT !.up = TRUE, !.inc = @ + 1, !.lastExec = Len(s.led), !.seqNo = Len(s.led), !.just = FALSE]

(***************************************************************************)
(* Part 2.  Ghost and the listed properties.                               *)
(*   g.dl[n]   : everything node n's executor was handed, in order:        *)
(*               [inc (incarnation), h, id (batch identity), txs]          *)
(*   g.base[n] : executed (ledger) height at the start of each incarnation *)
(*   g.durable : the ordering log survives a restart (raft: yes, solo: no) *)
(***************************************************************************)
GInit(Nodes, durable) == [dl |-> [n \in Nodes |-> <<>>], base |-> [n \in Nodes |-> <<0>>], durable |-> durable]
GDeliver(g, n, inc, blk) == [g EXCEPT !.dl[n] = Append(@, [inc |-> inc, h |-> blk.h, id |-> blk.id, txs |-> blk.txs])]
GDeliverSeq(g, n, inc, blks) ==
  [g EXCEPT !.dl[n] = @ \o [i \in 1..Len(blks) |-> [inc |-> inc, h |-> blks[i].h, id |-> blks[i].id, txs |-> blks[i].txs]]]
GRestart(g, n, base) == [g EXCEPT !.base[n] = Append(@, base)]

\* heights increase by exactly one from the last executed height
C20_Contiguous_At(g, n, i) ==
  LET d == g.dl[n][i] IN
  IF i > 1 /\ g.dl[n][i - 1].inc = d.inc THEN d.h = g.dl[n][i - 1].h + 1
  ELSE d.h = g.base[n][d.inc] + 1

\* each batch at most once: a batch is handed over again only after a restart, at the same height, if that
\* height had not been executed
C20_AtMostOnce_At(g, n, i) ==
  LET d == g.dl[n][i] IN
  \A j \in 1..(i - 1) : g.dl[n][j].id = d.id =>
      (g.dl[n][j].inc < d.inc /\ g.dl[n][j].h = d.h /\ d.h > g.base[n][d.inc])

\* identical content on every replica
C20_SameContent_At(g, n, i) ==
  LET d == g.dl[n][i] IN
  \A m \in DOMAIN g.dl : m # n => \A j \in 1..Len(g.dl[m]) : g.dl[m][j].h = d.h => g.dl[m][j].id = d.id

\* no entry that was not executed is skipped: a height that was handed over before a crash and not executed
\* is given to the same batch after the restart (the log is durable)
C20_NoSkip_At(g, n, i) ==
  LET d == g.dl[n][i] IN
  g.durable => \A j \in 1..(i - 1) : (g.dl[n][j].inc < d.inc /\ g.dl[n][j].h = d.h) => g.dl[n][j].id = d.id

\* delivery j of node n still belongs to n's chain when delivery i happens (it was executed before every
\* later restart, or it is of the same incarnation)
Effective(g, n, j, i) ==
  \A k \in (g.dl[n][j].inc + 1)..g.dl[n][i].inc : g.dl[n][j].h <= g.base[n][k]

\* a transaction is included in at most one delivered block
C20_TxOnce_At(g, n, i) ==
  LET d == g.dl[n][i] IN
  \A j \in 1..(i - 1) : (g.dl[n][j].h # d.h /\ Effective(g, n, j, i)) => g.dl[n][j].txs \cap d.txs = {}

C20_Contiguous(g)  == \A n \in DOMAIN g.dl : \A i \in 1..Len(g.dl[n]) : C20_Contiguous_At(g, n, i)
C20_AtMostOnce(g)  == \A n \in DOMAIN g.dl : \A i \in 1..Len(g.dl[n]) : C20_AtMostOnce_At(g, n, i)
C20_SameContent(g) == \A n \in DOMAIN g.dl : \A i \in 1..Len(g.dl[n]) : C20_SameContent_At(g, n, i)
C20_NoSkip(g)      == \A n \in DOMAIN g.dl : \A i \in 1..Len(g.dl[n]) : C20_NoSkip_At(g, n, i)
C20_TxOnce(g)      == \A n \in DOMAIN g.dl : \A i \in 1..Len(g.dl[n]) : C20_TxOnce_At(g, n, i)

(***************************************************************************)
(* Model-level statement of "skipped exactly the executed entries": the    *)
(* chain the committed log defines (filter 2 applied from height 0).       *)
(***************************************************************************)
RECURSIVE CanonFrom(_, _, _)
CanonFrom(log, i, acc) ==
  IF i > Len(log) THEN acc
  ELSE CanonFrom(log, i + 1, IF log[i].k = "b" /\ log[i].h = Len(acc) + 1
                             THEN Append(acc, [h |-> log[i].h, id |-> log[i].id, txs |-> log[i].txs]) ELSE acc)
Canon(log) == CanonFrom(log, 1, <<>>)
IsPrefix(a, b) == Len(a) <= Len(b) /\ \A i \in 1..Len(a) : a[i] = b[i]
=============================================================================
