------------------------------ MODULE Mempool ------------------------------
(***************************************************************************)
(* Transaction pool of bitxhub (pkg/order/mempool).                        *)
(*                                                                         *)
(* The pool is written as pure functions over a state record `s`, one      *)
(* function per exported entry point, in the structure of the Go code      *)
(* (mempool_impl.go / tx_store.go).  The same functions serve              *)
(*   - MempoolMC.tla    : exhaustive model checking of the design,         *)
(*   - MempoolTrace.tla : validation of traces recorded from the real pool *)
(*     (observed state is bound to the logged one; the function result is  *)
(*     only compared with it - a mismatch is drift, not a violation).      *)
(* The listed properties C18_x / C19_x are   predicates over (s, g) where g  *)
(* is a ghost record updated by property-level rules only (GhostAfterXxx).  *)
(*                                                                         *)
(* Accounts are integers (rank of the address string: the pool's indices   *)
(* break timestamp ties by address order).  A transaction is a record      *)
(* [id, a, n, ts]: id = hash (unique), a = account, n = nonce, ts =        *)
(* transaction timestamp (tx data, chosen by the driver).                  *)
(***************************************************************************)
EXTENDS Integers, Sequences, FiniteSets, SequencesExt, FiniteSetsExt, TLC

\* Accounts (ranks 1..k), the configured batch size and the timed-block flag are carried in the
\* state record (commitN's domain, fields bs, timed) so that one trace file may hold pools of
\* different configurations.
CONSTANTS PendingFix,    \* BOOLEAN: TRUE = model the repaired commit path (pending nonce follows the commit nonce)
          RemoveIdxFix   \* BOOLEAN: TRUE = age eviction removes only the evicted account's own nonces from its index

P(t) == [a |-> t.a, n |-> t.n]
Max2(x, y) == IF x > y THEN x ELSE y
Min2(x, y) == IF x < y THEN x ELSE y
SeqRange(q) == {q[i] : i \in 1..Len(q)}

(***************************************************************************)
(* State                                                                   *)
(***************************************************************************)
InitState(L, h, bs, timed) ==
  [ items    |-> {},   \* allTxs[a].items   : tx records, at most one per pointer
    idx      |-> {},   \* allTxs[a].index   : pointers [a,n]
    hashes   |-> {},   \* txHashMap         : [id,a,n]
    ready    |-> {},   \* priorityIndex     : [a,n,ts]
    parked   |-> {},   \* parkingLotIndex   : [a,n]
    batched  |-> {},   \* batchedTxs        : [a,n]
    arr      |-> {},   \* removeTimeoutIndex: [a,n,g]  g = arrival group
    commitN  |-> L,    \* nonceCache.commitNonces (lazily loaded from the ledger = L)
    pend     |-> [a \in DOMAIN L |-> -1],   \* nonceCache.pendingNonces; -1 = no entry
    bs       |-> bs,   \* configured batch size (constant)
    timed    |-> timed,\* timed-block mode (constant)
    nonBatch |-> 0,    \* priorityNonBatchSize
    seqNo    |-> h ]   \* batchSeqNo

Accts(s) == DOMAIN s.commitN
PendingOf(s, a) == IF s.pend[a] = -1 THEN s.commitN[a] ELSE s.pend[a]
ItemAt(s, p)  == {t \in s.items : P(t) = p}
HashIds(s)    == {h.id : h \in s.hashes}

(***************************************************************************)
(* ProcessTransactions                                                     *)
(***************************************************************************)
\* entry filters, in order: stale nonce, duplicate pointer inside the call, known hash
FilterValid(s, txs) ==
  LET F[i \in 0..Len(txs)] ==
        IF i = 0 THEN [seen |-> {}, valid |-> <<>>]
        ELSE LET p == F[i-1]  t == txs[i] IN
             IF t.n < PendingOf(s, t.a) THEN p
             ELSE IF P(t) \in p.seen THEN p
             ELSE IF t.id \in HashIds(s) THEN [p EXCEPT !.seen = @ \cup {P(t)}]
             ELSE [seen |-> p.seen \cup {P(t)}, valid |-> Append(p.valid, t)]
  IN F[Len(txs)].valid

\* list.filterReady(pendingNonce) on the per-account index
ReadyRun(idx, a, from) ==
  LET R[n \in Nat] == IF [a |-> a, n |-> n] \in idx THEN R[n+1] ELSE n
  IN  R[from]      \* next demanded nonce

Insert(s, valid, grp) ==
  LET vs   == SeqRange(valid)
      ptrs == {P(t) : t \in vs}
  IN [s EXCEPT !.items  = {t \in @ : P(t) \notin ptrs} \cup vs,
               !.idx    = @ \cup ptrs,
               !.hashes = @ \cup {[id |-> t.id, a |-> t.a, n |-> t.n] : t \in vs},
               !.arr    = {e \in @ : [a |-> e.a, n |-> e.n] \notin ptrs}
                             \cup {[a |-> p.a, n |-> p.n, g |-> grp] : p \in ptrs}]

ProcessDirty(s, dirty) ==
  LET next(a)   == ReadyRun(s.idx, a, PendingOf(s, a))
      newReady  == {p \in s.idx : p.a \in dirty /\ p.n >= PendingOf(s, p.a) /\ p.n < next(p.a)}
      nonReady  == {p \in s.idx : p.a \in dirty /\ p.n >= next(p.a)}
      tsOf(p)   == (CHOOSE t \in s.items : P(t) = p).ts
  IN [s EXCEPT !.ready    = @ \cup {[a |-> p.a, n |-> p.n, ts |-> tsOf(p)] : p \in newReady},
               !.parked   = @ \cup nonReady,
               !.nonBatch = @ + Cardinality(newReady),
               !.pend     = [a \in Accts(s) |-> IF a \in dirty THEN next(a) ELSE @[a]]]

(***************************************************************************)
(* generateBlock: ascending walk over the priority index with a skip set   *)
(***************************************************************************)
ReadyLess(x, y) == \/ x.ts < y.ts
                   \/ x.ts = y.ts /\ x.a < y.a
                   \/ x.ts = y.ts /\ x.a = y.a /\ x.n < y.n

\* append p and then every consecutively skipped successor; stop when the limit is hit
\* (the Go code tests len(result) == batchSize after each append only, so limit 0 never stops)
Chain(acc, p, limit) ==
  LET C[k \in Nat] ==      \* k-th successor of p
        LET q   == [a |-> p.a, n |-> p.n + k]
            prv == IF k = 0 THEN acc ELSE C[k-1]
        IN IF k > 0 /\ (prv.done \/ q \notin prv.skip) THEN prv
           ELSE LET r == [prv EXCEPT !.res = Append(@, q), !.bat = @ \cup {q}] IN
                IF Len(r.res) = limit THEN [r EXCEPT !.done = TRUE] ELSE r
      \* find fixpoint: smallest k where C[k] = C[k+1]
      Fix[k \in Nat] == IF k > 0 /\ C[k] = C[k-1] THEN C[k] ELSE Fix[k+1]
  IN Fix[0]

Walk(s, limit) ==
  LET order == SetToSortSeq(s.ready, ReadyLess)
      F[i \in 0..Len(order)] ==
        IF i = 0 THEN [res |-> <<>>, skip |-> {}, bat |-> s.batched, done |-> FALSE]
        ELSE LET acc == F[i-1]
                 k   == order[i]
                 p   == [a |-> k.a, n |-> k.n]
                 prev == [a |-> k.a, n |-> k.n - 1]
             IN IF acc.done \/ p \in acc.bat THEN acc
                ELSE IF (k.n >= 1 /\ prev \in acc.bat) \/ k.n = s.commitN[k.a]
                     THEN Chain(acc, p, limit)
                     ELSE [acc EXCEPT !.skip = @ \cup {p}]
  IN F[Len(order)]

NoBatch == [ok |-> FALSE, h |-> 0, txs |-> <<>>]     \* result "no batch"

\* returns [s |-> new state, out |-> NoBatch or [ok, h |-> seqNo, txs |-> sequence of [id (0 = nil tx), a, n]]]
GenerateInner(s) ==
  LET limit == Min2(s.nonBatch, s.bs)
      w     == Walk(s, limit)
      idOf(p) == IF ItemAt(s, p) = {} THEN 0 ELSE (CHOOSE t \in ItemAt(s, p) : TRUE).id
      txs   == [i \in 1..Len(w.res) |-> [id |-> idOf(w.res[i]), a |-> w.res[i].a, n |-> w.res[i].n]]
  IN IF ~s.timed /\ Len(w.res) = 0 /\ s.nonBatch > 0
     THEN [s |-> [s EXCEPT !.nonBatch = 0], out |-> NoBatch]      \* "batch with 0 txs" error path
     ELSE [s |-> [s EXCEPT !.batched = w.bat,
                           !.seqNo = @ + 1,
                           !.nonBatch = IF @ >= Len(w.res) THEN @ - Len(w.res) ELSE @],
           out |-> [ok |-> TRUE, h |-> s.seqNo + 1, txs |-> txs]]

Generate(s) ==
  IF ~s.timed /\ s.nonBatch = 0 THEN [s |-> s, out |-> NoBatch] ELSE GenerateInner(s)

Process(s, txs, leader, grp) ==
  LET valid == FilterValid(s, txs)
      s1    == Insert(s, valid, grp)
      s2    == ProcessDirty(s1, {t.a : t \in SeqRange(valid)})
  IN IF leader /\ s2.nonBatch >= s2.bs /\ ~s2.timed
     THEN GenerateInner(s2)
     ELSE [s |-> s2, out |-> NoBatch]

(***************************************************************************)
(* CommitTransactions                                                      *)
(***************************************************************************)
CommitCore(s, ids) ==
  LET F[i \in 0..Len(ids)] ==
        IF i = 0 THEN [hashes |-> s.hashes, batched |-> s.batched,
                       upd |-> [a \in Accts(s) |-> 0], dirty |-> {}]
        ELSE LET p == F[i-1]
                 hs == {h \in p.hashes : h.id = ids[i]} IN
             IF hs = {} THEN p
             ELSE LET h == CHOOSE x \in hs : TRUE
                      nw == h.n + 1 IN
                  [hashes  |-> p.hashes \ hs,
                   batched |-> p.batched \ {[a |-> h.a, n |-> h.n]},
                   upd     |-> IF p.upd[h.a] < nw /\ s.commitN[h.a] < nw
                               THEN [p.upd EXCEPT ![h.a] = nw] ELSE p.upd,
                   dirty   |-> p.dirty \cup {h.a}]
      r       == F[Len(ids)]
      commitN == [a \in Accts(s) |-> IF r.upd[a] > 0 THEN r.upd[a] ELSE s.commitN[a]]
      \* forward(): iterates the per-account *index*
      gonePtr == {p \in s.idx : p.a \in r.dirty /\ p.n < commitN[p.a]}
      gone    == {t \in s.items : P(t) \in gonePtr}
      ready   == s.ready \ {[a |-> t.a, n |-> t.n, ts |-> t.ts] : t \in gone}
      s1 == [s EXCEPT !.hashes  = r.hashes,
                      !.batched = r.batched,
                      !.commitN = commitN,
                      !.items   = @ \ gone,
                      !.idx     = @ \ gonePtr,
                      !.ready   = ready,
                      !.parked  = @ \ gonePtr,
                      !.arr     = {e \in @ : [a |-> e.a, n |-> e.n] \notin gonePtr}]
      \* repaired behaviour ("fix:" commit in /repo): the pending nonce never lags the commit nonce, and
      \* transactions that became ready through the commit are promoted
      lag == {a \in r.dirty : s1.pend[a] # -1 /\ s1.pend[a] < commitN[a]}
      s2 == IF PendingFix
            THEN ProcessDirty([s1 EXCEPT !.pend = [a \in Accts(s) |-> IF a \in lag THEN commitN[a] ELSE @[a]]], lag)
            ELSE s1
  IN [s2 EXCEPT !.nonBatch = Min2(@, Cardinality(s2.ready))]

Commit(s, ids) == CommitCore(s, ids)

(***************************************************************************)
(* RemoveAliveTimeoutTxs with the cut placed after arrival group `cut`     *)
(***************************************************************************)
RemoveAged(s, cut) ==
  LET old   == {e \in s.arr : e.g <= cut}
      rm    == {t \in s.items : /\ \E e \in old : e.a = t.a /\ e.n = t.n
                                /\ P(t) \notin s.batched
                                /\ [a |-> t.a, n |-> t.n, ts |-> t.ts] \notin s.ready
                                /\ P(t) \in s.parked}
      accs  == {t.a : t \in rm}
      rmPtr == {P(t) : t \in rm}
      \* as coded: every affected account's index loses the nonces removed for ANY account
      idxLost == IF RemoveIdxFix THEN rmPtr
                 ELSE {p \in s.idx : p.a \in accs /\ \E t \in rm : t.n = p.n}
  IN [s |-> [s EXCEPT !.hashes = {h \in @ : h.id \notin {t.id : t \in rm}},
                      !.items  = @ \ rm,
                      !.idx    = @ \ idxLost,
                      !.ready  = @ \ {[a |-> t.a, n |-> t.n, ts |-> t.ts] : t \in rm},
                      !.parked = @ \ rmPtr,
                      !.arr    = {e \in @ : [a |-> e.a, n |-> e.n] \notin rmPtr}],
      out |-> Cardinality(rm)]

SetSeqNo(s, k) == [s EXCEPT !.seqNo = k]
GhostAfterSetSeqNo(g, k) == [g EXCEPT !.lastH = k]

(***************************************************************************)
(* What the public query API answers (derived in MC, logged on traces)     *)
(***************************************************************************)
Queries(s) ==
  [ pending    |-> [a \in Accts(s) |-> PendingOf(s, a)],                 \* GetPendingNonceByAccount
    hasPending |-> s.nonBatch > 0,                                       \* HasPendingRequest
    got        |-> {h.id : h \in {x \in s.hashes :                       \* GetTransaction(hash) = that tx
                        \E t \in s.items : P(t) = [a |-> x.a, n |-> x.n] /\ t.id = x.id}} ]

(***************************************************************************)
(* Ghost (history) record g, updated by property-level rules only          *)
(***************************************************************************)
InitGhost(L, h) ==
  [ lastH    |-> h,       \* sequence number of the last batch handed out, or the value of the last explicit reset
    tc       |-> L,       \* committed nonce the pool was told about: ledger at (re)start, commits of held txs
    exp      |-> L,       \* next nonce that may be batched per account
    given    |-> {},      \* tx records handed to ProcessTransactions
    admitted |-> {},      \* tx records the pool accepted (became retrievable)
    superseded |-> {},    \* ids replaced by a later tx of the same account and nonce
    evicted  |-> {},      \* ids removed by the age rule while not ready
    committed |-> {},     \* ids named in commit notifications
    viol     |-> {} ]     \* names of violated action-level clauses

\* after ProcessTransactions(txs): pre/post states, q = post queries, out = returned batch
BatchViol(g, s, out) ==      \* clauses of C18 judged when a batch is handed out; s = state before
  IF ~out.ok THEN [exp |-> g.exp, v |-> {}]
  ELSE LET F[i \in 0..Len(out.txs)] ==
             IF i = 0 THEN [exp |-> g.exp, v |-> {}]
             ELSE LET p == F[i-1]  t == out.txs[i]
                      want == Max2(p.exp[t.a], g.tc[t.a]) IN
                  IF t.id <= 0 THEN [p EXCEPT !.v = @ \cup {"C18_OnlyGiven"}]   \* nil / unknown transaction in a batch
                  ELSE
                  [exp |-> [p.exp EXCEPT ![t.a] = Max2(t.n + 1, @)],
                   v   |-> p.v \cup (IF t.n > want THEN {"C18_GapFree"} ELSE {})
                                \cup (IF t.n < want /\ t.n >= g.tc[t.a] THEN {"C18_OncePerNonce"} ELSE {})
                                \cup (IF t.n < g.tc[t.a] THEN {"C18_NotBelowCommit"} ELSE {})
                                \cup (IF ~\E x \in g.given : x.id = t.id /\ x.a = t.a /\ x.n = t.n
                                      THEN {"C18_OnlyGiven"} ELSE {})]
           r == F[Len(out.txs)]
       IN [exp |-> r.exp,
           v   |-> r.v \cup (IF Len(out.txs) > s.bs THEN {"C18_BatchSize"} ELSE {})
                       \cup (IF out.h # g.lastH + 1 THEN {"C18_SeqNoStep"} ELSE {})]

GhostAfterProcess(g, s, s2, q2, txs, out) ==
  LET g1  == [g EXCEPT !.given = @ \cup SeqRange(txs)]
      new == {t \in SeqRange(txs) : t.id \in q2.got /\ t.id \notin HashIds(s)}
      sup == {t.id : t \in {x \in s.items : \E y \in new : P(y) = P(x) /\ y.id # x.id}}
      b   == BatchViol(g1, s, out)
  IN [g1 EXCEPT !.admitted = @ \cup new, !.superseded = @ \cup sup,
                !.exp = b.exp, !.viol = @ \cup b.v, !.lastH = IF out.ok THEN out.h ELSE @]

GhostAfterGenerate(g, s, out) ==
  LET b == BatchViol(g, s, out) IN
  [g EXCEPT !.exp = b.exp, !.lastH = IF out.ok THEN out.h ELSE @,
            !.viol = @ \cup b.v]

GhostAfterCommit(g, s, ids) ==
  LET known == {h \in s.hashes : h.id \in SeqRange(ids)} IN
  [g EXCEPT !.committed = @ \cup SeqRange(ids),
            !.tc = [a \in Accts(s) |-> Max2(@[a], Max({0} \cup {h.n + 1 : h \in {x \in known : x.a = a}}))]]

GhostAfterRemove(g, s, s2) ==
  LET goneIds == {t.id : t \in s.items \ s2.items}
      wasReady == {t.id : t \in {x \in s.items : [a |-> x.a, n |-> x.n, ts |-> x.ts] \in s.ready}}
  IN [g EXCEPT !.evicted = @ \cup (goneIds \ wasReady),
               !.viol = @ \cup (IF goneIds \cap wasReady # {} THEN {"C19_EvictedReady"} ELSE {})]

(***************************************************************************)
(* The listed properties, as predicates over the (observed) state s, the   *)
(* ghost g and the query answers q                                         *)
(***************************************************************************)
\* C18: judged at the moment a batch is handed out (BatchViol) and remembered in g.viol
C18_GapFree(g)        == "C18_GapFree" \notin g.viol         \* never skips a nonce
C18_OncePerNonce(g)   == "C18_OncePerNonce" \notin g.viol    \* same (account, nonce) never batched twice
C18_NotBelowCommit(g) == "C18_NotBelowCommit" \notin g.viol  \* never a nonce below the committed nonce
C18_OnlyGiven(g)      == "C18_OnlyGiven" \notin g.viol       \* only transactions it was given
C18_BatchSize(g)      == "C18_BatchSize" \notin g.viol       \* never more than the configured size
C18_SeqNoStep(g)      == "C18_SeqNoStep" \notin g.viol       \* sequence numbers step by one

\* C19
Eligible(s, g, t) == \A m \in g.tc[t.a]..(t.n - 1) : \E x \in s.items : x.a = t.a /\ x.n = m
WasBatched(g, t)  == t.n < Max2(g.exp[t.a], g.tc[t.a])
NextGap(s, a, from) ==
  LET R[n \in Nat] == IF \E x \in s.items : x.a = a /\ x.n = n THEN R[n+1] ELSE n IN R[from]

C19_NoSilentLoss(s, g, q) ==
  \A t \in g.admitted : \/ t.id \in g.committed
                        \/ t.id \in q.got                   \* still held: retrievable by its hash
                        \/ t.id \in g.superseded
                        \/ t.id \in g.evicted
                        \/ t.n < g.tc[t.a]                   \* its nonce was committed
C19_EvictOnlyNonReady(g) == "C19_EvictedReady" \notin g.viol
C19_PendingWork(s, g, q) ==
  (\E t \in s.items : t.n >= g.tc[t.a] /\ Eligible(s, g, t) /\ ~WasBatched(g, t)) => q.hasPending
C19_PendingNonceExact(s, g, q) ==
  \A a \in Accts(s) : q.pending[a] = NextGap(s, a, g.tc[a])
=============================================================================
