------------------------------- MODULE Exec -------------------------------
(***************************************************************************)
(* Execution shell of bitxhub (internal/executor/handle.go applyTransaction*)
(* / applyBxhTransaction / transfer / payGasFee / payLeftAsGasFee /        *)
(* payAdmins): value movement of native transactions, written as step      *)
(* functions over the balance map, and the listed properties C07 / C08 /   *)
(* C14 as predicates over observations of one executed block.              *)
(***************************************************************************)
EXTENDS Integers, Sequences, FiniteSets, FiniteSetsExt, SequencesExt, TLC

SeqRange(q) == {q[i] : i \in 1..Len(q)}
SumOver(f) == FoldSet(LAMBDA a, acc : acc + f[a], 0, DOMAIN f)
Max2(x, y) == IF x > y THEN x ELSE y

(***************************************************************************)
(* Model of one native transaction (used by ExecMC): bal = balances,       *)
(* admins = fee recipients, fee = gasUsed * price.                         *)
(* outcome "ok": body effect applied, fee paid; "fail": body has no effect, *)
(* fee paid; if the fee cannot be paid the body effect is reverted and the  *)
(* whole remaining balance is paid.                                         *)
(***************************************************************************)
PayAdmins(bal, admins, amount) ==
  LET share == amount \div Cardinality(admins) IN
  [a \in DOMAIN bal |-> IF a \in admins THEN bal[a] + share ELSE bal[a]]

\* transfer as repaired: a negative or unaffordable amount fails, a self-transfer moves nothing
Transfer(bal, from, to, amt) ==
  IF amt = 0 THEN [ok |-> TRUE, bal |-> bal]
  ELSE IF amt < 0 \/ bal[from] < amt THEN [ok |-> FALSE, bal |-> bal]
  ELSE IF from = to THEN [ok |-> TRUE, bal |-> bal]
  ELSE [ok |-> TRUE, bal |-> [bal EXCEPT ![from] = @ - amt, ![to] = @ + amt]]

ApplyTx(bal, admins, from, body, fee) ==    \* body = [ok, bal] result of the transaction body
  LET b1 == IF body.ok THEN body.bal ELSE bal IN
  IF b1[from] >= fee
  THEN [status |-> IF body.ok THEN "SUCCESS" ELSE "FAILED", bal |-> PayAdmins([b1 EXCEPT ![from] = @ - fee], admins, fee)]
  ELSE [status |-> "FAILED", bal |-> PayAdmins([bal EXCEPT ![from] = 0], admins, bal[from])]

(***************************************************************************)
(* Listed properties over one observed block                               *)
(*   pre, post : address -> balance (accounts absent from pre have 0)      *)
(***************************************************************************)
BalOf(m, a) == IF a \in DOMAIN m THEN m[a] ELSE 0
C14_NoCreation(pre, post)  == SumOver(post) <= SumOver(pre)
C14_NonNegative(post, negFlag) == ~negFlag /\ \A a \in DOMAIN post : post[a] >= 0
\* one native transaction alone in a block: fee debited to the sender reaches the admins up to rounding
C14_FeeRounding(pre, post, admins) ==
  LET lost == SumOver(pre) - SumOver(post) IN lost >= 0 /\ lost <= Cardinality(admins) - 1
\* a successful transfer alone in a block moves exactly amt (amt given as a number) from sender to receiver
C14_TransferExact(pre, post, admins, from, to, amt) ==
  LET others == (DOMAIN post \cup DOMAIN pre) \ (admins \cup {from, to}) IN
  /\ \A a \in others : BalOf(post, a) = BalOf(pre, a)
  /\ (from # to /\ to \notin admins) => BalOf(post, to) - BalOf(pre, to) = amt
  /\ (from # to /\ from \notin admins) => BalOf(pre, from) - BalOf(post, from) >= amt
\* a failed transfer alone in a block leaves the receiver untouched
C14_InsufficientNoEffect(pre, post, admins, from, to) ==
  (to \notin admins /\ to # from) => BalOf(post, to) = BalOf(pre, to)

C07_FailedNoEffect(attributable, diff, allowed) == attributable => diff \subseteq allowed
C07_NotDelivered(deliv, txs) == \A p \in deliv : p + 1 \in 1..Len(txs) /\ txs[p + 1].status = "SUCCESS"
C07_ViewNoEffect(changed, metaSame) == changed = {} /\ metaSame
\* ... and nothing stays behind in the executor that ran it: asked the same read-only questions later, it answers like a view
\* executor that has never run anything (same = the receipts of both agree in status and result)
C07_ViewLeavesNothing(same) == same
C08_OneReceiptPerTx(n, nrec, orderOK) == nrec = n /\ orderOK
C08_NextHeight(hPrev, h) == h = hPrev + 1

(***************************************************************************)
(* All generic formulas on one observed Block event e (harness/lockstep):  *)
(* returns the set of <<formula name, detail>> that fail.  adm0 = admins.  *)
(***************************************************************************)
GenericBlockViol(e, adm0) ==
  LET txs   == e.txs
      n     == Len(txs)
      adm   == adm0
      one   == n = 1
      t     == txs[1]
      lost  == SumOver(e.pre) - SumOver(e.bal)
  IN (IF C08_OneReceiptPerTx(n, e.nrec, e.orderOK) THEN {} ELSE {<<"C08_OneReceiptPerTx", e.h>>})
     \cup (IF C08_NextHeight(e.hPrev, e.h) THEN {} ELSE {<<"C08_NextHeight", e.h>>})
     \cup (IF C07_FailedNoEffect(e.attributable, ToSet(e.diff), ToSet(e.allowed)) THEN {}
           ELSE {<<"C07_FailedNoEffect", [keys |-> ToSet(e.diff) \ ToSet(e.allowed),
                                          failed |-> {[m |-> txs[p + 1].m, c |-> txs[p + 1].to, cls |-> txs[p + 1].cls] : p \in ToSet(e.failed)}]>>})
     \cup (IF e.nrec # n \/ C07_NotDelivered(ToSet(e.deliv), txs) THEN {} ELSE {<<"C07_NotDelivered", e.h>>})
     \cup (IF C14_NoCreation(e.pre, e.bal) THEN {}
           ELSE {<<"C14_NoCreation", [gain |-> 0 - lost, kinds |-> {[k |-> txs[i].k, self |-> txs[i].from = txs[i].to, amt |-> txs[i].amtKind] : i \in 1..n}]>>})
     \cup (IF C14_NonNegative(e.bal, e.negative) THEN {}
           ELSE {<<"C14_NonNegative", {[k |-> txs[i].k, amt |-> txs[i].amtKind] : i \in 1..n}>>})
     \cup (IF lost <= n * (Cardinality(adm) - 1) THEN {} ELSE {<<"C14_FeeRounding", lost>>})
     \* a failed transaction may cost its sender the fee, and the fee is what the admins receive: value that leaves the
     \* sender of a failed transaction and reaches nobody is an effect beyond nonce and fee
     \cup (IF one /\ e.nrec = 1 /\ t.status = "FAILED" /\ lost > Cardinality(adm) - 1
           THEN {<<"C07_OnlyNonceAndFee", [lost |-> lost, k |-> t.k, m |-> t.m]>>} ELSE {})
     \cup (IF one /\ e.nrec = 1 /\ t.k = "transfer" /\ t.status = "SUCCESS" /\ t.amtKind = "num"
              /\ ~C14_TransferExact(e.pre, e.bal, adm, t.from, t.to, t.amtNum)
           THEN {<<"C14_TransferExact", [amt |-> t.amtNum, self |-> t.from = t.to]>>} ELSE {})
     \cup (IF one /\ e.nrec = 1 /\ t.k = "transfer" /\ t.status = "SUCCESS" /\ t.amtKind \in {"neg", "big"}
           THEN {<<"C14_TransferExact", [amt |-> t.amtKind, self |-> t.from = t.to]>>} ELSE {})
     \cup (IF one /\ e.nrec = 1 /\ t.k = "transfer" /\ t.status = "FAILED"
              /\ ~C14_InsufficientNoEffect(e.pre, e.bal, adm, t.from, t.to)
           THEN {<<"C14_InsufficientNoEffect", t.amtKind>>} ELSE {})

=============================================================================
