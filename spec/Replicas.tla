----------------------------- MODULE Replicas -----------------------------
(***************************************************************************)
(* Replicated execution (C01): the same ordered block sequence is fed to   *)
(* several real nodes that differ in everything the result must not depend *)
(* on - stop / reopen placements, proof verification mode (serial /        *)
(* parallel goroutines), a preceding read-only execution of the same       *)
(* transactions, wall clock, Go map iteration order of each run.           *)
(* State: res[r][h] = digest record of block h on replica r (block hash,   *)
(* state / tx / receipt / timeout roots, parent hash, every receipt's      *)
(* covered fields, the delivery / timeout / multi-tx metadata).            *)
(***************************************************************************)
EXTENDS Integers, Sequences, FiniteSets, TLC

Fields == {"block", "state", "tx", "receipt", "timeout", "parent", "receipts", "meta"}
DiffFields(a, b) == {f \in Fields : a[f] # b[f]}
\* C01: every replica computed, for every height, the digest the reference replica computed
C01_Agreement(ref, other) == DiffFields(ref, other) = {}

(* design-level model used by ReplicasMC: execution is a function of the block sequence only; restarts *)
(* and view executions are stuttering steps w.r.t. results                                              *)
Exec(chain, h) == <<"digest", SubSeq(chain, 1, h)>>
=============================================================================
