SPECIFICATION Spec
CONSTANTS
  Kind = "role"
  MaxOpen = 3
PROPERTIES EdgeOK ReturnOK Absorbing
CHECK_DEADLOCK FALSE
