CONSTANTS
  BeginOnce = TRUE
SPECIFICATION Spec
POSTCONDITION Accepted
CHECK_DEADLOCK FALSE
