---------------------------- MODULE StateLedger ----------------------------
(***************************************************************************)
(* State side of the bitxhub ledger (internal/ledger: SimpleLedger,        *)
(* SimpleAccount, AccountCache, stateChanger, block journals).             *)
(*                                                                         *)
(* Two descriptions live here:                                             *)
(*  (1) the property-level ghost G: a flat map slot -> value updated by    *)
(*      every write in execution order, an undo log for journaled writes,  *)
(*      the map at every committed height and a symbolic root chain.  The  *)
(*      listed properties C13 / C12 / C10 are stated against G.            *)
(*  (2) the layered implementation model S (dirty set -> per-block origin  *)
(*      cache -> account cache -> database, state changer journal, block   *)
(*      journals with a retained window), one step function per API call,  *)
(*      in the structure of account.go / state_accessor.go.                *)
(* MC checks that (2) always answers like (1); on traces of the real       *)
(* ledger the logged answers are judged against (1) (verdict) and compared *)
(* with (2) (drift).                                                       *)
(*                                                                         *)
(* A slot is a string "acct/bal", "acct/non", "acct/code" or "acct/s/key"; *)
(* values are strings, Nil = "NIL" (absent / deleted).                     *)
(***************************************************************************)
EXTENDS Integers, Sequences, FiniteSets, SequencesExt, FiniteSetsExt, TLC

CONSTANTS Window,      \* number of retained block journals (10 in the code)
          AddStateFix, \* BOOLEAN: TRUE = AddState loads the stored value first (repaired code), FALSE = as first found
          FoundFix     \* BOOLEAN: TRUE = a read finds a key iff its value is non-empty (repaired), FALSE = iff it is non-nil

Nil    == "NIL"
Absent == "ABSENT"      \* "no entry in this layer"
\* an empty, non-nil byte string: as a VALUE it is Nil (the properties speak about values, and Commit compares old and
\* new value with bytes.Equal, so writing it over an absent key changes nothing); the layers can still hold it, and
\* the "found" flag of a read is where the difference could leak out (SFound, C13_StableExistence)
Empty  == "EMPTY"
Norm(v) == IF v = Empty THEN Nil ELSE v
SeqRange(q) == {q[i] : i \in 1..Len(q)}

\* the universe U is a record describing the slots of a run:
\*   U.slots : set of slot strings,  U.acct[slot] : owning account, U.kind[slot] \in {"bal","non","code","st"}
Default(U, sl) == IF U.kind[sl] \in {"bal", "non"} THEN "0" ELSE Nil
AcctFields(U, a) == {sl \in U.slots : U.acct[sl] = a /\ U.kind[sl] # "st"}

(***************************************************************************)
(* (1) Ghost                                                               *)
(***************************************************************************)
EmptyRoot == <<>>     \* a symbolic root is the sequence of the per-block change sets since genesis
GInit(U) ==
  [ cur   |-> [sl \in U.slots |-> Default(U, sl)],   \* truth, including uncommitted writes
    undo  |-> <<>>,                                  \* writes since the last Finalise: <<slot, prev, journaled>>
    free  |-> {},                                    \* slots whose value the property does not determine (see GRevert)
    snaps |-> <<>>,                                  \* valid snapshot ids: [id, len]
    at    |-> <<>>,                                  \* at[h] = [cur, root] when height h was committed (h = 1..)
    head  |-> 0,                                     \* committed height
    low   |-> 0,                                     \* lowest height whose journal is retained (0 = none yet)
    base  |-> [sl \in U.slots |-> Default(U, sl)],   \* truth at the start of the current block
    root  |-> EmptyRoot,                             \* symbolic root of the last flushed block
    wc    |-> [sl \in U.slots |-> 0],                \* live (not reverted) writes per slot in the current block
    rv    |-> {},                                    \* slots with a journaled write reverted in the current block
    c10ok |-> TRUE,                                  \* FALSE once a block contained a write that changed nothing
    flushed |-> FALSE ]                              \* a flush is waiting for its commit

Free == "FREE"
GWrite(g, sl, v, journaled) ==
  [g EXCEPT !.cur[sl] = v, !.free = @ \ {sl}, !.wc[sl] = @ + 1,
            !.undo = Append(@, <<sl, IF sl \in g.free THEN Free ELSE g.cur[sl], journaled>>)]
GSnapshot(g, id) == [g EXCEPT !.snaps = Append(@, [id |-> id, len |-> Len(g.undo)])]
GHasSnap(g, id) == \E i \in 1..Len(g.snaps) : g.snaps[i].id = id
\* Reverting restores every JOURNALED value to what it was at snapshot time (C13).  A non-journaled write
\* (AddState) made since the snapshot is not covered by that promise - it may survive or vanish (it vanishes
\* when its account object was created after the snapshot) - so its slot becomes `free`: the next read of
\* it is adopted as the truth instead of being judged.
GRevert(g, id) ==
  LET i   == CHOOSE j \in 1..Len(g.snaps) : g.snaps[j].id = id
      len == g.snaps[i].len
      n   == Len(g.undo) - len
      U[k \in 0..n] ==          \* after undoing the last k entries
        IF k = 0 THEN [cur |-> g.cur, free |-> g.free]
        ELSE LET e == g.undo[Len(g.undo) - k + 1]  p == U[k-1] IN
             IF e[3] /\ e[2] # Free
             THEN [cur |-> [p.cur EXCEPT ![e[1]] = e[2]], free |-> p.free \ {e[1]}]
             ELSE [cur |-> p.cur, free |-> p.free \cup {e[1]}]
      undone(sl) == Cardinality({k \in (len + 1)..Len(g.undo) : g.undo[k][1] = sl /\ g.undo[k][3]})
  IN [g EXCEPT !.cur = U[n].cur, !.free = U[n].free, !.undo = SubSeq(@, 1, len), !.snaps = SubSeq(@, 1, i - 1),
               !.wc = [sl \in DOMAIN g.wc |-> g.wc[sl] - undone(sl)],
               !.rv = @ \cup {sl \in DOMAIN g.wc : undone(sl) > 0}]
\* a read of a free slot fixes its value
GAdopt(g, sl, v) == IF sl \in g.free THEN [g EXCEPT !.cur[sl] = v, !.free = @ \ {sl}] ELSE g
GFinalise(g) == [g EXCEPT !.undo = <<>>, !.snaps = <<>>]
\* symbolic, injective root: previous root + the set of slots whose value differs from the block's start
Changes(g) == {<<sl, g.cur[sl]>> : sl \in {x \in DOMAIN g.cur : g.cur[x] # g.base[x]}}
\* a write that leaves a slot at its block-start value ("no-op overwrite") is not a state change; whether the
\* code counts it is not constrained by C10, so the root chain of such a trace is not judged from there on
NoopWrite(g) == \E sl \in DOMAIN g.cur : g.wc[sl] > 0 /\ g.cur[sl] = g.base[sl]
GFlush(g) == [g EXCEPT !.root = Append(g.root, Changes(g)), !.flushed = TRUE,
                       !.c10ok = @ /\ ~NoopWrite(g) /\ g.free = {}]
GCommit(g, h) ==
  [g EXCEPT !.at = [i \in 1..h |-> IF i = h THEN [cur |-> g.cur, root |-> g.root, free |-> g.free] ELSE g.at[i]],
            !.head = h, !.base = g.cur, !.flushed = FALSE, !.wc = [sl \in DOMAIN g.cur |-> 0], !.rv = {},
            !.low = IF @ = 0 THEN h ELSE IF h > Window /\ h - Window > @ THEN h - Window ELSE @]   \* pruning never moves the window down
\* which targets must be accepted / refused (C12): inside the retained window
GRollbackOK(g, t) == t <= g.head /\ (t >= g.low \/ (g.low = 1 /\ t = 0))
GRollback(g, U, t) ==
  IF t = g.head THEN g
  ELSE LET c == IF t = 0 THEN [sl \in U.slots |-> Default(U, sl)] ELSE g.at[t].cur IN
       [g EXCEPT !.cur = c, !.base = c, !.undo = <<>>, !.snaps = <<>>, !.head = t, !.wc = [sl \in U.slots |-> 0], !.rv = {},
                 !.free = IF t = 0 THEN {} ELSE g.at[t].free,
                 !.root = IF t = 0 THEN EmptyRoot ELSE g.at[t].root,
                 !.at = SubSeq(@, 1, t), !.low = IF t = 0 THEN 0 ELSE @]
GReopen(g, U) ==
  LET c == IF g.head = 0 THEN [sl \in U.slots |-> Default(U, sl)] ELSE g.at[g.head].cur IN
  [g EXCEPT !.cur = c, !.base = c, !.undo = <<>>, !.snaps = <<>>, !.flushed = FALSE, !.wc = [sl \in U.slots |-> 0], !.rv = {},
            !.free = IF g.head = 0 THEN {} ELSE g.at[g.head].free,
            !.root = IF g.head = 0 THEN EmptyRoot ELSE g.at[g.head].root]

\* expected answer of a prefix query: bag of the values of the live keys among `sls` (slots with the prefix)
LiveVals(g, sls) == [sl \in {x \in sls : g.cur[x] # Nil} |-> g.cur[sl]]
BagOfFn(f) == [v \in {f[x] : x \in DOMAIN f} |-> Cardinality({x \in DOMAIN f : f[x] = v})]
BagOfSeq(q) == [v \in SeqRange(q) |-> Cardinality({i \in 1..Len(q) : q[i] = v})]

(***************************************************************************)
(* (2) Layered implementation model                                        *)
(***************************************************************************)
SInit(U) ==
  [ db     |-> [sl \in U.slots |-> Default(U, sl)],
    cache  |-> [sl \in U.slots |-> Absent],      \* AccountCache (inner account / state / code LRUs)
    origin |-> [sl \in U.slots |-> Absent],      \* per-block read cache of the loaded account objects
    dirty  |-> [sl \in U.slots |-> Absent],      \* write set of the current block
    jnl    |-> <<>>,                             \* state changer: <<slot, prev>>
    revs   |-> <<>>,                             \* [id, idx]
    nextRev |-> 0,
    bj     |-> <<>>,                             \* block journals bj[h] = set of <<slot, prev>> (h = 1..maxJ; pruned = {})
    minJ   |-> 0, maxJ |-> 0,
    pend   |-> {},                               \* last flush: set of <<slot, new, prev>>
    pendCache |-> {} ]

\* loading an account object fills the origin of its three account fields
Touch(U, s, a) ==
  LET fs == {sl \in AcctFields(U, a) : s.origin[sl] = Absent}
      under(sl) == IF s.cache[sl] # Absent THEN s.cache[sl] ELSE s.db[sl]
  IN [s EXCEPT !.origin = [sl \in U.slots |-> IF sl \in fs THEN under(sl) ELSE @[sl]]]

\* GetState / GetBalance / ...: dirty -> origin -> account cache -> db (fills origin)
SRead(U, s0, sl) ==
  LET s == Touch(U, s0, U.acct[sl]) IN
  IF s.dirty[sl] # Absent THEN [s |-> s, v |-> s.dirty[sl]]
  ELSE IF s.origin[sl] # Absent THEN [s |-> s, v |-> s.origin[sl]]
  ELSE LET v == IF s.cache[sl] # Absent THEN s.cache[sl] ELSE s.db[sl] IN
       [s |-> [s EXCEPT !.origin[sl] = v], v |-> v]

\* SetState / SetBalance / SetNonce / SetCode read the previous value and journal it; AddState does neither
SWrite(U, s0, sl, v, journaled) ==
  IF journaled
  THEN LET r == SRead(U, s0, sl) IN
       [r.s EXCEPT !.dirty[sl] = v, !.jnl = Append(@, <<sl, r.v>>)]
  ELSE IF AddStateFix THEN [SRead(U, s0, sl).s EXCEPT !.dirty[sl] = v]
  ELSE [Touch(U, s0, U.acct[sl]) EXCEPT !.dirty[sl] = v]

SSnapshot(s) == [s |-> [s EXCEPT !.revs = Append(@, [id |-> s.nextRev, idx |-> Len(s.jnl)]), !.nextRev = @ + 1],
                 v |-> s.nextRev]
SRevert(s, id) ==
  LET i   == CHOOSE j \in 1..Len(s.revs) : s.revs[j].id = id
      idx == s.revs[i].idx
      Un[k \in 0..(Len(s.jnl) - idx)] ==
        IF k = 0 THEN s.dirty
        ELSE LET e == s.jnl[Len(s.jnl) - k + 1] IN [Un[k-1] EXCEPT ![e[1]] = e[2]]
  IN [s EXCEPT !.dirty = Un[Len(s.jnl) - idx], !.jnl = SubSeq(@, 1, idx), !.revs = SubSeq(@, 1, i - 1)]
SFinalise(s) == [s EXCEPT !.jnl = IF Len(@) > 0 THEN <<>> ELSE @, !.revs = <<>>, !.nextRev = 0]

\* FlushDirtyData: journal entry per modified account, account cache refreshed, per-block objects dropped
SFlush(U, s) ==
  LET org(sl) == IF s.origin[sl] # Absent THEN s.origin[sl] ELSE Default(U, sl)
      chg     == {sl \in U.slots : s.dirty[sl] # Absent /\ Norm(s.dirty[sl]) # Norm(org(sl))}
      accts   == {U.acct[sl] : sl \in chg}          \* accounts with a journal entry = "dirty accounts"
      toCache == {sl \in U.slots : U.acct[sl] \in accts /\ s.dirty[sl] # Absent}
  IN [s EXCEPT !.pend   = {<<sl, s.dirty[sl], org(sl)>> : sl \in chg},
               !.cache  = [sl \in U.slots |-> IF sl \in toCache THEN s.dirty[sl] ELSE @[sl]],
               !.origin = [sl \in U.slots |-> Absent],
               !.dirty  = [sl \in U.slots |-> Absent]]

SCommit(U, s, h) ==
  LET s1 == [s EXCEPT !.db = [sl \in U.slots |-> IF \E p \in s.pend : p[1] = sl
                                                 THEN (CHOOSE p \in s.pend : p[1] = sl)[2] ELSE @[sl]],
                      !.bj = [i \in 1..h |-> IF i = h THEN {<<p[1], p[3]>> : p \in s.pend}
                                             ELSE IF i <= Len(s.bj) THEN s.bj[i] ELSE {}],
                      !.maxJ = h, !.minJ = IF @ = 0 THEN h ELSE @, !.pend = {}]
  IN IF h > Window /\ h - Window > s1.minJ
     THEN [s1 EXCEPT !.minJ = h - Window, !.bj = [i \in 1..h |-> IF i < h - Window THEN {} ELSE @[i]]]
     ELSE s1

SRollbackErr(s, t) ==
  IF s.maxJ < t THEN "higher"
  ELSE IF s.minJ > t /\ ~(s.minJ = 1 /\ t = 0) THEN "toomuch"
  ELSE "ok"
SRollback(U, s, t) ==
  IF SRollbackErr(s, t) # "ok" \/ s.maxJ = t THEN s
  ELSE LET R[i \in t..s.maxJ] ==      \* db after reverting journals maxJ .. i+1
             IF i = s.maxJ THEN s.db
             ELSE [sl \in U.slots |-> IF \E e \in s.bj[i+1] : e[1] = sl
                                      THEN (CHOOSE e \in s.bj[i+1] : e[1] = sl)[2] ELSE R[i+1][sl]]
       IN [s EXCEPT !.db = R[t], !.maxJ = t, !.minJ = IF t = 0 THEN 0 ELSE @,
                    !.bj = SubSeq(@, 1, t),
                    !.cache = [sl \in U.slots |-> Absent], !.origin = [sl \in U.slots |-> Absent],
                    !.dirty = [sl \in U.slots |-> Absent],
                    \* deliberate deviation: the code keeps the state changer across a rollback; reverting to a
                    \* snapshot taken before a rollback is not a meaningful use and is never driven
                    !.jnl = <<>>, !.revs = <<>>, !.nextRev = 0]
SReopen(U, s) ==
  [s EXCEPT !.cache = [sl \in U.slots |-> Absent], !.origin = [sl \in U.slots |-> Absent],
            !.dirty = [sl \in U.slots |-> Absent], !.jnl = <<>>, !.revs = <<>>, !.nextRev = 0, !.pend = {}]

\* QueryByPrefix as intended: values of the live keys, whatever layer holds them
SQuery(U, s, sls) ==
  LET val(sl) == IF s.dirty[sl] # Absent THEN s.dirty[sl]
                 ELSE IF s.cache[sl] # Absent THEN s.cache[sl] ELSE s.db[sl]
  IN [sl \in {x \in sls : Norm(val(x)) # Nil} |-> val(sl)]

\* the "found" flag GetState returns next to the value
SFound(U, s, sl) == LET v == SRead(U, s, sl).v IN IF FoundFix THEN Norm(v) # Nil ELSE v # Nil

(***************************************************************************)
(* Listed properties (over ghost g and an observation)                     *)
(***************************************************************************)
C13_ReadLatest(g, sl, answer)      == sl \in g.free \/ Norm(answer) = g.cur[sl]
C13_QueryExact(g, sls, answerSeq)  == (sls \cap g.free # {}) \/ BagOfSeq(answerSeq) = BagOfFn(LiveVals(g, sls))
C13_RevertRestores(gAfter, readback) == \A sl \in DOMAIN readback : readback[sl] = gAfter.cur[sl]
C12_Refused(g, t, err)   == (~GRollbackOK(g, t)) => err # "ok"
C12_Accepted(g, t, err)  == GRollbackOK(g, t) => err = "ok"
C12_RollbackRestores(gAfter, readback) == \A sl \in DOMAIN readback : readback[sl] = gAfter.cur[sl]
\* C10 on the symbolic chain: seen = set of <<symbolic root, real hash>>
C10_Functional(seen) == \A x, y \in seen : x[1] = y[1] => x[2] = y[2]
C10_Injective(seen)  == \A x, y \in seen : x[2] = y[2] => x[1] = y[1]
=============================================================================
