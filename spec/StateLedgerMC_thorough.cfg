SPECIFICATION Spec
CONSTANTS
  Window = 1
  AddStateFix = TRUE
  FoundFix = TRUE
  MaxH = 3
  MaxOps = 2
  MaxSnaps = 1
  MaxFaults = 1
  Slots = {"a1/bal", "a1/s/k", "a1/s/k1"}
  StVals = {"NIL", "v"}
  EmptyVals = {"EMPTY"}
INVARIANTS Inv_C13_StableExistence Inv_C13_ReadLatest Inv_C13_QueryExact Inv_C12_RollbackGate Inv_C12_DbAtHead Inv_WindowAgree
CHECK_DEADLOCK FALSE
VIEW view
