----------------------------- MODULE PersistMC -----------------------------
(* Exhaustive: every durable write of one block commit is its own step, a crash may happen between any  *)
(* two of them (and before the first / after the last), then Recover and Continue.  With                *)
(* Coded = FALSE (RecoverIntended) the C11 clauses are invariants.  The same state graph is the source  *)
(* of the crash states replayed into the real code: EmitCrash prints every reachable crashed state as   *)
(* one JSON plan together with what RecoverAsCoded predicts for it (PersistGen.cfg).                     *)
EXTENDS Persist, Json

CONSTANTS Heights,   \* heights whose commit is interrupted (the height classes)
          Extra,     \* reference blocks after the interrupted one
          Coded      \* TRUE: recover as the code does, FALSE: as intended

VARIABLES H, d, done, phase, rec, cont
vars == <<H, d, done, phase, rec, cont>>

Ref(n) == [i \in 1..n |-> RefId(i)]
NoRec == [opened |-> FALSE, err |-> "", d |-> Consistent(0, 0)]
NoCont == [ok |-> FALSE, hashes |-> <<>>]

Init == /\ H \in Heights /\ d = Pre(H) /\ done = {} /\ phase = "committing" /\ rec = NoRec /\ cont = NoCont

Write == /\ phase = "committing"
         /\ \E w \in Atoms(H) : CanWrite(w, done) /\ d' = ApplyAtom(d, H, w) /\ done' = done \cup {w}
         /\ UNCHANGED <<H, phase, rec, cont>>
Crash == /\ phase = "committing" /\ phase' = "crashed" /\ UNCHANGED <<H, d, done, rec, cont>>
Recover == /\ phase = "crashed"
           /\ rec' = (IF Coded THEN RecoverAsCoded(d) ELSE RecoverIntended(d))
           /\ d' = rec'.d /\ phase' = "recovered" /\ UNCHANGED <<H, done, cont>>
Continue == /\ phase = "recovered" /\ rec.opened
            /\ cont' = ContinueOn(d, H + Extra)
            /\ d' = (IF cont'.ok THEN [Consistent(H + Extra, d.st.min) EXCEPT !.st.data = IF d.st.data = d.ix.h THEN H + Extra ELSE -1] ELSE d)
            /\ phase' = "continued" /\ UNCHANGED <<H, done, rec>>
Next == Write \/ Crash \/ Recover \/ Continue
Spec == Init /\ [][Next]_vars

Inv_Durable == phase \in {"committing", "crashed"} => d = DurableAfter(H, done) /\ done \in CrashStates(H)
Inv_C11_Opens == phase \in {"recovered", "continued"} => C11_Opens(Observe(rec))
Inv_C11_HeightPrevOrNew == phase \in {"recovered", "continued"} => C11_HeightPrevOrNew(H, Observe(rec))
Inv_C11_StoresConsistent == phase \in {"recovered", "continued"} => C11_StoresConsistent(Observe(rec))
Inv_C11_NoLoss == phase \in {"recovered", "continued"} => C11_NoLoss(Observe(rec), Ref(H + Extra))
Inv_C11_SameChainAfterContinue == phase = "continued" => C11_SameChainAfterContinue(Observe(rec), cont, Ref(H + Extra))

\* ---- generator: one plan per reachable crashed state -------------------------------------------------
Predicted(h, dd) == LET r == RecoverAsCoded(dd) IN
  [ violated |-> Violated(h, Observe(r), ContinueOn(r.d, h + Extra), Ref(h + Extra)),
    opened |-> r.opened, err |-> r.err, height |-> r.d.ix.h, contOk |-> r.opened /\ ContinueOn(r.d, h + Extra).ok ]
EmitCrash == phase # "crashed" \/
  PrintT(<<"VERIF_PLAN", ToJson([h |-> H, n |-> H + Extra, reached |-> done, missing |-> Atoms(H) \ done, prunes |-> Prunes(H),
                                  predicted |-> Predicted(H, d)])>>)
=============================================================================
