SPECIFICATION Spec
CONSTANTS
  Admins = {"s1", "a2", "a3", "a4", "a5"}
  Supers = {"s1"}
  Outsiders = {"x"}
  Exprs = {"a>0.5*t", "a==t", "a>=1", "a>=2", "a*3>t*2"}
INVARIANTS Inv_ApprovedOnlyByRule Inv_SpecialNeedsSuper Inv_OneVotePerAdmin
PROPERTY C15_Final
CHECK_DEADLOCK FALSE
