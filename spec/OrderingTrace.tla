---------------------------- MODULE OrderingTrace ----------------------------
(***************************************************************************)
(* Validation of traces recorded by harness/cmd/orderadp from the REAL     *)
(* ordering code: solo.NewNode, etcdraft.NewNode (1 node, and 3 nodes in   *)
(* one process wired through an in-memory peer manager with scripted       *)
(* faults), and syncer.StateSyncer.                                        *)
(*                                                                         *)
(* One line = one event.  Events of one node appear in that node's own     *)
(* order (per-node sequence number `ns`); nothing is inferred from the     *)
(* relative position of events of different nodes except "was logged       *)
(* before a later action of the single driver thread".                     *)
(*                                                                         *)
(* Ghost (property level, from logged facts only): what every node's       *)
(* executor actually received from Commit() - (incarnation, height, batch  *)
(* identity, transactions) - and the executed height each (re)start was    *)
(* given.  The C20 formulas of Ordering.tla / SyncRange.tla are evaluated  *)
(* for every new delivery / every synchronisation call: failures go to     *)
(* `viol` with a detail record that known-finding signatures can pin.      *)
(* Implementation-shaped expectations (persisted applied index moves with  *)
(* in-order reports, delivered transactions were submitted, the range      *)
(* partition equals the transcription) only produce `drift`.               *)
(***************************************************************************)
EXTENDS Ordering, SyncRange, Json, IOUtils, TLC

TraceFile == IF "TRACE" \in DOMAIN IOEnv THEN IOEnv.TRACE ELSE "trace.ndjson"
Tr == ndJsonDeserialize(TraceFile)

VARIABLES l, tname, g, aux, viol, drift
tvars == <<l, tname, g, aux, viol, drift>>

SeqSet(s) == {s[i] : i \in 1..Len(s)}

\* aux: bookkeeping from logged facts
\*  subm   : transactions given to the ordering service so far
\*  rep[n] : heights whose execution was reported to node n so far
\*  app[n] : last persisted applied index read back after a report, hi[n]: highest height reported so far
\*  rs[n]  : per incarnation, what the restart found on disk [snap, applied, base]
\*  faults : number of leadership-affecting driver actions so far (isolate / partition / crash)
\*  ns[n]  : last per-node sequence number
\*  fetched: a block fetch (snapshot installation) happened in this trace
\*  pend   : C20_TxOnce failures of this trace, classified when the trace ends (the same pair of blocks is seen by
\*           every replica; what pins the known finding is visible on the replica that proposed the second block)
AuxInit(Nodes) == [ subm |-> {}, rep |-> [n \in Nodes |-> {}], app |-> [n \in Nodes |-> 0], hi |-> [n \in Nodes |-> 0],
                    rs |-> [n \in Nodes |-> <<[snap |-> 0, applied |-> 0, base |-> 0]>>],
                    faults |-> 0, ns |-> [n \in Nodes |-> 0], fetched |-> FALSE, pend |-> {} ]

Init == /\ l = 0 /\ tname = "" /\ g = GInit({}, TRUE) /\ aux = AuxInit({}) /\ viol = {} /\ drift = {}
        /\ TLCSet(1, 0)

\* the verdict formulas for the newest delivery of node n, with details
DeliverViol(gg, ax, n) ==
  LET i == Len(gg.dl[n])
      d == gg.dl[n][i]
      prevH == IF i > 1 /\ gg.dl[n][i - 1].inc = d.inc THEN gg.dl[n][i - 1].h ELSE gg.base[n][d.inc]
      r == ax.rs[n][d.inc]
  IN
     (IF C20_Contiguous_At(gg, n, i) THEN {}
      ELSE {<<"C20_Contiguous", [n |-> n, inc |-> d.inc, h |-> d.h, after |-> prevH]>>})
  \cup (IF C20_AtMostOnce_At(gg, n, i) THEN {}
        ELSE {<<"C20_AtMostOnce", [n |-> n, inc |-> d.inc, h |-> d.h, id |-> d.id]>>})
  \cup (IF C20_SameContent_At(gg, n, i) THEN {}
        ELSE {<<"C20_SameContent", [n |-> n, inc |-> d.inc, h |-> d.h, id |-> d.id]>>})
  \cup (IF C20_NoSkip_At(gg, n, i) THEN {}
        ELSE {<<"C20_NoSkip", [n |-> n, inc |-> d.inc, h |-> d.h, id |-> d.id,
                               tag |-> IF r.snap > r.applied THEN "snapshotAheadOfApplied" ELSE "plain",
                               snap |-> r.snap, applied |-> r.applied, base |-> r.base]>>})


\* a failure of C20_TxOnce for the newest delivery of node n, kept until the end of the trace
TxOncePending(gg, ax, n, line) ==
  LET i == Len(gg.dl[n])
      d == gg.dl[n][i]
      clash == {j \in 1..(i - 1) : gg.dl[n][j].h # d.h /\ Effective(gg, n, j, i) /\ gg.dl[n][j].txs \cap d.txs # {}}
      \* the earlier block was neither reported as executed to this replica nor executed before its last restart
      open(j) == gg.dl[n][j].h \notin ax.rep[n] /\ gg.dl[n][j].h > gg.base[n][d.inc]
  IN IF C20_TxOnce_At(gg, n, i) THEN {}
     ELSE {[line |-> line, n |-> n, inc |-> d.inc, h |-> d.h, id |-> d.id,
            others |-> {gg.dl[n][j].id : j \in clash}, otherHs |-> {gg.dl[n][j].h : j \in clash},
            open |-> (ax.faults > 0 /\ \A j \in clash : open(j))]}

\* classification at the end of a trace
TxOnceViol(pend) ==
  {<<x.line, "C20_TxOnce",
     [n |-> x.n, inc |-> x.inc, h |-> x.h, id |-> x.id, others |-> x.others, otherHs |-> x.otherHs,
      tag |-> IF \E y \in pend : y.id = x.id /\ y.others = x.others /\ y.open
              THEN "rebatchedBeforeReportAfterFault" ELSE "plain"]>> : x \in pend}

Ranges(js) == [i \in 1..Len(js) |-> [b |-> js[i].b, e |-> js[i].e]]

Step(e) ==
  LET nm == IF e.ev = "Init" THEN e.name ELSE tname
      r == \* [g, aux, v: set of <<formula, detail>>, d: set of drift tags]
        CASE e.ev = "Init" ->
               [g |-> GInit(SeqSet(e.nodes), e.kind # "solo"), aux |-> AuxInit(SeqSet(e.nodes)), v |-> {}, d |-> {}]
          [] e.ev = "End" ->
               [g |-> g, aux |-> [aux EXCEPT !.pend = {}], v |-> {}, d |-> {}]
          [] e.ev = "Fetch" ->
               [g |-> g, aux |-> [aux EXCEPT !.fetched = TRUE], v |-> {}, d |-> {}]
          [] e.ev = "Submit" ->
               [g |-> g, aux |-> [aux EXCEPT !.subm = @ \cup SeqSet(e.txs)], v |-> {}, d |-> {}]
          [] e.ev = "Deliver" ->
               LET g2 == GDeliver(g, e.n, e.inc, [h |-> e.h, id |-> e.id, txs |-> SeqSet(e.txs)])
                   a2 == [aux EXCEPT !.ns[e.n] = e.ns, !.pend = @ \cup TxOncePending(g2, aux, e.n, l + 1)] IN
               [g |-> g2, aux |-> a2, v |-> DeliverViol(g2, aux, e.n),
                d |-> (IF SeqSet(e.txs) \subseteq aux.subm THEN {} ELSE {"OnlyGiven"})
                      \cup (IF e.inc = Len(g.base[e.n]) THEN {} ELSE {"Incarnation"})
                      \cup (IF e.ns = aux.ns[e.n] + 1 THEN {} ELSE {"NodeSeq"})]
          [] e.ev = "Exec" ->
               [g |-> g, aux |-> [aux EXCEPT !.ns[e.n] = e.ns], v |-> {},
                d |-> IF e.ns = aux.ns[e.n] + 1 THEN {} ELSE {"NodeSeq"}]
          [] e.ev = "Report" ->
               [g |-> g,
                aux |-> [aux EXCEPT !.rep[e.n] = @ \cup {e.h}, !.app[e.n] = e.applied,
                                    !.hi[e.n] = IF e.h > @ THEN e.h ELSE @],
                v |-> {},
                \* a report of a height above all earlier ones moves the persisted applied index forward (blocks that
                \* came through a block fetch have no index; reports out of order may move it backwards)
                d |-> (IF e.raft /\ ~aux.fetched /\ e.h > aux.hi[e.n] /\ e.applied <= aux.app[e.n]
                             /\ \E i \in 1..Len(g.dl[e.n]) : g.dl[e.n][i].inc = Len(g.base[e.n]) /\ g.dl[e.n][i].h = e.h THEN {"AppliedNotAdvanced"} ELSE {})]
          [] e.ev = "Crash" ->
               [g |-> g, aux |-> [aux EXCEPT !.faults = @ + 1, !.rep[e.n] = {}, !.hi[e.n] = 0], v |-> {}, d |-> {}]
          [] e.ev = "Restart" ->
               [g |-> GRestart(g, e.n, e.base),
                aux |-> [aux EXCEPT !.rs[e.n] = Append(@, [snap |-> e.snap, applied |-> e.applied, base |-> e.base]),
                                    !.app[e.n] = e.applied, !.ns[e.n] = 0],
                v |-> {}, d |-> {}]
          [] e.ev = "Net" ->
               [g |-> g, aux |-> [aux EXCEPT !.faults = IF e.fault THEN @ + 1 ELSE @], v |-> {}, d |-> {}]
          [] e.ev = "Note" -> [g |-> g, aux |-> aux, v |-> {}, d |-> {}]
          [] e.ev = "SyncCalc" ->
               LET rs == Ranges(e.rs)
                   m  == CalcRange(e.begin, e.end, e.fetch) IN
               [g |-> g, aux |-> aux,
                v |-> IF e.err \/ C20_SyncCoversOnce(e.begin, e.end, rs) THEN {}
                      ELSE {<<"C20_SyncCoversOnce", [begin |-> e.begin, end |-> e.end, fetch |-> e.fetch, base |-> e.base, rs |-> rs]>>},
                d |-> (IF e.err = (e.begin > e.end) THEN {} ELSE {"SyncErr"})
                      \cup (IF e.big \/ e.err \/ m.rs = rs THEN {} ELSE {"SyncRanges"})
                      \cup (IF Obs_RangeSize(e.fetch, rs) THEN {} ELSE {"SyncRangeSize"})]
          [] e.ev = "SyncRun" ->
               LET rs == Ranges(e.reqs) IN
               [g |-> g, aux |-> aux,
                v |-> (IF C20_SyncCoversOnce(e.begin, e.end, rs) THEN {}
                       ELSE {<<"C20_SyncCoversOnce", [begin |-> e.begin, end |-> e.end, fetch |-> e.fetch, base |-> e.base, rs |-> rs, via |-> "SyncCFTBlocks"]>>})
                      \cup (IF C20_SyncDeliversOnce(e.begin, e.end, e.got) THEN {}
                            ELSE {<<"C20_SyncDeliversOnce", [begin |-> e.begin, end |-> e.end, fetch |-> e.fetch, base |-> e.base, got |-> e.got]>>}),
                d |-> IF e.done THEN {} ELSE {"SyncNoEnd"}]
  IN /\ tname' = nm /\ g' = r.g /\ aux' = r.aux
     /\ viol'  = viol \cup {<<nm, l + 1, x[1], x[2]>> : x \in r.v}
                      \cup (IF e.ev \in {"End", "Init"} THEN {<<tname, x[1], x[2], x[3]>> : x \in TxOnceViol(aux.pend)} ELSE {})
     /\ drift' = drift \cup {<<nm, l + 1, <<e.ev, x>>>> : x \in r.d}

Next == /\ l < Len(Tr)
        /\ l' = l + 1
        /\ Step(Tr[l + 1])
        /\ TLCSet(1, l + 1)
        /\ TLCSet(2, viol') /\ TLCSet(3, drift')

Spec == Init /\ [][Next]_tvars

Accepted ==
  /\ PrintT(<<"VERIF_RESULT", "lines", Len(Tr), "consumed", TLCGet(1)>>)
  /\ PrintT(<<"VERIF_VIOL", ToJson(IF TLCGet(1) = 0 THEN {} ELSE TLCGet(2))>>)
  /\ PrintT(<<"VERIF_DRIFT", ToJson(IF TLCGet(1) = 0 THEN {} ELSE TLCGet(3))>>)
  /\ TLCGet(1) = Len(Tr)
=============================================================================
