SPECIFICATION Spec
CONSTANTS
  SnapFix = TRUE
  DedupFix = TRUE
  Nodes = {n1, n2, n3}
  NoNode = NoNode
  Txs = {t1, t2}
  MaxLog = 3
  MaxProp = 4
  MaxCrash = 2
  MaxLC = 2
  MaxDup = 0
  SnapCount = 2
  MaxLagNodes = 1
INVARIANTS Inv_C20_Contiguous Inv_C20_AtMostOnce Inv_C20_SameContent Inv_C20_NoSkip Inv_C20_TxOnce Inv_Canon Inv_C20_NoSkipModel
CHECK_DEADLOCK FALSE
SYMMETRY Sym
