SPECIFICATION Spec
CONSTANTS
  SnapFix = TRUE
  DedupFix = TRUE
POSTCONDITION Accepted
CHECK_DEADLOCK FALSE
