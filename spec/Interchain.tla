----------------------------- MODULE Interchain -----------------------------
(***************************************************************************)
(* Interchain handling of bitxhub: interchain contract (checkIBTP,         *)
(* ProcessIBTP), transaction manager (Begin / Report / BeginMultiTXs and   *)
(* its status machine) and the executor's post-block bookkeeping           *)
(* (setTimeoutList, setTimeoutRollback, timeout / multi-tx metadata).      *)
(*                                                                         *)
(* The specification is the protocol machine the properties C02 - C06 (and *)
(* the gating clauses of C03 / C16) describe: a record g advanced by one   *)
(* step function per transaction (TxStep) and one per block end (EndBlock),*)
(* in the structure of the implementation.  The acceptance rule            *)
(* (ShouldAccept) is explicit, so the same functions drive                 *)
(*  - InterchainMC.tla: exhaustive exploration of request / receipt /      *)
(*    timeout / empty-block sequences with the C04 / C05 / C06 invariants, *)
(*  - InterchainTrace.tla: validation of real executor traces: whether a   *)
(*    transaction was accepted is BOUND to its receipt, every accepted one *)
(*    is judged by the clause it would violate, the machine is advanced,   *)
(*    and after every block the observed counters, statuses, delivery and  *)
(*    timeout metadata are compared with the machine.                      *)
(*                                                                         *)
(* A transaction t is a record: typ \in {"REQ","OK","FAIL","RB"}, src, dst *)
(* (full service ids), idx, T (relative timeout, 0 none, -1 huge), proofok,*)
(* id ("src-dst-idx"), srcLocal, dstLocal, srcChain, dstChain, gid, gcount *)
(***************************************************************************)
EXTENDS Integers, Sequences, FiniteSets, SequencesExt, FiniteSetsExt, TLC

CONSTANT BeginOnce   \* BOOLEAN: TRUE = a one-to-one transaction begins once (repaired TransactionManager.Begin);
                     \* FALSE = as first found: the same request again, let through by an unordered destination, starts it over

Get(f, k, d) == IF k \in DOMAIN f THEN f[k] ELSE d
Put(f, k, v) == [x \in DOMAIN f \cup {k} |-> IF x = k THEN v ELSE f[x]]
Drop(f, k)   == [x \in DOMAIN f \ {k} |-> f[x]]
SeqRange(q)  == {q[i] : i \in 1..Len(q)}
UnionPier == "default_union_pier_id"

\* The router (internal/router classify, the last step of delivery): what pier p is sent for a block is exactly the block's
\* delivery metadata filed under p -- the transactions at the listed positions in the listed order with their valid / batch
\* marks, the ids whose timeout fired, the children of one-to-many transactions that reached a final state -- nothing
\* else, one wrapper of the block's height; a pier without entries gets one empty wrapper.
\* counter: pier -> sequence of [pos, valid, batch]; tmeta, mmeta: sequences of [chain, ids]
MetaList(lst, p) == LET xs == {x \in SeqRange(lst) : x.chain = p} IN IF xs = {} THEN <<>> ELSE (CHOOSE x \in xs : TRUE).ids
RouteOf(p, counter, tmeta, mmeta) ==
  [txs |-> IF p \in DOMAIN counter THEN counter[p] ELSE <<>>, tmo |-> MetaList(tmeta, p), multi |-> MetaList(mmeta, p)]

Final == {"SUCCESS", "FAILURE", "ROLLBACK"}
\* the protocol state machine of one cross-chain transaction (C04); "TIMEOUT" is the expiry at H+T
NextStatus(cur, ev) ==
  CASE cur = "BEGIN" /\ ev = "OK"   -> "SUCCESS"
    [] cur = "BEGIN" /\ ev = "FAIL" -> "FAILURE"
    [] cur = "BEGIN" /\ ev = "TIMEOUT" -> "BEGIN_ROLLBACK"
    [] cur = "BEGIN_FAILURE" /\ ev = "FAIL" -> "FAILURE"
    [] cur = "BEGIN_ROLLBACK" /\ ev \in {"RB", "FAIL"} -> "ROLLBACK"
    \* between two BitXHubs: the other hub's begin-failure / rollback notice ends a transaction that is still BEGIN
    \* (a notice that finds the transaction already begin-failed / timed out leads where C04 lets those states go)
    [] cur \in {"BEGIN", "BEGIN_FAILURE"} /\ ev = "NBF" -> "FAILURE"
    [] cur \in {"BEGIN", "BEGIN_ROLLBACK"} /\ ev = "NRB" -> "ROLLBACK"
    [] OTHER -> "NONE"            \* no such transition

GInit == [ acc |-> <<>>,      \* <<src,dst>> -> highest accepted request index
           rcp |-> <<>>,      \* <<src,dst>> -> highest finalised receipt index
           st  |-> <<>>,      \* id -> status of a one-to-one transaction
           exp |-> <<>>,      \* id -> expiry height (only while BEGIN with a finite timeout)
           bexp |-> <<>>,     \* the same for requests to an unordered ("batch") destination, see BatchExpiring
           grp |-> <<>>,      \* gid -> [state, kids : id -> status, count, exp, src]
           kid |-> <<>>,      \* child id -> gid
           failedOnce |-> {}, \* groups in which a child failed or which timed out
           batchPairs |-> {}, \* pairs whose destination is an unordered ("batch") service
           hub |-> {} ]       \* pairs whose destination is a service of this hub itself (executed by the hub's own broker)

\* the environment of a block: service statuses, block height, unordered services
\* a service whose freeze is only proposed ("freezing") is still available
Avail(env, s) == Get(env.svc, s, "none") \in {"available", "freezing"}

(***************************************************************************)
(* Proofs (C03).  An IBTP is proven by the hub its category points at: a   *)
(* request by the hub of its source, a receipt by the hub of its           *)
(* destination.  If that is this hub, the proof bytes must hash to the     *)
(* value committed in the IBTP and satisfy the master rule of the appchain *)
(* (t.proofok: the scenarios bind the rule that accepts every proof whose  *)
(* hash matches).  If it is another BitXHub, the proof is a multi-signature*)
(* proof: more than (n-1)/3 DISTINCT REGISTERED validators of that hub must*)
(* have signed THIS ibtp and the status carried in the proof.  A signature *)
(* is [who, over]: over = "this" iff it covers exactly this ibtp + status. *)
(***************************************************************************)
RelayAvail(env, b) == b \in DOMAIN env.relay /\ env.relay[b].st \in {"available", "freezing"}
MsThreshold(n) == IF n = 0 THEN 0 ELSE (n - 1) \div 3
MsSigners(r, sigs) == {sigs[i].who : i \in {j \in 1..Len(sigs) : sigs[j].over = "this"}} \cap r.vals
MsOK(r, sigs) == Cardinality(MsSigners(r, sigs)) > MsThreshold(r.n)
Prover(t) == IF t.typ = "REQ" THEN t.srcBxh ELSE t.dstBxh
\* the appchain an IBTP has to be proven for, and the rule currently bound to it ("" if none: never registered, logged
\* out, or its master rule is being replaced; while it is being replaced the old rule is "unbinding")
ProverChain(t) == IF t.typ = "REQ" THEN t.srcChain ELSE t.dstChain
RuleOf(env, c) == IF c \in DOMAIN env.rule THEN env.rule[c] ELSE [bound |-> "", unbinding |-> "", cert |-> ""]
\* does the proof satisfy that rule?  "happy" accepts every proof; the simplified Fabric rule wants an artifact of the
\* broker chaincode for exactly this index and call, endorsed (valid signature) by the certificate registered as the
\* appchain's trust root; the full Fabric rule is never satisfied by the proofs of the scenarios
RuleOK(rule, cert, t) ==
  CASE rule = "happy" -> TRUE
    [] rule = "simfabric" -> /\ t.art.kind = "fabric" /\ t.art.idx = t.idx /\ t.art.cc = "broker" /\ t.art.content
                             /\ t.art.sigok /\ t.art.signer = cert /\ cert # ""
    [] OTHER -> FALSE
\* strict: the rule that is bound; lenient (used to judge an ACCEPTED ibtp): also the rule that is just being unbound
LocalProofOK(env, t, lenient) ==
  LET r == RuleOf(env, ProverChain(t)) IN
  /\ t.hashok
  /\ \/ (r.bound # "" /\ RuleOK(r.bound, r.cert, t))
     \/ (lenient /\ r.unbinding # "" /\ RuleOK(r.unbinding, r.cert, t))
ProofOKx(env, t, lenient) ==
  IF Prover(t) = env.bxh THEN LocalProofOK(env, t, lenient)
  ELSE t.hashok /\ t.ms /\ Prover(t) \in DOMAIN env.relay /\ MsOK(env.relay[Prover(t)], t.sigs)
ProofOK(env, t) == ProofOKx(env, t, FALSE)
ProofAcceptable(env, t) == ProofOKx(env, t, TRUE)

(***************************************************************************)
(* Acceptance rule                                                         *)
(***************************************************************************)
XH(t) == t.srcBxh # t.dstBxh                   \* a transaction between two BitXHubs
Seen(g, id) == id \in DOMAIN g.st \/ id \in DOMAIN g.kid
\* the other hub's notice about a request this hub has accepted: the same request again, carrying that hub's
\* BEGIN_FAILURE / BEGIN_ROLLBACK status
IsNotice(g, t) == t.typ = "REQ" /\ XH(t) /\ Seen(g, t.id) /\ t.notice \in {"BF", "RB"}
NoticeEv(t) == IF t.notice = "BF" THEN "NBF" ELSE "NRB"

\* a local destination must exist, be available and must not block the source (env.black: <<destination, source>>)
DestOK(env, t) ==
  IF t.dstLocal THEN Avail(env, t.dst) /\ <<t.dst, t.src>> \notin env.black ELSE RelayAvail(env, t.dstBxh)
IsBatchDst(env, t) == t.dstLocal /\ t.dst \in env.unordered /\ DestOK(env, t)
SourceOK(env, t) == IF t.srcLocal THEN Avail(env, t.src) ELSE t.dstLocal /\ RelayAvail(env, t.srcBxh)

CurStatus(g, id) == IF id \in DOMAIN g.st THEN g.st[id]
                    ELSE IF id \in DOMAIN g.kid THEN g.grp[g.kid[id]].kids[id] ELSE "NONE"

ShouldAcceptNotice(g, env, t) ==
  /\ ProofOK(env, t)
  /\ (t.srcLocal \/ t.dstLocal)
  /\ t.idx = Get(g.rcp, <<t.src, t.dst>>, 0) + 1
  /\ t.id \in DOMAIN g.st /\ g.st[t.id] = "BEGIN"    \* (NextStatus tolerates more; only this is expected)

ShouldAcceptReq(g, env, t) ==
  IF IsNotice(g, t) THEN ShouldAcceptNotice(g, env, t) ELSE
  /\ ProofOK(env, t)
  /\ SourceOK(env, t)
  /\ (IsBatchDst(env, t) \/ t.idx = Get(g.acc, <<t.src, t.dst>>, 0) + 1)
  /\ (t.gid # "" => (t.id \notin DOMAIN g.kid))
  /\ (XH(t) => ~Seen(g, t.id))     \* between two hubs a known id is only ever a notice
  /\ ((t.gid = "" /\ BeginOnce) => t.id \notin DOMAIN g.st)   \* a one-to-one transaction begins once (matters for unordered destinations only)

ShouldAcceptRcpt(g, env, t) ==
  /\ ProofOK(env, t)
  /\ (t.srcLocal \/ t.dstLocal)
  /\ (Prover(t) = env.bxh => t.dst \in DOMAIN env.svc)   \* proven against the rule of the destination appchain, which must exist
  /\ (t.id \in DOMAIN g.st \/ t.id \in DOMAIN g.kid)
  /\ t.idx = Get(g.rcp, <<t.src, t.dst>>, 0) + 1
  /\ IF t.id \in DOMAIN g.st THEN NextStatus(g.st[t.id], t.typ) # "NONE"
     ELSE LET gr == g.grp[g.kid[t.id]] IN
          \/ (gr.state = "BEGIN" /\ t.typ = "FAIL")
          \/ NextStatus(gr.kids[t.id], t.typ) # "NONE"

(***************************************************************************)
(* Effect of an ACCEPTED transaction                                       *)
(***************************************************************************)
Expiry(h, T) == IF T > 0 THEN h + T ELSE 0

\* one-to-one request; bf = accepted as begin-failed
AcceptReq(g, env, t, bf) ==
  [g EXCEPT !.acc = Put(@, <<t.src, t.dst>>, IF IsBatchDst(env, t) THEN Get(@, <<t.src, t.dst>>, 0) + 1 ELSE t.idx),
            !.st  = Put(@, t.id, IF bf THEN "BEGIN_FAILURE" ELSE "BEGIN"),
            !.hub = IF t.dstChain = env.bxh THEN @ \cup {<<t.src, t.dst>>} ELSE @,
            !.exp = IF ~bf /\ Expiry(env.h, t.T) > 0 /\ t.dstChain # env.bxh /\ ~IsBatchDst(env, t) THEN Put(@, t.id, Expiry(env.h, t.T)) ELSE Drop(@, t.id),
            !.bexp = IF ~bf /\ Expiry(env.h, t.T) > 0 /\ IsBatchDst(env, t) THEN Put(@, t.id, Expiry(env.h, t.T)) ELSE Drop(@, t.id)]

\* grouped request: first child creates the group
AllKids(kids, v) == [k \in DOMAIN kids |-> v]
AcceptGroupReq(g, env, t, bf) ==
  LET gid == t.gid
      new == gid \notin DOMAIN g.grp
      old == IF new THEN [state |-> "BEGIN", kids |-> <<>>, info |-> <<>>, count |-> t.gcount, exp |-> Expiry(env.h, t.T), src |-> t.srcChain]
             ELSE g.grp[gid]
      gr  == IF new
             THEN [old EXCEPT !.kids = Put(@, t.id, IF bf THEN "BEGIN_FAILURE" ELSE "BEGIN"),
                              !.state = IF bf THEN "BEGIN_FAILURE" ELSE "BEGIN"]
             ELSE IF old.state # "BEGIN" THEN [old EXCEPT !.kids = Put(@, t.id, old.state)]
             ELSE IF bf THEN [old EXCEPT !.kids = AllKids(Put(@, t.id, "x"), "BEGIN_FAILURE"), !.state = "BEGIN_FAILURE"]
             ELSE [old EXCEPT !.kids = Put(@, t.id, "BEGIN")]
      gr1 == [gr EXCEPT !.info = Put(@, t.id, [src |-> t.src, dst |-> t.dst, idx |-> t.idx, dstChain |-> t.dstChain])]
  IN [g EXCEPT !.acc = Put(@, <<t.src, t.dst>>, IF IsBatchDst(env, t) THEN Get(@, <<t.src, t.dst>>, 0) + 1 ELSE t.idx),
               !.grp = Put(@, gid, gr1), !.kid = Put(@, t.id, gid),
               !.hub = IF t.dstChain = env.bxh THEN @ \cup {<<t.src, t.dst>>} ELSE @,
               !.failedOnce = IF gr.state # "BEGIN" /\ gr.state # "SUCCESS" THEN @ \cup {gid} ELSE @]

\* what the implementation makes of a notice whatever the current status (used to follow it after C04_Step was reported)
ForceNotice(g, t) ==
  [g EXCEPT !.st = Put(@, t.id, IF t.notice = "BF" THEN "FAILURE" ELSE "ROLLBACK"),
            !.rcp = Put(@, <<t.src, t.dst>>, t.idx),
            !.exp = Drop(@, t.id), !.bexp = Drop(@, t.id)]
\* receipt of a one-to-one transaction (a notice between two hubs is AcceptRcpt(g, [t EXCEPT !.typ = NoticeEv(t)]))
AcceptRcpt(g, t) ==
  [g EXCEPT !.st = Put(@, t.id, NextStatus(g.st[t.id], t.typ)),
            !.rcp = Put(@, <<t.src, t.dst>>, t.idx),
            !.exp = Drop(@, t.id), !.bexp = Drop(@, t.id)]

\* receipt of a group child: a failure receipt while the group is BEGIN fails the whole group at once; otherwise
\* the child moves by the status machine and the group follows when all declared children agree
AcceptGroupRcpt(g, t) ==
  LET gid == g.kid[t.id]
      gr  == g.grp[gid]
      gr2 == IF gr.state = "BEGIN" /\ t.typ = "FAIL"
             THEN [gr EXCEPT !.kids = [k \in DOMAIN gr.kids |-> IF k = t.id THEN "FAILURE" ELSE "BEGIN_FAILURE"],
                             !.state = "BEGIN_FAILURE"]
             ELSE LET ks  == Put(gr.kids, t.id, NextStatus(gr.kids[t.id], t.typ))
                      all == Cardinality(DOMAIN ks) = gr.count /\ \A k \in DOMAIN ks : ks[k] = ks[t.id]
                  IN [gr EXCEPT !.kids = ks,
                                !.state = IF all /\ NextStatus(gr.state, t.typ) # "NONE" THEN NextStatus(gr.state, t.typ) ELSE @]
      final == gr2.state \in Final
      \* receipt counters of the children move only when the group reaches a final state (all children at once)
      kp(k) == <<gr.info[k].src, gr.info[k].dst>>
      rcp2 == IF final
              THEN [p \in DOMAIN g.rcp \cup {kp(k) : k \in DOMAIN gr.info} |->
                      IF \E k \in DOMAIN gr.info : kp(k) = p
                      THEN gr.info[CHOOSE k \in DOMAIN gr.info : kp(k) = p].idx ELSE g.rcp[p]]
              ELSE g.rcp
  IN [g EXCEPT !.grp = Put(@, gid, gr2), !.rcp = rcp2,
               !.failedOnce = IF gr2.state \notin {"BEGIN", "SUCCESS"} THEN @ \cup {gid} ELSE @]

(***************************************************************************)
(* End of block h: expiry                                                  *)
(***************************************************************************)
ExpiredIds(g, h)  == {id \in DOMAIN g.exp : g.exp[id] = h /\ g.st[id] = "BEGIN"}
\* requests to an unordered destination whose timeout height is h: C06 wants them to expire like any other request;
\* the trace spec lets the observation say whether they did (Fire) and reports C06_FiresAt for those that did not
BatchExpiring(g, h) == {id \in DOMAIN g.bexp : g.bexp[id] = h /\ g.st[id] = "BEGIN"}
Fire(g, ids, h) == [g EXCEPT !.exp = [id \in DOMAIN g.exp \cup ids |-> IF id \in ids THEN h ELSE g.exp[id]],
                             !.bexp = [id \in DOMAIN g.bexp \ ids |-> g.bexp[id]]]
ExpiredGrps(g, h) == {gid \in DOMAIN g.grp : g.grp[gid].exp = h /\ g.grp[gid].state = "BEGIN"}
EndBlock(g, h) ==
  [g EXCEPT !.st  = [id \in DOMAIN g.st |-> IF id \in ExpiredIds(g, h) THEN "BEGIN_ROLLBACK" ELSE g.st[id]],
            !.exp = [id \in DOMAIN g.exp \ ExpiredIds(g, h) |-> g.exp[id]],
            !.grp = [gid \in DOMAIN g.grp |-> IF gid \in ExpiredGrps(g, h)
                       THEN [g.grp[gid] EXCEPT !.state = "BEGIN_ROLLBACK", !.kids = AllKids(@, "BEGIN_ROLLBACK")]
                       ELSE g.grp[gid]],
            !.failedOnce = @ \cup ExpiredGrps(g, h)]

(***************************************************************************)
(* Listed properties as state predicates of the machine (checked by MC)    *)
(***************************************************************************)
\* C05: a group is SUCCESS only if all declared children are SUCCESS; once failed, never SUCCESS
C05_SuccessOnlyIfAll(g) ==
  \A gid \in DOMAIN g.grp : g.grp[gid].state = "SUCCESS" =>
     Cardinality(DOMAIN g.grp[gid].kids) = g.grp[gid].count /\ \A k \in DOMAIN g.grp[gid].kids : g.grp[gid].kids[k] = "SUCCESS"
C05_NeverSuccessAfterFailure(g) == \A gid \in g.failedOnce : g.grp[gid].state # "SUCCESS"
C05_AllChildrenFail(g) ==
  \A gid \in g.failedOnce : \A k \in DOMAIN g.grp[gid].kids : g.grp[gid].kids[k] # "SUCCESS" /\ g.grp[gid].kids[k] # "BEGIN"
=============================================================================
