---------------------------- MODULE InterchainGen ----------------------------
(* Model-guided input generation for the interchain family: random walks (tlc -simulate) over the protocol   *)
(* machine of InterchainMC; every block of a walk holds one request, one grouped request, one receipt or     *)
(* nothing; the walk is printed as a JSON plan that interadp replays on the real executor.  Choices are drawn *)
(* with RandomElement so that every step has exactly one successor.                                          *)
EXTENDS InterchainMC, Json
VARIABLES inp, pick
gvars == <<vars, inp, pick>>
GenInit == Init /\ inp = <<>> /\ pick = "req"
Kinds == <<"req", "req", "greq", "breq", "breq", "rcpt", "rcpt", "rcpt", "empty", "empty">>
\* receipts are aimed at transactions the machine knows (plus now and then at unknown ones)
KnownIds == DOMAIN g.st \cup DOMAIN g.kid
GenNext ==
  /\ h < MaxH
  /\ pick' = Kinds[RandomElement(1..Len(Kinds))]     \* the kind of the NEXT step (a state variable: one draw per step)
  /\ LET kind == pick IN
     \/ /\ kind = "req"
        /\ LET t == RandomElement(Reqs) IN Block(t, FALSE) /\ inp' = Append(inp, [op |-> "tx", typ |-> "REQ", dst |-> t.dst, idx |-> t.idx, T |-> t.T, grp |-> FALSE])
     \/ /\ kind = "breq"     \* a one-to-one request to D2 (unordered in the generator's configuration: repeats get through the index check)
        /\ LET t == RandomElement(BReqs) IN Block(t, FALSE) /\ inp' = Append(inp, [op |-> "tx", typ |-> "REQ", dst |-> t.dst, idx |-> t.idx, T |-> t.T, grp |-> FALSE])
     \/ /\ kind = "greq"
        /\ LET t == RandomElement(GReqs) IN Block(t, FALSE) /\ inp' = Append(inp, [op |-> "tx", typ |-> "REQ", dst |-> t.dst, idx |-> t.idx, T |-> t.T, grp |-> TRUE])
     \/ /\ kind = "rcpt"
        /\ LET cands == IF KnownIds # {} /\ RandomElement(1..5) > 1 THEN {r \in Rcpts : r.id \in KnownIds} ELSE Rcpts
               t == RandomElement(cands) IN
           Block(t, FALSE) /\ inp' = Append(inp, [op |-> "tx", typ |-> t.typ, dst |-> t.dst, idx |-> t.idx, T |-> 0, grp |-> FALSE])
     \/ /\ kind = "empty"
        /\ Empty /\ inp' = Append(inp, [op |-> "empty"])
GenSpec == GenInit /\ [][GenNext]_gvars
EmitPlan == h < MaxH \/ PrintT(<<"VERIF_PLAN", ToJson(inp)>>)
=============================================================================
