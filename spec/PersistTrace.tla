--------------------------- MODULE PersistTrace ---------------------------
(***************************************************************************)
(* Validation of Commit -> Crash -> Recover -> Continue traces recorded    *)
(* from the real ledger by harness/cmd/crashadp.  One trace = one crash    *)
(* state of one interrupted commit.                                        *)
(*  Init     : the interrupted height, the reference chain (block hashes,  *)
(*             state digests per height) produced by the same code without *)
(*             faults                                                      *)
(*  Commit   : the durable writes ("atoms") the real code issued           *)
(*  Crash    : which of them reached disk                                  *)
(*  Recover  : what blockfile.NewBlockFile + ledger.New did and what the   *)
(*             reopened ledger answers                                     *)
(*  Continue : outcome of executing the remaining reference blocks         *)
(* The C11_x clauses of Persist.tla judge Recover / Continue (verdict).    *)
(* Shape of the commit (atoms, their order) and RecoverAsCoded's           *)
(* prediction are compared with the log as drift only.                     *)
(* The detail of a violation carries the signature of the crash state      *)
(* "h=<height>;reached=<atoms>;missing=<atoms>;" that known_findings.json  *)
(* pins.                                                                   *)
(***************************************************************************)
EXTENDS Persist, Json, IOUtils

TraceFile == IF "TRACE" \in DOMAIN IOEnv THEN IOEnv.TRACE ELSE "trace.ndjson"
Tr == ndJsonDeserialize(TraceFile)

VARIABLES l, tname, c, viol, drift
tvars == <<l, tname, c, viol, drift>>

\* c: the case so far
NoObs == [opened |-> FALSE, height |-> 0, version |-> 0, headReadable |-> FALSE, rootEq |-> FALSE, dumpEq |-> FALSE,
          aboveClean |-> FALSE, hashes |-> <<>>]
C0 == [H |-> 0, ref |-> <<>>, refDump |-> <<>>, atoms |-> {}, reached |-> {}, sig |-> "", dangle |-> FALSE, modelled |-> FALSE, o |-> NoObs]

Init == l = 0 /\ tname = "" /\ c = C0 /\ viol = {} /\ drift = {} /\ TLCSet(1, 0)

ToSet(q) == {q[i] : i \in 1..Len(q)}
JoinSeq(q) == LET f[i \in 0..Len(q)] == IF i = 0 THEN "" ELSE IF i = 1 THEN q[1] ELSE f[i - 1] \o "," \o q[i] IN f[Len(q)]

\* expected content of the modelled atoms (kinds of keys written)
KindsOK(a) == LET k == ToSet(a.kinds) IN
  CASE a.id = "S1" -> "journal-max" \in k /\ "journal" \in k
    [] a.id = "S2" -> k \subseteq {"del:journal", "journal-min"}
    [] a.id = "C1" -> "chain-meta" \in k
    [] OTHER -> TRUE

MkObs(e, cc) ==
  [ opened |-> e.opened, height |-> e.height, version |-> e.version, headReadable |-> e.headReadable,
    rootEq |-> e.stateRoot = e.journalRoot,
    dumpEq |-> e.height >= 0 /\ e.height + 1 <= Len(cc.refDump) /\ e.dump = cc.refDump[e.height + 1],
    aboveClean |-> ~(e.above.block \/ e.above.bhash \/ e.above.byHash \/ e.above.txs > 0),
    hashes |-> e.hashes ]

Detail(cc, what) == [sig |-> cc.sig, dangle |-> cc.dangle, what |-> what]

Step(e) ==
  LET nm == IF e.ev = "Init" THEN e.name ELSE tname
      r == \* [c, v: set of <<formula, what>>, d: set of drift tags]
        CASE e.ev = "Init" -> [c |-> [C0 EXCEPT !.H = e.h, !.ref = e.ref, !.refDump = e.refDump], v |-> {}, d |-> {}]
          [] e.ev = "Commit" ->
               LET ids == {a.id : a \in ToSet(e.atoms)} IN
               [c |-> [c EXCEPT !.atoms = ids, !.modelled = (ids = Atoms(c.H))], v |-> {},
                d |-> (IF ids = Atoms(c.H) THEN {} ELSE {"atoms"}) \cup {"kinds." \o a.id : a \in {x \in ToSet(e.atoms) : ~KindsOK(x)}}]
          [] e.ev = "Crash" ->
               LET R == ToSet(e.reached) IN
               [c |-> [c EXCEPT !.reached = R, !.dangle = e.dangle,
                               !.sig = "h=" \o ToString(c.H) \o ";reached=" \o JoinSeq(e.reached) \o ";missing=" \o JoinSeq(e.missing) \o ";"],
                v |-> {},
                d |-> (IF R \cup ToSet(e.missing) = c.atoms THEN {} ELSE {"reached+missing"})
                      \cup (IF c.modelled /\ R \notin CrashStates(c.H) THEN {"notACrashState"} ELSE {})]
          [] e.ev = "Recover" ->
               LET o == MkObs(e, c)
                   p == Observe(RecoverAsCoded(DurableAfter(c.H, c.reached)))   \* the prediction, if the commit had the modelled shape
                   cmp == c.modelled /\ ~c.dangle IN
               [c |-> [c EXCEPT !.o = o],
                v |-> IF ~C11_Opens(o) THEN {<<"C11_Opens", e.err>>}
                      ELSE (IF C11_HeightPrevOrNew(c.H, o) THEN {} ELSE {<<"C11_HeightPrevOrNew", ToString(o.height)>>})
                           \cup (IF C11_StoresConsistent(o) THEN {} ELSE
                                   {<<"C11_StoresConsistent", (IF o.headReadable THEN "" ELSE "head block unreadable;")
                                        \o (IF o.version = o.height THEN "" ELSE "state version # height;")
                                        \o (IF o.rootEq THEN "" ELSE "head state root # state store root;")
                                        \o (IF o.dumpEq THEN "" ELSE "state # reference state at that height;")
                                        \o (IF o.aboveClean THEN "" ELSE "a store answers for the height above;")>>})
                           \cup (IF C11_NoLoss(o, c.ref) THEN {} ELSE {<<"C11_NoLoss", "a block at or below the head is not readable / differs">>}),
                d |-> IF ~cmp THEN {} ELSE
                      (IF p.opened = o.opened THEN {} ELSE {"opened"})
                      \cup (IF ~(p.opened /\ o.opened) THEN {} ELSE
                              (IF p.height = o.height THEN {} ELSE {"height"}) \cup (IF p.version = o.version THEN {} ELSE {"version"})
                              \cup (IF p.headReadable = o.headReadable THEN {} ELSE {"headReadable"})
                              \cup (IF p.dumpEq = o.dumpEq THEN {} ELSE {"dumpEq"}))]
          [] e.ev = "Continue" ->
               LET cc == [ok |-> e.ok, hashes |-> e.hashes]
                   pr == RecoverAsCoded(DurableAfter(c.H, c.reached))
                   pc == ContinueOn(pr.d, Len(c.ref)) IN
               [c |-> c,
                v |-> IF ~c.o.opened \/ C11_SameChainAfterContinue(c.o, cc, c.ref) THEN {}
                      ELSE {<<"C11_SameChainAfterContinue", IF e.ok THEN "the continued chain differs from the reference" ELSE e.err>>},
                d |-> IF c.modelled /\ ~c.dangle /\ c.o.opened /\ pr.opened /\ pc.ok # e.ok THEN {"continue.ok"} ELSE {}]
  IN /\ tname' = nm /\ c' = r.c
     /\ viol'  = viol \cup {<<nm, l + 1, x[1], Detail(r.c, x[2])>> : x \in r.v}
     /\ drift' = drift \cup {<<nm, l + 1, <<e.ev, x>>>> : x \in r.d}

Next == /\ l < Len(Tr)
        /\ l' = l + 1
        /\ Step(Tr[l + 1])
        /\ TLCSet(1, l + 1)
        /\ TLCSet(2, viol') /\ TLCSet(3, drift')

Spec == Init /\ [][Next]_tvars

Accepted ==
  /\ PrintT(<<"VERIF_RESULT", "lines", Len(Tr), "consumed", TLCGet(1)>>)
  /\ PrintT(<<"VERIF_VIOL", ToJson(IF TLCGet(1) = 0 THEN {} ELSE TLCGet(2))>>)
  /\ PrintT(<<"VERIF_DRIFT", ToJson(IF TLCGet(1) = 0 THEN {} ELSE TLCGet(3))>>)
  /\ TLCGet(1) = Len(Tr)
=============================================================================
