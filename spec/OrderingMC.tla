----------------------------- MODULE OrderingMC -----------------------------
(***************************************************************************)
(* Exhaustive model of a raft ordering cluster (Nodes = 1 or 3 replicas):  *)
(* all interleavings of transaction arrival, proposing, raft commit (also  *)
(* twice), delivery with the two replay filters, execution, reporting (in  *)
(* any order), leader change (uncommitted proposals are lost, batch        *)
(* sequence reset), snapshots, snapshot installation + block fetch, crash  *)
(* at any point and restart.                                               *)
(***************************************************************************)
EXTENDS Ordering, TLC

CONSTANTS Nodes, NoNode, Txs, MaxLog, MaxProp, MaxCrash, MaxLC, MaxDup, SnapCount, MaxLagNodes

VARIABLES nd, log, leader, nextId, cnt, sub, g
vars == <<nd, log, leader, nextId, cnt, sub, g>>

Init == /\ nd = [n \in Nodes |-> NodeInit]
        /\ log = <<>> /\ leader \in Nodes /\ nextId = 1
        /\ cnt = [prop |-> 0, crash |-> 0, lc |-> 0, dup |-> 0]
        /\ sub = {} /\ g = GInit(Nodes, TRUE)

NumBatch == Cardinality({i \in 1..Len(log) : log[i].k = "b"})
Empty == [k |-> "e", h |-> 0, id |-> 0, txs |-> {}]

Submit == \E t \in Txs \ sub :
  /\ sub' = sub \cup {t}
  /\ nd' = [n \in Nodes |-> IF nd[n].up THEN [nd[n] EXCEPT !.pool = @ \cup {t}] ELSE nd[n]]
  /\ UNCHANGED <<log, leader, nextId, cnt, g>>

DoPropose == \E n \in Nodes :
  /\ leader = n /\ nd[n].up /\ cnt.prop < MaxProp
  /\ DedupFix => ~nd[n].just        \* intended: a new leader does not batch while entries of its predecessor are in flight
  /\ \E B \in (SUBSET (nd[n].pool \ nd[n].batched)) \ {{}} :
        nd' = [nd EXCEPT ![n] = Propose(@, B, nextId)]
  /\ nextId' = nextId + 1 /\ cnt' = [cnt EXCEPT !.prop = @ + 1]
  /\ UNCHANGED <<log, leader, sub, g>>

RaftCommit == \E n \in Nodes :
  /\ leader = n /\ nd[n].up /\ nd[n].pend # <<>> /\ NumBatch < MaxLog
  /\ log' = Append(log, Head(nd[n].pend))
  /\ \/ nd' = [nd EXCEPT ![n].pend = Tail(@)] /\ UNCHANGED cnt
     \/ cnt.dup < MaxDup /\ cnt' = [cnt EXCEPT !.dup = @ + 1] /\ UNCHANGED nd     \* the same proposal is committed again later
  /\ UNCHANGED <<leader, nextId, sub, g>>

BecomeLeader == \E n \in Nodes :
  /\ nd[n].up /\ leader # n /\ cnt.lc < MaxLC
  /\ log' = Append(log, Empty)
  /\ nd' = [m \in Nodes |-> IF m = n THEN AfterReady([nd[m] EXCEPT !.just = TRUE], Len(log'))
                            ELSE IF m = leader THEN [nd[m] EXCEPT !.pend = <<>>] ELSE nd[m]]
  /\ leader' = n /\ cnt' = [cnt EXCEPT !.lc = @ + 1]
  /\ UNCHANGED <<nextId, sub, g>>

\* bound on the interleavings: at most MaxLagNodes replicas have a lagging executor at a time; on the others the
\* executor persists and reports a block as soon as it is handed over
Lagging(m) == nd[m].up /\ (nd[m].q # <<>> \/ nd[m].unrep # {})
FastPath(n) == ~Lagging(n) /\ Cardinality({m \in Nodes \ {n} : Lagging(m)}) >= MaxLagNodes

Deliver == \E n \in Nodes :
  /\ nd[n].up /\ nd[n].applied < Len(log)
  /\ LET idx == nd[n].applied + 1
         r0  == Publish(nd[n], log[idx], idx, leader = n)
         r   == IF r0.m /\ FastPath(n) THEN [s |-> Report(Execute(r0.s), log[idx].h), m |-> TRUE] ELSE r0 IN
     /\ nd' = [nd EXCEPT ![n] = MaybeSnapshot(AfterReady(r.s, Len(log)), SnapCount)]
     /\ g' = IF r.m THEN GDeliver(g, n, nd[n].inc, log[idx]) ELSE g
  /\ UNCHANGED <<log, leader, nextId, cnt, sub>>

DoExecute == \E n \in Nodes :
  /\ nd[n].up /\ nd[n].q # <<>>
  /\ nd' = [nd EXCEPT ![n] = Execute(@)]
  /\ UNCHANGED <<log, leader, nextId, cnt, sub, g>>

DoReport == \E n \in Nodes : \E h \in nd[n].unrep :
  /\ nd[n].up
  /\ nd' = [nd EXCEPT ![n] = MaybeSnapshot(Report(@, h), SnapCount)]
  /\ UNCHANGED <<log, leader, nextId, cnt, sub, g>>

DoCrash == \E n \in Nodes :
  /\ nd[n].up /\ cnt.crash < MaxCrash
  /\ nd' = [nd EXCEPT ![n] = Crash(@)]
  /\ leader' = IF leader = n THEN NoNode ELSE leader
  /\ cnt' = [cnt EXCEPT !.crash = @ + 1]
  /\ UNCHANGED <<log, nextId, sub, g>>

DoRestart == \E n \in Nodes :
  /\ ~nd[n].up
  /\ LET s1 == Restart(nd[n]) IN
     IF SnapFix /\ nd[n].snapH > Len(nd[n].led)
     THEN \E p \in Nodes \ {n} :
            /\ nd[p].up /\ Len(nd[p].led) >= nd[n].snapH
            /\ nd' = [nd EXCEPT ![n] = Synced(s1, nd[p].led, nd[n].snapH)]
            /\ g' = GDeliverSeq(GRestart(g, n, Len(nd[n].led)), n, s1.inc,
                                [i \in 1..(nd[n].snapH - Len(nd[n].led)) |-> nd[p].led[Len(nd[n].led) + i]])
     ELSE nd' = [nd EXCEPT ![n] = s1] /\ g' = GRestart(g, n, Len(nd[n].led))
  /\ UNCHANGED <<log, leader, nextId, cnt, sub>>

DoInstall == \E n \in Nodes :
  /\ leader # NoNode /\ leader # n /\ nd[n].up /\ nd[leader].up
  /\ LET sI == nd[leader].snapIdx  sH == nd[leader].snapH IN
     /\ sI > nd[n].applied
     /\ sH > Len(nd[n].led) /\ sH >= nd[n].lastExec       \* otherwise recoverFromSnapshot never returns (no delivery at all)
     /\ \E p \in Nodes \ {n} :
          /\ nd[p].up /\ Len(nd[p].led) >= sH
          /\ nd' = [nd EXCEPT ![n] = Install(@, sI, sH, nd[p].led)]
          /\ g' = GDeliverSeq(g, n, nd[n].inc, [i \in 1..(sH - nd[n].lastExec) |-> nd[p].led[nd[n].lastExec + i]])
  /\ UNCHANGED <<log, leader, nextId, cnt, sub>>

Sym == Permutations(Nodes) \cup Permutations(Txs)
Next == Submit \/ DoPropose \/ RaftCommit \/ BecomeLeader \/ Deliver \/ DoExecute \/ DoReport
        \/ DoCrash \/ DoRestart \/ DoInstall
Spec == Init /\ [][Next]_vars

Inv_C20_Contiguous  == C20_Contiguous(g)
Inv_C20_AtMostOnce  == C20_AtMostOnce(g)
Inv_C20_SameContent == C20_SameContent(g)
Inv_C20_NoSkip      == C20_NoSkip(g)
Inv_C20_TxOnce      == C20_TxOnce(g)
\* every executed chain, and every executor queue behind it, is a prefix of the chain the log defines
Inv_Canon == \A n \in Nodes : /\ IsPrefix(nd[n].led, Canon(log))
                              /\ nd[n].up => IsPrefix(nd[n].led \o nd[n].q, Canon(log))
\* "no entry that was not executed is skipped", stated on the model: a replica that has applied the whole log
\* has handed over the whole chain
Inv_C20_NoSkipModel == \A n \in Nodes : (nd[n].up /\ nd[n].applied = Len(log)) => nd[n].lastExec = Len(Canon(log))
=============================================================================
