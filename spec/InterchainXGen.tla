---------------------------- MODULE InterchainXGen ----------------------------
(* Model-guided input generation between two BitXHubs: random walks (tlc -simulate) over the machine of        *)
(* InterchainXMC; every step is one block (a request of either direction, a receipt, a notice) or a change of  *)
(* the other hub's status or nothing; the walk is printed as a JSON plan that interadp replays on the real     *)
(* executor (signer sequences become real multi-signature proofs).  Choices are drawn with RandomElement and   *)
(* the kind of the next step is a state variable, so that every step has exactly one successor.                *)
EXTENDS InterchainXMC, Json
VARIABLES inp, pick
gvars == <<vars, inp, pick>>
GenInit == Init /\ inp = <<>> /\ pick = "in"
Kinds == <<"in", "in", "out", "out", "rcpt", "rcpt", "notice", "notice", "empty", "hub">>
Known == DOMAIN g.st
SigStr(q) == [i \in 1..Len(q) |-> [who |-> q[i].who, over |-> q[i].over]]
Rec(t) == [op |-> "tx", typ |-> t.typ, src |-> t.src, dst |-> t.dst, idx |-> t.idx, T |-> t.T, ms |-> t.ms, sigs |-> SigStr(t.sigs), notice |-> t.notice]
GenNext ==
  /\ h < MaxH
  /\ pick' = Kinds[RandomElement(1..Len(Kinds))]
  /\ LET kind == pick IN
     \/ /\ kind = "in"
        /\ LET t == RandomElement({r \in InReqs : r.notice = ""}) IN Block(t) /\ inp' = Append(inp, Rec(t))
     \/ /\ kind = "out"
        /\ LET t == RandomElement({r \in OutReqs : r.notice = ""}) IN Block(t) /\ inp' = Append(inp, Rec(t))
     \/ /\ kind = "rcpt"
        /\ LET all == OutRcpts \cup InRcpts
               cands == IF Known # {} /\ RandomElement(1..5) > 1 THEN {r \in all : r.id \in Known} ELSE all
               t == RandomElement(cands) IN Block(t) /\ inp' = Append(inp, Rec(t))
     \/ /\ kind = "notice"
        /\ LET all == {r \in InReqs \cup OutReqs : r.notice # ""}
               cands == IF Known # {} /\ RandomElement(1..6) > 1 THEN {r \in all : r.id \in Known} ELSE all
               t == RandomElement(cands) IN Block(t) /\ inp' = Append(inp, Rec(t))
     \/ /\ kind = "empty"
        /\ Empty /\ inp' = Append(inp, [op |-> "empty"])
     \/ /\ kind = "hub"
        /\ LET s == RandomElement(HubStatuses \ {hub}) IN
           hub' = s /\ UNCHANGED <<g, h, accAt, hist>> /\ inp' = Append(inp, [op |-> "hub", to |-> s])
GenSpec == GenInit /\ [][GenNext]_gvars
EmitPlan == h < MaxH \/ PrintT(<<"VERIF_PLAN", ToJson(inp)>>)
=============================================================================
