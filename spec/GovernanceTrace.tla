-------------------------- MODULE GovernanceTrace --------------------------
(* Validation of governance scenario traces (interadp -mode gov) against Governance.tla: accepted votes are  *)
(* judged when cast, every proposal record is judged after every block.                                       *)
EXTENDS Governance, Json, IOUtils
TraceFile == IF "TRACE" \in DOMAIN IOEnv THEN IOEnv.TRACE ELSE "trace.ndjson"
Tr == ndJsonDeserialize(TraceFile)
VARIABLES l, tname, props, prevSt, roles, pending, viol, drift
tvars == <<l, tname, props, prevSt, roles, pending, viol, drift>>
Init == l = 0 /\ tname = "" /\ props = <<>> /\ prevSt = <<>> /\ roles = <<>> /\ pending = FALSE /\ viol = {} /\ drift = {} /\ TLCSet(1, 0)

RoleMap(list) == [a \in {x.a : x \in ToSet(list)} |-> CHOOSE x \in ToSet(list) : x.a = a]
\* an administrator whose freeze is still only proposed ("freezing") is available
AvailAdmins(rm) == {a \in DOMAIN rm : rm[a].st \in {"available", "freezing"}}
SuperAdmins(rm) == {a \in DOMAIN rm : rm[a].w = 2}
ObsOf(list, pid) == CHOOSE x \in ToSet(list) : x.pid = pid

BlockStep(e) ==
  LET rm0 == roles                       \* roles before the block
      avail0 == AvailAdmins(rm0)
      \* 1. votes of this block, in order
      V[i \in 0..Len(e.txs)] ==
        IF i = 0 THEN [ps |-> props, v |-> {}]
        ELSE LET t == e.txs[i]  acc == V[i-1] IN
             IF t.k = "vote" /\ t.status = "SUCCESS" /\ t.pid \in DOMAIN acc.ps
             THEN [ps |-> Put(acc.ps, t.pid, ApplyVote(acc.ps[t.pid], t.from, t.ballot)),
                   v  |-> acc.v \cup {<<x, [pid |-> t.pid, voter |-> t.from, ballot |-> t.ballot]>> :
                                        x \in VoteViol(acc.ps[t.pid], Get(prevSt, t.pid, "proposed"), avail0, t.from, t.ballot)}]
             ELSE acc
      r == V[Len(e.txs)]
      rm1 == RoleMap(e.roles)
      \* 2. proposals created in this block: eligible = administrators available when it was created
      newp == {x \in ToSet(e.props) : x.found /\ x.pid \notin DOMAIN r.ps}
      ps1 == [pid \in DOMAIN r.ps \cup {x.pid : x \in newp} |->
                IF pid \in DOMAIN r.ps THEN r.ps[pid]
                ELSE LET o == ObsOf(e.props, pid) IN NewProp(avail0, o.expr, o.special)]
      \* 3. judge every proposal record
      cv == UNION {{<<x, [pid |-> pid, status |-> ObsOf(e.props, pid).status, yes |-> ps1[pid].yes, no |-> ps1[pid].no, elig |-> ps1[pid].elig,
                           obs |-> [approve |-> ObsOf(e.props, pid).approve, against |-> ObsOf(e.props, pid).against, initial |-> ObsOf(e.props, pid).initial, expr |-> ObsOf(e.props, pid).expr]]>> :
                      x \in ConcludeViol(ps1[pid], ObsOf(e.props, pid), Get(prevSt, pid, "proposed"), SuperAdmins(rm1), AvailAdmins(rm1))} : pid \in DOMAIN ps1}
      ps2 == [pid \in DOMAIN ps1 |->
                LET o == ObsOf(e.props, pid) IN
                IF ~ps1[pid].ended /\ o.status \in {"approve", "reject"}
                THEN [ps1[pid] EXCEPT !.ended = TRUE, !.endSt = o.status, !.endYes = o.approve, !.endNo = o.against] ELSE ps1[pid]]
  IN [ps |-> ps2, v |-> r.v \cup cv, st |-> [pid \in DOMAIN ps2 |-> ObsOf(e.props, pid).status], rm |-> rm1]

Step(e) ==
  LET nm == IF e.ev = "Init" THEN e.name ELSE tname IN
  /\ tname' = nm /\ drift' = drift
  /\ CASE e.ev = "Init" -> props' = <<>> /\ prevSt' = <<>> /\ roles' = RoleMap(e.roles) /\ pending' = FALSE /\ viol' = viol
       [] e.ev = "Submit" -> pending' = TRUE /\ UNCHANGED <<props, prevSt, roles, viol>>
       [] e.ev = "Block" -> LET b == BlockStep(e) IN
                            /\ props' = b.ps /\ prevSt' = b.st /\ roles' = b.rm /\ pending' = FALSE
                            /\ viol' = viol \cup {<<nm, l + 1, x[1], x[2]>> : x \in b.v}
       [] e.ev \in {"ExecError", "Crashed"} -> /\ viol' = viol \cup {<<nm, l + 1, "C08_Alive", e.ev>>} /\ pending' = FALSE /\ UNCHANGED <<props, prevSt, roles>>
       [] OTHER -> UNCHANGED <<props, prevSt, roles, pending, viol>>
Next == /\ l < Len(Tr) /\ l' = l + 1 /\ Step(Tr[l + 1])
        /\ TLCSet(1, l + 1) /\ TLCSet(2, viol') /\ TLCSet(3, drift')
Spec == Init /\ [][Next]_tvars
Accepted ==
  /\ PrintT(<<"VERIF_RESULT", "lines", Len(Tr), "consumed", TLCGet(1)>>)
  /\ PrintT(<<"VERIF_VIOL", ToJson(IF TLCGet(1) = 0 THEN {} ELSE TLCGet(2))>>)
  /\ PrintT(<<"VERIF_DRIFT", ToJson(IF TLCGet(1) = 0 THEN {} ELSE TLCGet(3))>>)
  /\ TLCGet(1) = Len(Tr)
=============================================================================
