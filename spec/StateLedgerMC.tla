--------------------------- MODULE StateLedgerMC ---------------------------
(* Exhaustive check (small bounds) that the layered ledger model answers every read, query, *)
(* revert and rollback like the flat property-level ghost.                                   *)
EXTENDS StateLedger

CONSTANTS MaxH, MaxOps, MaxSnaps

CONSTANTS Slots, StVals, MaxFaults, EmptyVals
U == [ slots |-> Slots,
       acct  |-> [sl \in Slots |-> IF sl = "a2/s/k" THEN "a2" ELSE "a1"],
       kind  |-> [sl \in Slots |-> IF sl = "a1/bal" THEN "bal" ELSE "st"] ]
\* one storage slot may also be written with the empty (non-nil) byte string
ValsOf(sl) == IF U.kind[sl] = "bal" THEN {"0", "1"} ELSE IF sl = "a1/s/k" THEN StVals \cup EmptyVals ELSE StVals
PrefixK == {"a1/s/k", "a1/s/k1"} \cap Slots     \* slots of account a1 with key prefix "k"

VARIABLES s, g, ops, snapc, hist, faults
vars == <<s, g, ops, snapc, hist, faults>>
view == <<s, g, ops, snapc, faults>>   \* hist (inputs so far) is output only

Init == s = SInit(U) /\ g = GInit(U) /\ ops = 0 /\ snapc = 0 /\ hist = <<>> /\ faults = 0

Write == \E sl \in U.slots : \E v \in ValsOf(sl) : \E j \in BOOLEAN :
  /\ (U.kind[sl] = "bal" => j)          \* only storage has a non-journaled write (AddState)
  /\ ~g.flushed
  /\ s' = SWrite(U, s, sl, v, j) /\ g' = GWrite(g, sl, Norm(v), j)
  /\ ops' = ops + 1 /\ UNCHANGED snapc /\ hist' = Append(hist, <<"W", sl, v, j>>)
Read == \E sl \in U.slots :
  /\ s' = SRead(U, s, sl).s /\ UNCHANGED <<g, snapc>> /\ ops' = ops + 1 /\ hist' = Append(hist, <<"R", sl>>)
Snapshot ==
  /\ snapc < MaxSnaps /\ ~g.flushed
  /\ LET r == SSnapshot(s) IN s' = r.s /\ g' = GSnapshot(g, r.v)
  /\ snapc' = snapc + 1 /\ ops' = ops + 1 /\ hist' = Append(hist, <<"Snap">>)
Revert == \E i \in 1..Len(g.snaps) :
  /\ ~g.flushed
  /\ s' = SRevert(s, g.snaps[i].id) /\ g' = GRevert(g, g.snaps[i].id)
  /\ ops' = ops + 1 /\ UNCHANGED snapc /\ hist' = Append(hist, <<"Revert", g.snaps[i].id>>)
Finalise == /\ ~g.flushed /\ s' = SFinalise(s) /\ g' = GFinalise(g) /\ ops' = ops + 1 /\ snapc' = 0 /\ hist' = Append(hist, <<"Finalise">>)
Flush == /\ ~g.flushed /\ g.head < MaxH /\ Len(g.undo) = 0 /\ Len(g.snaps) = 0   \* blocks are flushed after Finalise only
         /\ s' = SFlush(U, s) /\ g' = GFlush(g) /\ UNCHANGED <<ops, snapc>> /\ hist' = Append(hist, <<"Flush">>)
Commit == /\ g.flushed
          /\ s' = SCommit(U, s, g.head + 1) /\ g' = GCommit(g, g.head + 1) /\ ops' = 0 /\ UNCHANGED snapc /\ hist' = Append(hist, <<"Commit">>)
Rollback == \E t \in 0..g.head :
  /\ ~g.flushed /\ GRollbackOK(g, t) /\ faults < MaxFaults /\ faults' = faults + 1
  /\ s' = SRollback(U, s, t) /\ g' = GRollback(g, U, t) /\ ops' = 0 /\ snapc' = (IF t = g.head THEN snapc ELSE 0) /\ hist' = Append(hist, <<"Rollback", t>>)
Reopen == /\ ~g.flushed /\ faults < MaxFaults /\ faults' = faults + 1
          /\ s' = SReopen(U, s) /\ g' = GReopen(g, U) /\ ops' = 0 /\ snapc' = 0 /\ hist' = Append(hist, <<"Reopen">>)

Next == \/ (ops < MaxOps /\ (Write \/ Read \/ Snapshot \/ Revert \/ Finalise) /\ UNCHANGED faults)
        \/ ((Flush \/ Commit) /\ UNCHANGED faults) \/ Rollback \/ Reopen
Spec == Init /\ [][Next]_vars

\* every possible read, at every reachable state, returns the latest write
Inv_C13_ReadLatest == \A sl \in U.slots : C13_ReadLatest(g, sl, SRead(U, s, sl).v)
Inv_C13_QueryExact == g.flushed \/ (PrefixK \cap g.free # {}) \/ BagOfFn([x \in DOMAIN SQuery(U, s, PrefixK) |-> Norm(SQuery(U, s, PrefixK)[x])]) = BagOfFn(LiveVals(g, PrefixK))
Inv_C12_RollbackGate == \A t \in 0..MaxH : ~g.flushed => ((SRollbackErr(s, t) = "ok") <=> GRollbackOK(g, t))
\* the database itself equals the truth at the committed head whenever no block is open
Inv_C12_DbAtHead == (g.head > 0 /\ ~g.flushed) => \A sl \in U.slots \ g.at[g.head].free : Norm(s.db[sl]) = g.at[g.head].cur[sl]
\* C13: the found flag of a read must not depend on where it is served from: whenever nothing is uncommitted, stopping
\* and reopening the ledger (cold caches) must not change it
Inv_C13_StableExistence == (~g.flushed /\ \A sl \in U.slots : s.dirty[sl] = Absent) =>
                             \A sl \in U.slots : U.kind[sl] = "st" => SFound(U, s, sl) = SFound(U, SReopen(U, s), sl)
Inv_WindowAgree == s.maxJ = g.head
=============================================================================
