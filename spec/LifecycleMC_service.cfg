SPECIFICATION Spec
CONSTANTS
  Kind = "service"
  MaxOpen = 3
PROPERTIES EdgeOK ReturnOK Absorbing
CHECK_DEADLOCK FALSE
