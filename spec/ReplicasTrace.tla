--------------------------- MODULE ReplicasTrace ---------------------------
(* Validation of multi-replica traces (interadp -replicas): every Executed event of a replica is compared *)
(* with the reference replica's digest of the same height (C01_Agreement).  A replica that was stopped    *)
(* and reopened before block 2 is marked (known finding: genesis writes the name-service state after the  *)
(* genesis block was flushed).                                                                            *)
EXTENDS Replicas, Json, IOUtils, SequencesExt
TraceFile == IF "TRACE" \in DOMAIN IOEnv THEN IOEnv.TRACE ELSE "trace.ndjson"
Tr == ndJsonDeserialize(TraceFile)
VARIABLES l, tname, ref, taint, viol, drift
tvars == <<l, tname, ref, taint, viol, drift>>
Init == l = 0 /\ tname = "" /\ ref = <<>> /\ taint = {} /\ viol = {} /\ drift = {} /\ TLCSet(1, 0)
Put(f, k, v) == [x \in DOMAIN f \cup {k} |-> IF x = k THEN v ELSE f[x]]
Step(e) ==
  LET nm == IF e.ev = "Init" THEN e.name ELSE tname IN
  /\ tname' = nm /\ drift' = drift
  /\ CASE e.ev = "Init" -> ref' = <<>> /\ taint' = ToSet(e.genesisRestart) /\ viol' = viol
       [] e.ev = "RepRestart" -> /\ taint' = IF e.h <= 1 THEN taint \cup {e.r} ELSE taint
                                 /\ UNCHANGED <<ref, viol>>
       [] e.ev = "Executed" ->
            IF e.r = 0 THEN ref' = Put(ref, e.h, e.d) /\ UNCHANGED <<taint, viol>>
            ELSE /\ UNCHANGED <<ref, taint>>
                 /\ viol' = IF e.h \in DOMAIN ref /\ ~C01_Agreement(ref[e.h], e.d)
                            THEN viol \cup {<<nm, l + 1, "C01_Agreement",
                                              [r |-> e.r, h |-> e.h, fields |-> DiffFields(ref[e.h], e.d),
                                               taint |-> IF e.r \in taint THEN "restartBeforeBlock2" ELSE "none"]>>}
                            ELSE viol
       [] e.ev = "ReplicaDiverged" ->
            /\ UNCHANGED <<ref, taint>>
            /\ viol' = viol \cup {<<nm, l + 1, "C01_Agreement", [r |-> e.r, h |-> e.h, fields |-> {"setup"}, taint |-> "none", msg |-> e.msg]>>}
       [] OTHER -> UNCHANGED <<ref, taint, viol>>
Next == /\ l < Len(Tr) /\ l' = l + 1 /\ Step(Tr[l + 1])
        /\ TLCSet(1, l + 1) /\ TLCSet(2, viol') /\ TLCSet(3, drift')
Spec == Init /\ [][Next]_tvars
Accepted ==
  /\ PrintT(<<"VERIF_RESULT", "lines", Len(Tr), "consumed", TLCGet(1)>>)
  /\ PrintT(<<"VERIF_VIOL", ToJson(IF TLCGet(1) = 0 THEN {} ELSE TLCGet(2))>>)
  /\ PrintT(<<"VERIF_DRIFT", ToJson(IF TLCGet(1) = 0 THEN {} ELSE TLCGet(3))>>)
  /\ TLCGet(1) = Len(Tr)
=============================================================================
