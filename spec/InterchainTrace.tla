-------------------------- MODULE InterchainTrace --------------------------
(***************************************************************************)
(* Validation of real executor traces (harness/cmd/interadp) against       *)
(* Interchain.tla.  Acceptance of every IBTP is bound to its receipt; an   *)
(* accepted IBTP is judged by the clause of C02 / C03 / C04 / C16 it would *)
(* violate; after every block the observed counters (C02), statuses (C04,  *)
(* C06), group records (C05), delivery and timeout metadata (C02, C05, C06)*)
(* are compared with the protocol machine.  A rejected IBTP the machine    *)
(* would have accepted is drift.  The generic block formulas of Exec.tla   *)
(* (C07 / C08 / C14) are evaluated on the same events.                     *)
(***************************************************************************)
EXTENDS Interchain, Surface, Lifecycle, Json, IOUtils

TraceFile == IF "TRACE" \in DOMAIN IOEnv THEN IOEnv.TRACE ELSE "trace.ndjson"
Tr == ndJsonDeserialize(TraceFile)
EX == INSTANCE Exec     \* the generic block formulas (C07 / C08 / C14) are evaluated on the same events

VARIABLES l, tname, g, env, pending, viol, drift
tvars == <<l, tname, g, env, pending, viol, drift>>

Env0 == [svc |-> <<>>, h |-> 0, bxh |-> "", unordered |-> {}, admins |-> {}, relay |-> <<>>, rule |-> <<>>, chain |-> <<>>, rl |-> <<>>, nd |-> <<>>, rtyp |-> <<>>, grant |-> 0, ra |-> <<>>, black |-> {}]
Init == l = 0 /\ tname = "" /\ g = GInit /\ env = Env0 /\ pending = FALSE /\ viol = {} /\ drift = {} /\ TLCSet(1, 0)

SvcMap(list) == [s \in {x.svc : x \in ToSet(list)} |-> (CHOOSE x \in ToSet(list) : x.svc = s).st]
\* governance status (and type) of the observed roles and nodes (role / node lifecycle scenarios)
StMap(list) == [a \in {x.a : x \in ToSet(list)} |-> (CHOOSE x \in ToSet(list) : x.a = a).st]
TypMap(list) == [a \in {x.a : x \in ToSet(list)} |-> (CHOOSE x \in ToSet(list) : x.a = a).typ]
\* governance status of every registered appchain and relay chain
ChainMap(chains, relay) == [c \in {x.chain : x \in ToSet(chains)} \cup {x.bxh : x \in ToSet(relay)} |->
                             IF \E x \in ToSet(chains) : x.chain = c THEN (CHOOSE x \in ToSet(chains) : x.chain = c).st
                             ELSE (CHOOSE x \in ToSet(relay) : x.bxh = c).st]
\* the validation rule bound (status available) to every registered appchain, "" if none
RuleMap(list) == [c \in {x.chain : x \in ToSet(list)} |->
                    LET x == CHOOSE y \in ToSet(list) : y.chain = c IN [bound |-> x.bound, unbinding |-> x.unbinding, cert |-> x.cert]]
\* other BitXHubs registered on this hub: status, registered validator labels, length of the validator list
RelayMap(list) == [b \in {x.bxh : x \in ToSet(list)} |->
                     LET x == CHOOSE y \in ToSet(list) : y.bxh = b IN [st |-> x.st, vals |-> ToSet(x.vals), n |-> x.n]]

\* judge and apply one transaction (position i of the block); acc = [g, v, d, nt]; nt = positions accepted as notices
TxStep(acc, en, t, i) ==
  IF t.k = "invoke" /\ t.cls = "surface"
  THEN [acc EXCEPT !.v = @ \cup (IF C17_InternalOnly(t) THEN {} ELSE {<<"C17_InternalOnly", [c |-> t.c, m |-> t.m, role |-> t.role]>>})
                          \cup (IF C17_Privileged(t) THEN {} ELSE {<<"C17_Privileged", [c |-> t.c, m |-> t.m, role |-> t.role]>>})]
  ELSE IF t.k # "ibtp" THEN acc
  ELSE
  LET gg == acc.g
      ok == t.status = "SUCCESS"
      bf == t.ret = "begin_failure"
      proofViol == IF ProofAcceptable(en, t) THEN {}
                   ELSE {<<IF Prover(t) = en.bxh THEN "C03_Gate" ELSE "C03_MultiSign",
                           IF Prover(t) = en.bxh THEN [id |-> t.id, rule |-> RuleOf(en, ProverChain(t)), hashok |-> t.hashok, art |-> t.art]
                           ELSE [id |-> t.id, hub |-> Prover(t), sigs |-> t.sigs, hashok |-> t.hashok,
                                 registered |-> IF Prover(t) \in DOMAIN en.relay THEN en.relay[Prover(t)] ELSE [st |-> "none", vals |-> {}, n |-> 0]]>>}
  IN IF t.typ = "REQ" /\ IsNotice(gg, t) THEN
       IF ok THEN
         LET legal == t.id \in DOMAIN gg.st /\ NextStatus(gg.st[t.id], NoticeEv(t)) # "NONE"
         IN [g |-> IF legal THEN AcceptRcpt(gg, [t EXCEPT !.typ = NoticeEv(t)]) ELSE IF t.id \in DOMAIN gg.st THEN ForceNotice(gg, t) ELSE gg,
             v |-> acc.v \cup proofViol
                         \cup (IF t.idx = Get(gg.rcp, <<t.src, t.dst>>, 0) + 1 THEN {} ELSE {<<"C02_ReceiptInOrder", t.id>>})
                         \cup (IF legal THEN {} ELSE {<<"C04_Step", [id |-> t.id, from |-> CurStatus(gg, t.id), by |-> NoticeEv(t)]>>}),
             d |-> acc.d, nt |-> acc.nt \cup {i}]
       ELSE [acc EXCEPT !.d = IF ShouldAcceptNotice(gg, en, t) /\ t.ret # "fee" THEN @ \cup {<<"rejected", t.id>>} ELSE @]
     ELSE IF t.typ = "REQ" THEN
       IF ok THEN
         \* (a declared group child whose destination is on another hub is handled as a one-to-one transaction by this code
         \* base: the machine follows it; BlockStep reports C05_GroupSpansHubs when the stored group does not list the child)
         \* (... and it registers no timeout for it either: the executor leaves grouped requests to the transaction manager)
         [g |-> IF t.gid = "" THEN AcceptReq(gg, en, t, bf)
                ELSE IF XH(t) THEN AcceptReq(gg, en, [t EXCEPT !.T = 0], bf) ELSE AcceptGroupReq(gg, en, t, bf),
          v |-> acc.v \cup proofViol
                      \cup (IF t.srcLocal => Avail(en, t.src) THEN {} ELSE {<<"C16_SourceAvailable", t.id>>})
                      \cup (IF IsBatchDst(en, t) \/ t.idx = Get(gg.acc, <<t.src, t.dst>>, 0) + 1 THEN {} ELSE {<<"C02_InOrder", t.id>>})
                      \cup (IF XH(t) /\ Seen(gg, t.id) THEN {<<"C02_InOrder", t.id>>} ELSE {})
                      \* the same request again (only an unordered destination lets it get this far) must not touch the
                      \* status its transaction has reached
                      \cup (IF t.gid = "" /\ t.id \in DOMAIN gg.st /\ gg.st[t.id] # (IF bf THEN "BEGIN_FAILURE" ELSE "BEGIN")
                            THEN {<<"C04_Step", [id |-> t.id, from |-> gg.st[t.id], by |-> "REQ"]>>} ELSE {})
                      \cup (IF bf = ~DestOK(en, t) \/ t.dstChain = en.bxh THEN {} ELSE {<<"C16_DestGate", t.id>>}),
          d |-> acc.d \cup (IF t.srcLocal \/ SourceOK(en, t) THEN {} ELSE {<<"accepted from an unavailable hub", t.id>>}),
          nt |-> acc.nt]
       ELSE [acc EXCEPT !.d = IF ShouldAcceptReq(gg, en, t) /\ t.ret # "fee" THEN @ \cup {<<"rejected", t.id>>} ELSE @]   \* (a sender that cannot pay the fee is no protocol rejection)
     ELSE
       IF ok THEN
         LET known == t.id \in DOMAIN gg.st \/ t.id \in DOMAIN gg.kid
             legal == known /\ IF t.id \in DOMAIN gg.st THEN NextStatus(gg.st[t.id], t.typ) # "NONE"
                                ELSE LET gr == gg.grp[gg.kid[t.id]] IN
                                     (gr.state = "BEGIN" /\ t.typ = "FAIL") \/ NextStatus(gr.kids[t.id], t.typ) # "NONE"
         IN [g |-> IF ~legal THEN gg ELSE IF t.id \in DOMAIN gg.st THEN AcceptRcpt(gg, t) ELSE AcceptGroupRcpt(gg, t),
             v |-> acc.v \cup proofViol
                         \cup (IF known THEN {} ELSE {<<"C02_ReceiptAfterRequest", t.id>>})
                         \cup (IF t.idx = Get(gg.rcp, <<t.src, t.dst>>, 0) + 1 THEN {} ELSE {<<"C02_ReceiptInOrder", t.id>>})
                         \cup (IF known /\ ~legal THEN {<<"C04_Step", [id |-> t.id, from |-> CurStatus(gg, t.id), by |-> t.typ]>>} ELSE {}),
             d |-> acc.d, nt |-> acc.nt]
       ELSE [acc EXCEPT !.d = IF ShouldAcceptRcpt(gg, en, t) /\ t.ret # "fee" THEN @ \cup {<<"rejected", t.id>>} ELSE @]

RunTxs(g0, en, txs) ==
  LET F[i \in 0..Len(txs)] == IF i = 0 THEN [g |-> g0, v |-> {}, d |-> {}, nt |-> {}] ELSE TxStep(F[i-1], en, txs[i], i)
  IN F[Len(txs)]

\* observed counters as a function <<kind, s, d>> -> n
ObsCtr(list) == [k \in {<<x.kind, x.s, x.d>> : x \in ToSet(list)} |-> (CHOOSE x \in ToSet(list) : <<x.kind, x.s, x.d>> = k).n]
CtrViol(g2, list, unord) ==
  LET o == ObsCtr(list)
      pairs == DOMAIN g2.acc \cup DOMAIN g2.rcp \cup {<<k[2], k[3]>> : k \in {x \in DOMAIN o : x[1] \in {"ic", "rc", "bin"}}}
                \cup {<<k[3], k[2]>> : k \in {x \in DOMAIN o : x[1] \in {"sic", "src"}}}
      bad == {p \in pairs : \/ Get(o, <<"ic", p[1], p[2]>>, 0) # Get(g2.acc, p, 0)
                            \* (C02 speaks of ordered pairs: an unordered destination records the last index, not the count)
                            \* (nor is there a destination-side record when the destination is the hub's own broker)
                            \/ (p[2] \notin unord /\ p \notin g2.hub /\ Get(o, <<"sic", p[2], p[1]>>, 0) # Get(g2.acc, p, 0))
                            \* a request to a service of the hub itself is counted by the hub's broker instead (InCounter)
                            \/ Get(o, <<"bin", p[1], p[2]>>, 0) # (IF p \in g2.hub THEN Get(g2.acc, p, 0) ELSE 0)
                            \/ Get(o, <<"rc", p[1], p[2]>>, 0) # Get(g2.rcp, p, 0)
                            \/ Get(o, <<"src", p[2], p[1]>>, 0) # Get(g2.rcp, p, 0)}
  IN {<<"C02_CountersEqualHistory", [pair |-> p, acc |-> Get(g2.acc, p, 0), rcp |-> Get(g2.rcp, p, 0),
                                     ic |-> Get(o, <<"ic", p[1], p[2]>>, 0), sic |-> Get(o, <<"sic", p[2], p[1]>>, 0),
                                     rc |-> Get(o, <<"rc", p[1], p[2]>>, 0), src |-> Get(o, <<"src", p[2], p[1]>>, 0),
                                     bin |-> Get(o, <<"bin", p[1], p[2]>>, 0)]>> : p \in bad}

StatusViol(g1, g2, h, list) ==
  LET expired == ExpiredIds(g1, h)
      \* (an id can be both only through replays towards an unordered destination; the query reads the one-to-one record first)
      want(id) == IF id \in DOMAIN g2.st THEN g2.st[id] ELSE IF id \in DOMAIN g2.kid THEN g2.grp[g2.kid[id]].state ELSE "NONE"
      bad == {x \in ToSet(list) : x.st # want(x.id)}
  IN {<<"C04_QueryAgrees", [id |-> x.id, observed |-> x.st, expected |-> want(x.id)]>> : x \in bad}
     \cup {<<"C06_FiresAt", [id |-> x.id, observed |-> x.st, expected |-> want(x.id)]>> :
              x \in {y \in bad : y.id \in expired \/ y.st = "BEGIN_ROLLBACK" \/ want(y.id) = "BEGIN_ROLLBACK"}}

\* delivery: every accepted request is listed exactly once under its destination chain at its position
DelivViol(en, txs, counter, notices) ==
  LET entries(chain) == IF chain \in DOMAIN counter THEN counter[chain] ELSE <<>>
      cnt(chain, p) == Cardinality({i \in 1..Len(entries(chain)) : entries(chain)[i].pos = p})
      reqs == {i \in 1..Len(txs) : txs[i].k = "ibtp" /\ txs[i].typ = "REQ" /\ txs[i].status = "SUCCESS" /\ txs[i].dstChain # en.bxh} \ notices
      dchain(t) == IF t.dstLocal THEN t.dstChain ELSE UnionPier
      allpos == UNION {{entries(c)[i].pos : i \in 1..Len(entries(c))} : c \in DOMAIN counter}
      okpos  == {i - 1 : i \in {j \in 1..Len(txs) : txs[j].k = "ibtp" /\ txs[j].status = "SUCCESS"}}
  IN {<<"C02_DeliveredOnce", [id |-> txs[i].id, n |-> cnt(dchain(txs[i]), i - 1)]>> : i \in {j \in reqs : cnt(dchain(txs[j]), j - 1) # 1}}
     \cup {<<"C02_DeliveredOnlyAccepted", [pos |-> p, ntx |-> Len(txs)]>> : p \in allpos \ okpos}

\* timeout metadata: exactly the one-to-one transactions that expire in this block, once, under their source chain
TmetaViol(g1, h, tmeta, idChain) ==
  LET expired == ExpiredIds(g1, h)
      lists == ToSet(tmeta)
      occ(id) == UNION { {<<x.chain, i>> : i \in {j \in 1..Len(x.ids) : x.ids[j] = id}} : x \in lists }
      listed == UNION {SeqRange(x.ids) : x \in lists}
      groupKids == UNION {DOMAIN g1.grp[gid].kids : gid \in ExpiredGrps(g1, h)}
      chainsOf(id) == {o[1] : o \in occ(id)}
      gexp == ExpiredGrps(g1, h)
  IN {<<"C06_FiresAt", [id |-> id, listed |-> Cardinality(occ(id))]>> :
          id \in {x \in expired : Cardinality(occ(x)) # 1 \/ \E o \in occ(x) : o[1] # idChain[x]}}
     \cup {<<"C06_OnlyExpired", id>> : id \in listed \ (expired \cup groupKids)}
     \* a group that expires: the source chain is told about every child, and every destination chain that holds
     \* an already succeeded child is told about that child (C05, C06 "the same holds for a group as a whole")
     \cup UNION {{<<"C06_GroupFiresAt", [gid |-> gid, child |-> k, chains |-> chainsOf(k)]>> :
                     k \in {x \in DOMAIN g1.grp[gid].kids : g1.grp[gid].src \notin chainsOf(x)}} : gid \in gexp}
     \cup UNION {{<<"C05_NotifyInSameBlock", [gid |-> gid, child |-> k, chains |-> chainsOf(k)]>> :
                     k \in {x \in DOMAIN g1.grp[gid].kids : g1.grp[gid].kids[x] = "SUCCESS"
                                                          /\ g1.grp[gid].info[x].dstChain \notin chainsOf(x)}} : gid \in gexp}

GroupViol(g2, groups) ==
  LET obs == ToSet(groups)
      kidsOf(x) == {k.id : k \in ToSet(x.kids)}
      match(gid) == {x \in obs : kidsOf(x) = DOMAIN g2.grp[gid].kids}
      bad == {gid \in DOMAIN g2.grp :
                \/ Cardinality(match(gid)) # 1
                \/ \E x \in match(gid) : \/ x.state # g2.grp[gid].state
                                         \/ \E k \in ToSet(x.kids) : k.st # g2.grp[gid].kids[k.id]}
      obsOf(gid) == IF match(gid) = {} THEN [state |-> "missing"] ELSE (CHOOSE x \in match(gid) : TRUE)
  IN {<<IF g2.grp[gid].state = "BEGIN_ROLLBACK" \/ (obsOf(gid).state = "BEGIN_ROLLBACK") THEN "C06_GroupFiresAt" ELSE "C05_GroupState", [gid |-> gid, expected |-> [state |-> g2.grp[gid].state, kids |-> g2.grp[gid].kids], observed |-> obsOf(gid)]>> : gid \in bad}
     \cup (IF C05_SuccessOnlyIfAll(g2) THEN {} ELSE {<<"C05_SuccessOnlyIfAll", "machine">>})

\* C16: an approved freeze or logout of an appchain makes all its services unusable for interchain
ChainFreezeViol(e) ==
  LET down == {c.chain : c \in {x \in ToSet(e.chains) : x.st \in {"frozen", "forbidden"}}}
  IN {<<"C16_ChainFreezeStopsServices", [svc |-> s.svc, status |-> s.st]>> :
         s \in {x \in ToSet(e.svc) : x.st \in {"available", "freezing"} /\ x.chainOf \in down}}

\* the router's output, on the live path (PutBlockAndMeta to subscribed piers) and on the query path
\* (GetInterchainTxWrappers from the ledger), against RouteOf over the block's logged delivery metadata (which DelivViol,
\* TmetaViol and the group formulas tie to the specification's own delivery sets)
RouteViol(e) ==
  IF "route" \notin DOMAIN e THEN {}
  ELSE (IF e.routeErr = "" THEN {} ELSE {<<"C02_RoutedAsListed", [pier |-> "", path |-> "error", got |-> e.routeErr]>>})
       \cup UNION { LET want == RouteOf(r.pier, e.counter, e.tmeta, e.mmeta) IN
              UNION { (IF x[2].msgs = 1 /\ x[2].wrappers = 1 /\ x[2].h = <<e.h>> /\ x[2].txs = want.txs THEN {}
                       ELSE {<<"C02_RoutedAsListed", [pier |-> r.pier, path |-> x[1], got |-> [msgs |-> x[2].msgs, h |-> x[2].h, txs |-> x[2].txs], want |-> want.txs]>>})
                      \cup (IF x[2].tmo = want.tmo THEN {} ELSE {<<"C06_RoutedTimeouts", [pier |-> r.pier, path |-> x[1], got |-> x[2].tmo, want |-> want.tmo]>>})
                      \cup (IF x[2].multi = want.multi THEN {} ELSE {<<"C05_RoutedMulti", [pier |-> r.pier, path |-> x[1], got |-> x[2].multi, want |-> want.multi]>>})
                      : x \in {<<"live", r.live>>, <<"query", r.query>>} }
              : r \in ToSet(e.route) }

BlockStep(e) ==
  LET en == [env EXCEPT !.h = e.h]
      r0 == RunTxs(g, en, e.txs)
      \* requests to an unordered destination that reach their timeout height: follow the observation, report the silent ones
      obsSt(id) == LET xs == {x \in ToSet(e.status) : x.id = id} IN IF xs = {} THEN "NONE" ELSE (CHOOSE x \in xs : TRUE).st
      bfire  == {id \in BatchExpiring(r0.g, e.h) : obsSt(id) = "BEGIN_ROLLBACK"}
      silent == BatchExpiring(r0.g, e.h) \ bfire
      r  == [r0 EXCEPT !.g = Fire(r0.g, bfire, e.h),
                       !.v = @ \cup {<<"C06_FiresAt", [id |-> id, unordered |-> TRUE, observed |-> obsSt(id), expected |-> "BEGIN_ROLLBACK"]>> : id \in silent}]
      g2 == EndBlock(r.g, e.h)
      idChain == [id \in DOMAIN r.g.st |-> "?"]
      srcChainOf == [x \in {t.id : t \in {y \in SeqRange(e.txs) : y.k = "ibtp"}} |->
                       LET t == CHOOSE y \in SeqRange(e.txs) : y.k = "ibtp" /\ y.id = x IN IF t.srcLocal THEN t.srcChain ELSE UnionPier]
  IN [g |-> g2,
      v |-> r.v \cup CtrViol(g2, e.counters, en.unordered) \cup StatusViol(r.g, g2, e.h, e.status)
                \cup (IF Len(e.txs) > 0 /\ (\A i \in 1..Len(e.txs) : e.txs[i].k = "invoke" /\ e.txs[i].cls = "surface" /\ e.txs[i].role # "govadmin")
                          /\ (CtrViol(g2, e.counters, en.unordered) \cup StatusViol(r.g, g2, e.h, e.status)) # {}
                      THEN {<<"C17_NoForeignDelete", {[c |-> e.txs[i].c, m |-> e.txs[i].m] : i \in 1..Len(e.txs)}>>} ELSE {})
                \cup DelivViol(en, e.txs, e.counter, r.nt) \cup GroupViol(g2, e.groups) \cup ChainFreezeViol(e) \cup RouteViol(e)
                \* C05: every accepted child of a declared one-to-many transaction belongs to the stored group
                \cup {<<"C05_GroupSpansHubs", [gid |-> e.txs[i].gid, child |-> e.txs[i].id]>> :
                        i \in {j \in 1..Len(e.txs) : e.txs[j].k = "ibtp" /\ e.txs[j].typ = "REQ" /\ e.txs[j].status = "SUCCESS" /\ e.txs[j].gid # ""
                                                      /\ XH(e.txs[j]) /\ j \notin r.nt
                                                      /\ ~\E gr \in ToSet(e.groups) : \E k \in ToSet(gr.kids) : k.id = e.txs[j].id}}
                \cup (LET ngov == Cardinality({i \in 1..Len(e.txs) : e.txs[i].k \in {"gov", "vote", "withdraw", "invoke"}}) IN
                      LifecycleViol("service", ServiceEdges, env.svc, SvcMap(e.svc), ngov)
                      \cup LifecycleViol("appchain", AppchainEdges, env.chain, ChainMap(e.chains, e.relay), ngov)
                      \cup LifecycleViol("role", RoleEdges, env.rl, StMap(e.rlist), ngov)
                      \cup LifecycleViol("node", NodeEdges, env.nd, StMap(e.nlist), ngov)
                      \cup LifecycleViol("rule", RuleEdges, env.ra, StMap(e.rall), ngov)
                      \cup ReturnViol("service", env.lst.service, env.svc, SvcMap(e.svc), ngov)
                      \cup ReturnViol("appchain", env.lst.appchain, env.chain, ChainMap(e.chains, e.relay), ngov)
                      \cup ReturnViol("role", env.lst.role, env.rl, StMap(e.rlist), ngov)
                      \cup ReturnViol("node", env.lst.node, env.nd, StMap(e.nlist), ngov)),
      d |-> r.d, src |-> srcChainOf, pre |-> r.g]

\* C14, grant clause: the sum of all balances may grow only by the documented grant to a NEWLY APPROVED governance or
\* audit admin: one grant for every observed role that this block took from "registering" to "available"
GrantAware(e, en) ==
  LET gv   == EX!GenericBlockViol(e, en.admins)
      cur  == StMap(e.rlist)
      newA == {a \in DOMAIN cur \cap DOMAIN en.rl : en.rl[a] = "registering" /\ cur[a] = "available"
                                                    /\ TypMap(e.rlist)[a] \in {"governanceAdmin", "auditAdmin"}}
      gain == EX!SumOver(e.bal) - EX!SumOver(e.pre)
  IN IF newA = {} THEN gv
     ELSE {x \in gv : x[1] # "C14_NoCreation"}
          \cup (IF gain <= Cardinality(newA) * en.grant THEN {}
                ELSE {<<"C14_GrantOnlyNewAdmin", [gain |-> gain, newAdmins |-> Cardinality(newA), grant |-> en.grant]>>})

VARIABLE chainOfId   \* id -> source chain (for timeout metadata)
allvars == <<tvars, chainOfId>>

Step(e) ==
  LET nm == IF e.ev = "Init" THEN e.name ELSE tname IN
  /\ tname' = nm
  /\ CASE e.ev = "Init" ->
            /\ g' = GInit /\ pending' = FALSE /\ chainOfId' = <<>>
            /\ env' = [svc |-> SvcMap(e.svc), h |-> e.h, bxh |-> e.bxh, unordered |-> {e.bxh \o ":" \o u : u \in ToSet(e.unordered)},
                       admins |-> ToSet(e.admins), relay |-> RelayMap(e.relay), rule |-> RuleMap(e.rules), chain |-> ChainMap(e.chains, e.relay),
                       rl |-> StMap(e.rlist), nd |-> StMap(e.nlist), rtyp |-> TypMap(e.rlist), grant |-> e.grant, ra |-> StMap(e.rall),
                       black |-> {<<x.svc, x.src>> : x \in ToSet(e.black)},
                       lst |-> [service |-> <<>>, appchain |-> <<>>, role |-> <<>>, node |-> <<>>]]
            /\ viol' = viol \cup (IF e.setupEqual THEN {} ELSE {<<nm, l + 1, "C01_SetupDiverged", 0>>})
            /\ drift' = drift
       [] e.ev = "Submit" -> /\ pending' = TRUE /\ UNCHANGED <<g, env, viol, drift, chainOfId>>
       [] e.ev = "Block" ->
            LET b == BlockStep(e)
                cmap == [x \in DOMAIN chainOfId \cup DOMAIN b.src |-> IF x \in DOMAIN b.src THEN b.src[x] ELSE chainOfId[x]]
                tv == TmetaViol(g, e.h, e.tmeta, cmap)
                tv2 == TmetaViol(b.pre, e.h, e.tmeta, cmap)
            IN /\ g' = b.g /\ pending' = FALSE /\ chainOfId' = cmap
               /\ env' = [env EXCEPT !.svc = SvcMap(e.svc), !.h = e.h, !.relay = RelayMap(e.relay), !.rule = RuleMap(e.rules), !.chain = ChainMap(e.chains, e.relay),
                                     !.rl = StMap(e.rlist), !.nd = StMap(e.nlist), !.rtyp = TypMap(e.rlist), !.ra = StMap(e.rall),
                                     !.black = IF "black" \in DOMAIN e THEN {<<x.svc, x.src>> : x \in ToSet(e.black)} ELSE @,
                                     !.lst = LET ngov == Cardinality({i \in 1..Len(e.txs) : e.txs[i].k \in {"gov", "vote", "withdraw", "invoke"}})
                                                 nchg == NChanged(env.svc, SvcMap(e.svc)) + NChanged(env.chain, ChainMap(e.chains, e.relay))
                                                         + NChanged(env.rl, StMap(e.rlist)) + NChanged(env.nd, StMap(e.nlist)) + NChanged(env.ra, StMap(e.rall)) IN
                                             [service  |-> NextLast(env.lst.service, env.svc, SvcMap(e.svc), ngov, nchg),
                                              appchain |-> NextLast(env.lst.appchain, env.chain, ChainMap(e.chains, e.relay), ngov, nchg),
                                              role     |-> NextLast(env.lst.role, env.rl, StMap(e.rlist), ngov, nchg),
                                              node     |-> NextLast(env.lst.node, env.nd, StMap(e.nlist), ngov, nchg)]]
               /\ viol' = viol \cup {<<nm, l + 1, x[1], x[2]>> : x \in b.v \cup tv2 \cup GrantAware(e, env)}
               /\ drift' = drift \cup {<<nm, l + 1, x>> : x \in b.d}
       [] e.ev \in {"ExecError", "Crashed"} ->
            /\ viol' = viol \cup {<<nm, l + 1, "C08_Alive", IF e.ev = "Crashed" THEN "crashed" ELSE e.cls>>}
            /\ pending' = FALSE /\ UNCHANGED <<g, env, drift, chainOfId>>
       [] OTHER -> UNCHANGED <<g, env, pending, viol, drift, chainOfId>>

Next == /\ l < Len(Tr)
        /\ l' = l + 1
        /\ Step(Tr[l + 1])
        /\ TLCSet(1, l + 1)
        /\ TLCSet(2, viol') /\ TLCSet(3, drift')
Spec == (Init /\ chainOfId = <<>>) /\ [][Next]_allvars

Accepted ==
  /\ PrintT(<<"VERIF_RESULT", "lines", Len(Tr), "consumed", TLCGet(1)>>)
  /\ PrintT(<<"VERIF_VIOL", ToJson(IF TLCGet(1) = 0 THEN {} ELSE TLCGet(2))>>)
  /\ PrintT(<<"VERIF_DRIFT", ToJson(IF TLCGet(1) = 0 THEN {} ELSE TLCGet(3))>>)
  /\ TLCGet(1) = Len(Tr)
=============================================================================
