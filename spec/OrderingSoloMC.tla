--------------------------- MODULE OrderingSoloMC ---------------------------
(* Solo ordering: one node, no log; batches go straight to the executor; crash loses everything not executed. *)
EXTENDS Ordering, TLC
CONSTANTS Txs, MaxProp, MaxCrash
VARIABLES s, nextId, cnt, g
vars == <<s, nextId, cnt, g>>
N == 1
Init == s = SoloInit /\ nextId = 1 /\ cnt = [prop |-> 0, crash |-> 0] /\ g = GInit({N}, FALSE)
\* a transaction may arrive again after a restart (clients resubmit what was not executed); the pool refuses
\* what it holds and what the ledger already contains
Executed == UNION {s.led[i].txs : i \in 1..Len(s.led)}
Submit == \E t \in Txs : s.up /\ t \notin s.pool /\ t \notin Executed /\ s' = [s EXCEPT !.pool = @ \cup {t}] /\ UNCHANGED <<nextId, cnt, g>>
DoPropose == /\ s.up /\ cnt.prop < MaxProp
             /\ \E B \in (SUBSET (s.pool \ s.batched)) \ {{}} :
                  LET r == SoloPropose(s, B, nextId) IN
                  /\ s' = r.s
                  /\ g' = IF r.m THEN GDeliver(g, N, s.inc, [h |-> s.seqNo + 1, id |-> nextId, txs |-> B]) ELSE g
             /\ nextId' = nextId + 1 /\ cnt' = [cnt EXCEPT !.prop = @ + 1]
DoExecute == s.up /\ s.q # <<>> /\ s' = Execute(s) /\ UNCHANGED <<nextId, cnt, g>>
DoReport == \E h \in s.unrep : s.up /\ s' = SoloReport(s, h) /\ UNCHANGED <<nextId, cnt, g>>
DoCrash == s.up /\ cnt.crash < MaxCrash /\ s' = Crash(s) /\ cnt' = [cnt EXCEPT !.crash = @ + 1] /\ UNCHANGED <<nextId, g>>
DoRestart == ~s.up /\ s' = SoloRestart(s) /\ g' = GRestart(g, N, Len(s.led)) /\ UNCHANGED <<nextId, cnt>>
Next == Submit \/ DoPropose \/ DoExecute \/ DoReport \/ DoCrash \/ DoRestart
Spec == Init /\ [][Next]_vars
Inv_C20_Contiguous  == C20_Contiguous(g)
Inv_C20_AtMostOnce  == C20_AtMostOnce(g)
Inv_C20_SameContent == C20_SameContent(g)
Inv_C20_NoSkip      == C20_NoSkip(g)
Inv_C20_TxOnce      == C20_TxOnce(g)
Inv_NeverDead       == ~s.just        \* the height check of the proposal goroutine never fails
=============================================================================
