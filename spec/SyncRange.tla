----------------------------- MODULE SyncRange -----------------------------
(***************************************************************************)
(* Block synchronisation ranges (pkg/order/syncer/state_syncer.go).        *)
(* CalcRange is a transcription of calcRangeHeight ("one pure function     *)
(* with case analysis"); SyncRun is what SyncCFTBlocks makes of it when    *)
(* every fetch is answered completely.                                     *)
(* Property C20 (last sentence): the block synchronisation requests cover  *)
(* every missing height exactly once, in ascending order.                  *)
(***************************************************************************)
EXTENDS Naturals, Sequences

DefaultFetch == 5
EffFetch(f) == IF f = 0 THEN DefaultFetch ELSE f     \* syncer.New replaces 0 by the default

SRMin(a, b) == IF a < b THEN a ELSE b

\* the loop of calcRangeHeight: b = begin, s = startNo
RECURSIVE RangeLoop(_, _, _, _, _)
RangeLoop(b, s, end, fetch, acc) ==
  IF b > end THEN acc
  ELSE LET re == SRMin((s + 1) * fetch, end) IN
       RangeLoop(re + 1, s + 1, end, fetch, Append(acc, [b |-> b, e |-> re]))

CalcRange(begin, end, f) ==
  IF begin > end THEN [err |-> TRUE, rs |-> <<>>]
  ELSE [err |-> FALSE, rs |-> RangeLoop(begin, begin \div EffFetch(f), end, EffFetch(f), <<>>)]

\* ---- the listed property, over (input, observed request ranges) only
C20_SyncCoversOnce(begin, end, rs) ==
  IF begin > end THEN rs = <<>>            \* nothing is missing: nothing may be requested
  ELSE /\ Len(rs) >= 1
       /\ rs[1].b = begin /\ rs[Len(rs)].e = end
       /\ \A i \in 1..Len(rs) : rs[i].b <= rs[i].e
       /\ \A i \in 1..(Len(rs) - 1) : rs[i + 1].b = rs[i].e + 1

\* blocks handed on by a synchronisation run whose fetches were all answered: begin..end ascending, once
C20_SyncDeliversOnce(begin, end, hs) ==
  IF begin > end THEN hs = <<>>
  ELSE /\ Len(hs) = end - begin + 1
       /\ \A i \in 1..Len(hs) : hs[i] = begin + i - 1

\* implementation-shaped (drift only): a request never spans more than fetch + 1 heights
Obs_RangeSize(f, rs) == \A i \in 1..Len(rs) : rs[i].e - rs[i].b <= EffFetch(f)
=============================================================================
