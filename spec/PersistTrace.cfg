SPECIFICATION Spec
CONSTANTS
  Window = 10
  TruncateAheadFix = TRUE
POSTCONDITION Accepted
CHECK_DEADLOCK FALSE
