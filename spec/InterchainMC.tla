---------------------------- MODULE InterchainMC ----------------------------
(* Exhaustive exploration of the interchain protocol machine: every sequence (bounded) of blocks that   *)
(* each hold one request, one receipt or nothing, over one ordered service pair and one two-child       *)
(* group, with every timeout and receipt type.  A transaction is applied iff the acceptance rule holds. *)
EXTENDS Interchain
CONSTANTS MaxIdx, Timeouts, MaxH,
          UnorderedDst   \* destinations registered as unordered: requests to them are not index-checked and register no timeout

VARIABLES g, h, accAt
vars == <<g, h, accAt>>

S1 == "1:a:s"  D1 == "1:b:s"  D2 == "1:c:s"
Env == [svc |-> [x \in {S1, D1, D2} |-> "available"], h |-> h + 1, bxh |-> "1", unordered |-> UnorderedDst, black |-> {}, relay |-> <<>>, rule |-> [c \in {"a", "b", "c"} |-> [bound |-> "happy", unbinding |-> "", cert |-> ""]]]
Id(s, d, i) == <<s, d, i>>
Tx(typ, d, i, T, gid) == [k |-> "ibtp", typ |-> typ, src |-> S1, dst |-> d, idx |-> i, T |-> T, proofok |-> TRUE, id |-> Id(S1, d, i),
                          srcLocal |-> TRUE, dstLocal |-> TRUE, srcChain |-> "a", dstChain |-> IF d = D1 THEN "b" ELSE "c",
                          gid |-> gid, gcount |-> IF gid = "" THEN 0 ELSE 2,
                          srcBxh |-> "1", dstBxh |-> "1", hashok |-> TRUE, ms |-> FALSE, sigs |-> <<>>, notice |-> "", art |-> [kind |-> "none"]]
Reqs  == {Tx("REQ", D1, i, T, "") : i \in 1..MaxIdx, T \in Timeouts}
GReqs == {Tx("REQ", d, 1, T, "G1") : d \in {D1, D2}, T \in Timeouts}
BReqs == {Tx("REQ", D2, i, T, "") : i \in 1..MaxIdx, T \in Timeouts}      \* one-to-one requests to D2 (repeats get through if D2 is unordered)
Rcpts == {Tx(ty, d, i, 0, "") : ty \in {"OK", "FAIL", "RB"}, d \in {D1, D2}, i \in 1..MaxIdx}

Init == g = GInit /\ h = 1 /\ accAt = <<>>

Apply(t, bf) ==
  IF t.typ = "REQ"
  THEN IF ShouldAcceptReq(g, Env, t) /\ (t.gid = "" \/ (t.gid \in DOMAIN g.grp => g.grp[t.gid].exp = Expiry(h + 1, t.T) \/ TRUE))
       THEN IF t.gid = "" THEN AcceptReq(g, Env, t, bf) ELSE AcceptGroupReq(g, Env, t, bf) ELSE g
  ELSE IF ShouldAcceptRcpt(g, Env, t)
       THEN IF t.id \in DOMAIN g.st THEN AcceptRcpt(g, t) ELSE AcceptGroupRcpt(g, t) ELSE g

Block(t, bf) ==
  /\ h < MaxH
  /\ LET g1 == Apply(t, bf) IN
     /\ g' = EndBlock(g1, h + 1)
     /\ accAt' = IF t.typ = "REQ" /\ g1 # g /\ t.gid = "" THEN Put(accAt, t.id, [h |-> h + 1, T |-> t.T]) ELSE accAt
  /\ h' = h + 1
Empty == h < MaxH /\ g' = EndBlock(g, h + 1) /\ h' = h + 1 /\ UNCHANGED accAt

Next == \/ \E t \in Reqs \cup GReqs \cup BReqs : \E bf \in BOOLEAN : Block(t, bf)
        \/ \E t \in Rcpts : Block(t, FALSE)
        \/ Empty
Spec == Init /\ [][Next]_vars

Allowed(a, b) == \/ a = "BEGIN" /\ b \in {"SUCCESS", "FAILURE", "BEGIN_ROLLBACK"}
                 \/ a = "BEGIN_FAILURE" /\ b = "FAILURE"
                 \/ a = "BEGIN_ROLLBACK" /\ b = "ROLLBACK"
\* C04: statuses only move along the protocol's transitions; final states never change
C04_Step == [][\A id \in DOMAIN g.st : (id \in DOMAIN g'.st /\ g'.st[id] # g.st[id]) => Allowed(g.st[id], g'.st[id])]_vars
C04_FinalStable == [][\A id \in DOMAIN g.st : g.st[id] \in Final => g'.st[id] = g.st[id]]_vars
\* C06: BEGIN -> BEGIN_ROLLBACK happens exactly in block H+T, and a transaction still BEGIN after H+T has no finite timeout
C06_FiresAt == [][\A id \in DOMAIN g.st : (g.st[id] = "BEGIN" /\ g'.st[id] = "BEGIN_ROLLBACK") =>
                     (accAt[id].T > 0 /\ h' = accAt[id].h + accAt[id].T)]_vars
\* (requests to an unordered destination register no timeout in this code base: known finding, not modelled as expiring)
C06_NoLateBegin == \A id \in DOMAIN g.st : (g.st[id] = "BEGIN" /\ accAt[id].T > 0 /\ id[2] \notin UnorderedDst) => h < accAt[id].h + accAt[id].T
Inv_C05_SuccessOnlyIfAll == C05_SuccessOnlyIfAll(g)
Inv_C05_NeverSuccessAfterFailure == C05_NeverSuccessAfterFailure(g)
Inv_C05_AllChildrenFail == C05_AllChildrenFail(g)
\* C02: accepted request indices are consecutive, receipts never overtake requests
Inv_C02_ReceiptAfterRequest == \A p \in DOMAIN g.rcp : g.rcp[p] <= Get(g.acc, p, 0)
=============================================================================
