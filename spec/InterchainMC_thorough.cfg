SPECIFICATION Spec
CONSTANTS
  BeginOnce = TRUE
  UnorderedDst = {"1:c:s"}
  MaxIdx = 2
  Timeouts = {0, 1, 2}
  MaxH = 7
INVARIANTS C06_NoLateBegin Inv_C05_SuccessOnlyIfAll Inv_C05_NeverSuccessAfterFailure Inv_C05_AllChildrenFail Inv_C02_ReceiptAfterRequest
PROPERTIES C04_Step C04_FinalStable C06_FiresAt
CHECK_DEADLOCK FALSE
