------------------------------ MODULE Persist ------------------------------
(***************************************************************************)
(* Commit of one block and recovery after a crash, property C11.           *)
(*                                                                         *)
(* internal/ledger persists a block with three concurrent writers and no   *)
(* common commit record (ledger.go PersistBlockData,                       *)
(* chain_ledger_impl.go PersistExecutionResult, state_accessor.go Commit): *)
(*   state store :  S1  one batch: accounts/code/storage + journal-<h> +   *)
(*                      journal-maxHeight (+ journal-minHeight at h = 1)   *)
(*                  S2  one batch, only when journals fall out of the      *)
(*                      window: delete journal-<i>, journal-minHeight      *)
(*   chain index :  C1  one batch: tx-meta-*, block-tx-set-h,              *)
(*                      block-hash-*, block-height-h, chain-meta           *)
(*   block file  :  T1..T5 one item appended to each of the tables hashes, *)
(*                      bodies, transactions, receipts, interchain, in     *)
(*                      this order (AppendBlock is sequential)             *)
(* S1 < S2 and T1 < ... < T5; nothing else is ordered.  A crash leaves any *)
(* downward-closed subset of these atoms on disk.                          *)
(*                                                                         *)
(* d  : the durable state (what the three stores contain)                  *)
(* RecoverIntended : a recovery satisfying C11 (used for the properties)   *)
(* RecoverAsCoded  : transcription of blockfile.NewBlockFile (repair) +    *)
(*                   ledger.New (Rollback(chain height)); its only use is  *)
(*                   to PREDICT which crash states the code mishandles     *)
(* The C11_x formulas are predicates over the observation after recovery / *)
(* after continuing, the same for the model and for real traces.           *)
(***************************************************************************)
EXTENDS Integers, Sequences, FiniteSets, TLC

CONSTANTS Window,            \* journals kept (10)
          TruncateAheadFix   \* TRUE: proposed fix c11_truncate_blockfile_ahead is in (block file cut back to the chain height at open)

Tables == 1..5
TName == <<"T1", "T2", "T3", "T4", "T5">>
Min2(a, b) == IF a < b THEN a ELSE b
Max2(a, b) == IF a > b THEN a ELSE b
MinTbl(tbl) == Min2(Min2(Min2(tbl[1], tbl[2]), Min2(tbl[3], tbl[4])), tbl[5])

\* the reference chain: block ids (strings; a block produced from a wrong state is "x")
RefId(i) == "b" \o ToString(i)
Bad == "x"

(***************************************************************************)
(* durable state                                                           *)
(*  st.max / st.min : journal range;  st.data : height whose writes the    *)
(*  state store contains;  ix.h : chain-meta height;  ix.keys : heights    *)
(*  with index entries;  tbl[t] : items of block-file table t              *)
(***************************************************************************)
Consistent(h, minj) == [ st  |-> [max |-> h, min |-> minj, data |-> h],
                         ix  |-> [h |-> h, keys |-> 1..h],
                         tbl |-> [t \in Tables |-> h] ]
\* journal range minimum after h blocks committed without faults
MinAfter(h) == IF h = 0 THEN 0 ELSE Max2(1, h - Window)
Pre(H) == Consistent(H - 1, MinAfter(H - 1))

\* the atoms of committing block H on top of Pre(H)
Prunes(H) == H > Window /\ H - Window > MinAfter(H - 1)
Atoms(H) == {"S1", "C1"} \cup {TName[t] : t \in Tables} \cup (IF Prunes(H) THEN {"S2"} ELSE {})
PredOf(w) == CASE w = "S2" -> {"S1"} [] w = "T2" -> {"T1"} [] w = "T3" -> {"T2"} [] w = "T4" -> {"T3"} [] w = "T5" -> {"T4"} [] OTHER -> {}
CanWrite(w, done) == w \notin done /\ PredOf(w) \subseteq done
DownClosed(R) == \A w \in R : PredOf(w) \subseteq R
CrashStates(H) == {R \in SUBSET Atoms(H) : DownClosed(R)}

ApplyAtom(d, H, w) ==
  CASE w = "S1" -> [d EXCEPT !.st = [max |-> H, data |-> H, min |-> IF @.min = 0 THEN H ELSE @.min]]
    [] w = "S2" -> [d EXCEPT !.st.min = H - Window]
    [] w = "C1" -> [d EXCEPT !.ix = [h |-> H, keys |-> @.keys \cup {H}]]
    [] OTHER    -> LET t == CHOOSE x \in Tables : TName[x] = w IN [d EXCEPT !.tbl[t] = H]
\* what is on disk when exactly the atoms R of block H became durable
DurableAfter(H, R) ==
  LET p == Pre(H) IN
  [ st  |-> [max |-> IF "S1" \in R THEN H ELSE H - 1, data |-> IF "S1" \in R THEN H ELSE H - 1,
             min |-> IF "S2" \in R THEN H - Window ELSE IF "S1" \in R /\ p.st.min = 0 THEN H ELSE p.st.min],
    ix  |-> IF "C1" \in R THEN [h |-> H, keys |-> 1..H] ELSE p.ix,
    tbl |-> [t \in Tables |-> IF TName[t] \in R THEN H ELSE H - 1] ]

(***************************************************************************)
(* recovery                                                                *)
(***************************************************************************)
\* C11-satisfying recovery: all three stores are brought to the highest height all of them hold
RecoverIntended(d) ==
  LET tgt == Min2(MinTbl(d.tbl), Min2(d.ix.h, d.st.max)) IN
  [ opened |-> TRUE, err |-> "ok",
    d |-> [ st  |-> [max |-> tgt, data |-> tgt, min |-> IF tgt = 0 THEN 0 ELSE d.st.min],
            ix  |-> [h |-> tgt, keys |-> d.ix.keys \cap 1..tgt],
            tbl |-> [t \in Tables |-> tgt] ] ]

\* the code: NewBlockFile.repair (all tables cut to the shortest), loadChainMeta, NewSimpleLedger (journal range),
\* Ledger.Rollback(chain height) = RollbackState (refuses a higher target) ; RollbackBlockChain (no-op at equal height)
RecoverAsCoded(d) ==
  LET B  == MinTbl(d.tbl)
      Hc == d.ix.h
      Hs == d.st.max
      tb == [t \in Tables |-> IF TruncateAheadFix /\ B > Hc THEN Hc ELSE B] IN
  IF Hs < Hc THEN [opened |-> FALSE, err |-> "higher", d |-> [d EXCEPT !.tbl = tb]]
  ELSE IF d.st.min > Hc /\ ~(d.st.min = 1 /\ Hc = 0) THEN [opened |-> FALSE, err |-> "toomuch", d |-> [d EXCEPT !.tbl = tb]]
  ELSE [ opened |-> TRUE, err |-> "ok",
         d |-> [ st  |-> IF Hs = Hc THEN d.st ELSE [max |-> Hc, data |-> Hc, min |-> IF Hc = 0 THEN 0 ELSE d.st.min],
                 ix  |-> d.ix, tbl |-> tb ] ]

\* what can be observed of a recovered ledger (the harness logs exactly these)
Observe(r) ==
  LET d == r.d  h == d.ix.h IN
  [ opened |-> r.opened, height |-> h, version |-> d.st.max,
    headReadable |-> h = 0 \/ (MinTbl(d.tbl) >= h /\ h \in d.ix.keys),
    rootEq  |-> d.st.max = h /\ d.st.data = h,      \* head block's state root = root of the state store
    dumpEq  |-> d.st.data = h,                      \* state content = reference state at that height
    aboveClean |-> d.ix.keys \subseteq 1..h,        \* the index store knows nothing above the height
    hashes |-> [i \in 1..h |-> IF MinTbl(d.tbl) >= i /\ i \in d.ix.keys THEN RefId(i) ELSE ""] ]

\* executing the remaining reference blocks on a recovered ledger, as the code does it:
\* AppendBlock refuses (the persisting goroutine panics) unless the block file holds exactly `height` blocks
ContinueOn(d, N) ==
  IF MinTbl(d.tbl) # d.ix.h THEN [ok |-> FALSE, hashes |-> <<>>]
  ELSE [ok |-> TRUE, hashes |-> [i \in 1..(N - d.ix.h) |-> IF d.st.data = d.ix.h /\ d.st.max = d.ix.h THEN RefId(d.ix.h + i) ELSE Bad]]

(***************************************************************************)
(* The listed property, clause by clause.  o: observation after recovery,  *)
(* c: outcome of continuing, ref: hashes of the reference chain 1..N,      *)
(* H: the height that was being committed.                                 *)
(***************************************************************************)
C11_Opens(o) == o.opened
C11_HeightPrevOrNew(H, o) == o.height \in {H - 1, H}
C11_StoresConsistent(o) == o.headReadable /\ o.version = o.height /\ o.rootEq /\ o.dumpEq /\ o.aboveClean
C11_NoLoss(o, ref) == Len(o.hashes) = o.height /\ \A i \in 1..o.height : i <= Len(ref) /\ o.hashes[i] = ref[i]
C11_SameChainAfterContinue(o, c, ref) ==
  c.ok /\ Len(c.hashes) = Len(ref) - o.height /\ \A i \in 1..Len(c.hashes) : c.hashes[i] = ref[o.height + i]

\* names of the clauses violated by (o, c); c is only judged when the ledger opened
Violated(H, o, c, ref) ==
  IF ~C11_Opens(o) THEN {"C11_Opens"}
  ELSE (IF C11_HeightPrevOrNew(H, o) THEN {} ELSE {"C11_HeightPrevOrNew"})
       \cup (IF C11_StoresConsistent(o) THEN {} ELSE {"C11_StoresConsistent"})
       \cup (IF C11_NoLoss(o, ref) THEN {} ELSE {"C11_NoLoss"})
       \cup (IF C11_SameChainAfterContinue(o, c, ref) THEN {} ELSE {"C11_SameChainAfterContinue"})
=============================================================================
