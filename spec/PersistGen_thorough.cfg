SPECIFICATION Spec
CONSTANTS
  Window = 10
  TruncateAheadFix = TRUE
  Heights = {1, 2, 3, 5, 10, 11, 12, 13, 14, 21, 22, 30}
  Extra = 3
  Coded = FALSE
INVARIANTS EmitCrash
CHECK_DEADLOCK FALSE
