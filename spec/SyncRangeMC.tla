---------------------------- MODULE SyncRangeMC ----------------------------
(* Exhaustive check of the transcription of calcRangeHeight for all (begin, end, fetch) in the bound. *)
EXTENDS SyncRange
CONSTANTS MaxV, MaxF
VARIABLES b, e, f
Init == b \in 0..MaxV /\ e \in 0..MaxV /\ f \in 0..MaxF
Next == UNCHANGED <<b, e, f>>
Spec == Init /\ [][Next]_<<b, e, f>>
Inv_C20_SyncCoversOnce == C20_SyncCoversOnce(b, e, CalcRange(b, e, f).rs)
Inv_ErrIffEmpty        == CalcRange(b, e, f).err <=> (b > e)
Inv_RangeSize          == Obs_RangeSize(f, CalcRange(b, e, f).rs)
=============================================================================
