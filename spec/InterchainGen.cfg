SPECIFICATION GenSpec
CONSTANTS
  BeginOnce = TRUE
  UnorderedDst = {"1:c:s"}
  MaxIdx = 3
  Timeouts = {0, 1, 2, 3}
  MaxH = 14
INVARIANT EmitPlan
CHECK_DEADLOCK FALSE
