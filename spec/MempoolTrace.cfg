SPECIFICATION Spec
CONSTANTS
  PendingFix = TRUE
  RemoveIdxFix = TRUE
POSTCONDITION Accepted
CHECK_DEADLOCK FALSE
