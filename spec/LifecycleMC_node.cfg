SPECIFICATION Spec
CONSTANTS
  Kind = "node"
  MaxOpen = 3
PROPERTIES EdgeOK ReturnOK Absorbing
CHECK_DEADLOCK FALSE
