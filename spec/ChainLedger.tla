---------------------------- MODULE ChainLedger ----------------------------
(***************************************************************************)
(* The chain side of internal/ledger (chain_ledger_impl.go, ledger.go) and *)
(* the header filling of internal/executor/handle.go, property C09, plus   *)
(* the "refused rollback modifies nothing" clause of C12 for the combined  *)
(* ledger.Ledger.Rollback (state + chain).                                 *)
(*                                                                         *)
(* Style: pure step functions over the implementation-shaped record s      *)
(* (block file, the four index key families, cached and persisted chain    *)
(* meta, the journal range of the state ledger), a property-level ghost g  *)
(* (the executed chain, everything ever stored) that is updated from       *)
(* logged inputs / outcomes only, and the listed properties C09_x / C12_x  *)
(* as predicates over (g, audit) where an audit is the answer of EVERY     *)
(* public lookup for every height / block hash / tx hash ever stored.      *)
(* The same predicates are checked by TLC on the model (ChainLedgerMC,      *)
(* audit computed from s) and on traces of the real ledger                 *)
(* (ChainLedgerTrace, audit logged by harness/cmd/chainadp).               *)
(***************************************************************************)
EXTENDS Integers, Sequences, FiniteSets, TLC

CONSTANTS Window,        \* journals kept by the state ledger (10 in the code)
          HeightKeyFix   \* TRUE: rollback also deletes block-height-<h> (proposed fix c09_blockheight_key)

None == ""               \* projection of "no hash" (nil or the zero hash)
Range(f) == {f[i] : i \in DOMAIN f}
Max2(a, b) == IF a > b THEN a ELSE b

(***************************************************************************)
(* A block as given to PersistBlockData:                                   *)
(*  [num, hash, parent, txs, rcs, cnt, txRoot, rcRoot]                     *)
(* txs: sequence of tx hashes, rcs: sequence of receipt digests, cnt: the  *)
(* number of verified interchain indexes of the block's interchain meta.   *)
(***************************************************************************)

\* ---- handle.go processExecuteEvent, lines "block.BlockHeader.TxRoot = ..." to "block.BlockHash = block.Hash()":
\* the header is completed (roots, parent = hash of the executor's current block) and hashed LAST.
\* Hashing is abstract: injective terms.
\* (strings, so that every hash - real or abstract - is comparable with None)
MerkleOf(seq) == IF Len(seq) = 0 THEN None ELSE ToString(<<"M", seq>>)
HeaderHash(num, parent, txRoot, rcRoot, stRoot) == ToString(<<"H", num, parent, txRoot, rcRoot, stRoot>>)
MkBlock(curHash, num, txs, rcs, cnt, stRoot) ==
  LET tr == MerkleOf(txs)  rr == MerkleOf(rcs) IN
  [num |-> num, parent |-> curHash, txs |-> txs, rcs |-> rcs, cnt |-> cnt, txRoot |-> tr, rcRoot |-> rr,
   hash |-> HeaderHash(num, curHash, tr, rr, stRoot)]

(***************************************************************************)
(* Implementation-shaped state                                             *)
(***************************************************************************)
ZeroMeta == [h |-> 0, hash |-> None, cnt |-> 0]
SInit == [ bf       |-> <<>>,          \* block file: the five tables as one sequence (they move together here; see Persist.tla)
           txSet    |-> <<>>,          \* block-tx-set-<h>  : h -> seq of tx hashes   (function with dynamic domain)
           byHash   |-> <<>>,          \* block-hash-<hash> : hash -> h
           byHeight |-> <<>>,          \* block-height-<h>  : h -> hash
           txMeta   |-> <<>>,          \* tx-meta-<txhash>  : tx -> [h, i, bh]
           metaD    |-> ZeroMeta,      \* chain-meta key
           metaC    |-> ZeroMeta,      \* cached chain meta
           st       |-> [min |-> 0, max |-> 0, minD |-> 0] ]   \* journal range of the state ledger (memory, disk)

Put(f, k, v) == [x \in (DOMAIN f) \cup {k} |-> IF x = k THEN v ELSE f[x]]
Del(f, ks)   == [x \in (DOMAIN f) \ ks |-> f[x]]

\* SimpleLedger.Commit: journal range
StCommit(st, h) ==
  LET m1 == IF st.min = 0 THEN h ELSE st.min
      d1 == IF st.min = 0 THEN h ELSE st.minD
      pr == h > Window /\ h - Window > m1 IN
  [min |-> IF pr THEN h - Window ELSE m1, minD |-> IF pr THEN h - Window ELSE d1, max |-> h]

\* PersistExecutionResult (+ StateLedger.Commit), precondition B.num = cached height + 1
SPersist(s, B) ==
  LET h == B.num
      \* prepareTransactions: one Put per position, a later position of the same hash overwrites
      tm[i \in 0..Len(B.txs)] == IF i = 0 THEN s.txMeta ELSE Put(tm[i - 1], B.txs[i], [h |-> h, i |-> i - 1, bh |-> B.hash])
      m == [h |-> h, hash |-> B.hash, cnt |-> B.cnt + s.metaC.cnt] IN
  [s EXCEPT !.bf = Append(@, B), !.txSet = Put(@, h, B.txs), !.byHash = Put(@, B.hash, h), !.byHeight = Put(@, h, B.hash),
            !.txMeta = tm[Len(B.txs)], !.metaD = m, !.metaC = m, !.st = StCommit(@, h)]

\* RollbackBlockChain(t), t < cached height: removeChainDataOnBlock for every height above t, one batch
SChainRollback(s, t) ==
  LET top == s.metaC.h
      gone == (t + 1)..top
      cntGone[i \in t..top] == IF i = t THEN 0 ELSE cntGone[i - 1] + s.bf[i].cnt
      m == IF t = 0 THEN ZeroMeta ELSE [h |-> t, hash |-> s.bf[t].hash, cnt |-> s.metaC.cnt - cntGone[top]] IN
  [s EXCEPT !.bf = SubSeq(@, 1, t),
            !.txSet = Del(@, gone),
            !.byHash = Del(@, {s.bf[i].hash : i \in gone}),
            !.byHeight = IF HeightKeyFix THEN Del(@, gone) ELSE @,
            !.txMeta = Del(@, UNION {Range(s.bf[i].txs) : i \in gone}),
            !.metaD = m, !.metaC = m]

\* RollbackState: the gate and the journal range
StRollbackErr(st, t) == IF st.max < t THEN "higher"
                        ELSE IF st.min > t /\ ~(st.min = 1 /\ t = 0) THEN "toomuch" ELSE "ok"
StRollback(st, t) == IF st.max = t THEN st ELSE [st EXCEPT !.max = t, !.min = IF t = 0 THEN 0 ELSE @]

\* Ledger.Rollback: the state ledger decides first; the chain is only touched when the state ledger accepted
SLedgerRollback(s, t) ==
  LET e == StRollbackErr(s.st, t) IN
  IF e # "ok" THEN [s |-> s, err |-> e]
  ELSE LET s1 == [s EXCEPT !.st = StRollback(@, t)] IN
       IF s1.metaC.h < t THEN [s |-> s1, err |-> "higher"]
       ELSE IF s1.metaC.h = t THEN [s |-> s1, err |-> "ok"]
       ELSE [s |-> SChainRollback(s1, t), err |-> "ok"]

\* close + ledger.New: the cache is reloaded from the chain-meta key, the journal range from its keys
SReopen(s) == [s EXCEPT !.metaC = s.metaD, !.st = [min |-> s.st.minD, minD |-> s.st.minD, max |-> s.st.max]]

(***************************************************************************)
(* The audit: every public lookup, answered from s                         *)
(***************************************************************************)
NoFull == [found |-> FALSE, hash |-> None, num |-> 0, parent |-> None, txs |-> <<>>, rcs |-> <<>>,
           hdrHash |-> None, txRoot |-> None, reTxRoot |-> None, rcRoot |-> None, reRcRoot |-> None]
SAuditHeight(s, h) ==
  LET inBf == h \in 1..Len(s.bf)   B == s.bf[h] IN
  [ full  |-> IF inBf THEN [found |-> TRUE, hash |-> B.hash, num |-> B.num, parent |-> B.parent, txs |-> B.txs, rcs |-> B.rcs,
                            hdrHash |-> B.hash, txRoot |-> B.txRoot, reTxRoot |-> B.txRoot, rcRoot |-> B.rcRoot, reRcRoot |-> B.rcRoot]
              ELSE NoFull,
    light |-> IF inBf /\ h \in DOMAIN s.txSet THEN [found |-> TRUE, txs |-> s.txSet[h]] ELSE [found |-> FALSE, txs |-> <<>>],
    bhash |-> IF h \in DOMAIN s.byHeight THEN s.byHeight[h] ELSE None,
    txCount |-> IF h \in DOMAIN s.txSet THEN Len(s.txSet[h]) ELSE -1,
    im    |-> IF inBf THEN [found |-> TRUE, cnt |-> B.cnt] ELSE [found |-> FALSE, cnt |-> 0] ]
SAuditHash(s, x) ==
  IF x \in DOMAIN s.byHash /\ s.byHash[x] \in 1..Len(s.bf) THEN [found |-> TRUE, num |-> s.bf[s.byHash[x]].num]
  ELSE [found |-> FALSE, num |-> 0]
SAuditTx(s, tx) ==
  IF tx \in DOMAIN s.txMeta /\ s.txMeta[tx].h \in 1..Len(s.bf) /\ s.txMeta[tx].i + 1 \in 1..Len(s.bf[s.txMeta[tx].h].txs)
  THEN LET m == s.txMeta[tx]  B == s.bf[m.h] IN
       [tfound |-> TRUE, thash |-> B.txs[m.i + 1], mfound |-> TRUE, mh |-> m.h, mi |-> m.i, mbh |-> m.bh,
        rfound |-> TRUE, rd |-> B.rcs[m.i + 1]]
  ELSE [tfound |-> FALSE, thash |-> None, mfound |-> FALSE, mh |-> 0, mi |-> 0, mbh |-> None, rfound |-> FALSE, rd |-> None]
SAudit(s, g) ==
  [ byHeight |-> [h \in 1..g.maxH |-> SAuditHeight(s, h)],
    byHash   |-> [x \in g.everB |-> SAuditHash(s, x)],
    byTx     |-> [x \in g.everT |-> SAuditTx(s, x)],
    metaC |-> s.metaC, metaD |-> s.metaD ]

(***************************************************************************)
(* Property-level ghost: what was executed / stored, from inputs only      *)
(***************************************************************************)
GInit == [chain |-> <<>>, maxH |-> 0, everB |-> {}, everT |-> {}, ambig |-> {}]
LiveT(g) == UNION {Range(g.chain[i].txs) : i \in 1..Len(g.chain)}
LiveB(g) == {g.chain[i].hash : i \in 1..Len(g.chain)}
GPersist(g, B) ==
  [ chain |-> Append(g.chain, B), maxH |-> Max2(g.maxH, Len(g.chain) + 1),
    everB |-> g.everB \cup {B.hash}, everT |-> g.everT \cup Range(B.txs),
    \* a tx hash stored at two heights at once: its single index entry cannot describe both (outside the domain, see README)
    ambig |-> g.ambig \cup (Range(B.txs) \cap LiveT(g)) ]
GRollback(g, t) == IF t < Len(g.chain) THEN [g EXCEPT !.chain = SubSeq(@, 1, t)] ELSE g
SumCnt(ch) == LET f[i \in 0..Len(ch)] == IF i = 0 THEN 0 ELSE f[i - 1] + ch[i].cnt IN f[Len(ch)]

\* does the audit ask everything the ghost knows about (otherwise the formulas below are not evaluated: harness problem)
Covers(g, A) == /\ DOMAIN A.byHeight = 1..g.maxH /\ g.everB \subseteq DOMAIN A.byHash /\ g.everT \subseteq DOMAIN A.byTx

(***************************************************************************)
(* The listed properties. Each X_Bad(g, A) is the set of counterexample    *)
(* details (uniform records); the property is X_Bad = {}.                  *)
(***************************************************************************)
BadH(h, w)  == [kind |-> "height", h |-> h, id |-> "", what |-> w]
BadI(k, x, w) == [kind |-> k, h |-> 0, id |-> x, what |-> w]

\* hash = H(header) and parent = hash of block h-1, on what is STORED
C09_HashLinked_Bad(g, A) ==
  LET n == Len(g.chain)  F(h) == A.byHeight[h].full IN
  {BadH(h, "block not readable") : h \in {x \in 1..n : ~F(x).found}}
  \cup {BadH(h, "hash # H(header)") : h \in {x \in 1..n : F(x).found /\ F(x).hdrHash # F(x).hash}}
  \cup {BadH(h, "parent # hash of h-1") : h \in {x \in 2..n : F(x).found /\ F(x - 1).found /\ F(x).parent # F(x - 1).hash}}
\* tx root / receipt root = Merkle roots recomputed from the stored txs / receipts
C09_RootsMatch_Bad(g, A) ==
  LET n == Len(g.chain)  F(h) == A.byHeight[h].full IN
  {BadH(h, "txRoot") : h \in {x \in 1..n : F(x).found /\ F(x).txRoot # F(x).reTxRoot}}
  \cup {BadH(h, "receiptRoot") : h \in {x \in 1..n : F(x).found /\ F(x).rcRoot # F(x).reRcRoot}}
\* every lookup agrees with what was executed
TxPosOK(g, tx, q) == /\ q.mh \in 1..Len(g.chain) /\ q.mi + 1 \in 1..Len(g.chain[q.mh].txs)
                     /\ g.chain[q.mh].txs[q.mi + 1] = tx /\ q.mbh = g.chain[q.mh].hash
                     /\ q.rd = g.chain[q.mh].rcs[q.mi + 1] /\ q.thash = tx
C09_IndexAgree_Bad(g, A) ==
  LET bad(h) == LET B == g.chain[h]  r == A.byHeight[h] IN
        (IF r.full.found /\ r.full.hash = B.hash /\ r.full.num = h /\ r.full.parent = B.parent THEN {} ELSE {"GetBlock.header"})
        \cup (IF r.full.found /\ r.full.txs = B.txs THEN {} ELSE {"GetBlock.txs"})
        \cup (IF r.full.found /\ r.full.rcs = B.rcs THEN {} ELSE {"receipts"})
        \cup (IF r.light.found /\ r.light.txs = B.txs THEN {} ELSE {"GetBlock.txhashes"})
        \cup (IF r.bhash = B.hash THEN {} ELSE {"GetBlockHash"})
        \cup (IF r.txCount = Len(B.txs) THEN {} ELSE {"GetTransactionCount"})
        \cup (IF r.im.found /\ r.im.cnt = B.cnt THEN {} ELSE {"GetInterchainMeta"})
        \cup (IF A.byHash[B.hash].found /\ A.byHash[B.hash].num = h THEN {} ELSE {"GetBlockByHash"})
      badT(tx) == LET q == A.byTx[tx]  all == q.tfound /\ q.mfound /\ q.rfound IN
        IF tx \in g.ambig THEN (IF (q.tfound \/ q.mfound \/ q.rfound) /\ ~(all /\ TxPosOK(g, tx, q)) THEN {"tx(ambiguous)"} ELSE {})
        ELSE (IF q.tfound THEN {} ELSE {"GetTransaction"}) \cup (IF q.mfound THEN {} ELSE {"GetTransactionMeta"})
             \cup (IF q.rfound THEN {} ELSE {"GetReceipt"}) \cup (IF all /\ ~TxPosOK(g, tx, q) THEN {"tx position/receipt"} ELSE {})
  IN UNION {{BadH(h, w) : w \in bad(h)} : h \in 1..Len(g.chain)}
     \cup UNION {{BadI("tx", tx, w) : w \in badT(tx)} : tx \in LiveT(g)}
\* chain meta, cached and reloaded from disk: height, head hash, cumulative interchain count
C09_MetaAgree_Bad(g, A) ==
  LET n == Len(g.chain)
      want == [h |-> n, hash |-> IF n = 0 THEN None ELSE g.chain[n].hash, cnt |-> SumCnt(g.chain)]
      bad(m) == (IF m.h = want.h THEN {} ELSE {"height"}) \cup (IF m.hash = want.hash THEN {} ELSE {"headHash"})
                \cup (IF m.cnt = want.cnt THEN {} ELSE {"interchainCount"}) IN
  {BadI("meta", "cached", w) : w \in bad(A.metaC)} \cup {BadI("meta", "persisted", w) : w \in bad(A.metaD)}
\* no lookup answers for any height / block hash / tx hash that is not part of the chain any more
C09_NothingAbove_Bad(g, A) ==
  LET bad(h) == LET r == A.byHeight[h] IN
        (IF r.full.found THEN {"GetBlock"} ELSE {}) \cup (IF r.light.found THEN {"GetBlock.txhashes"} ELSE {})
        \cup (IF r.bhash # None THEN {"GetBlockHash"} ELSE {}) \cup (IF r.txCount # -1 THEN {"GetTransactionCount"} ELSE {})
        \cup (IF r.im.found THEN {"GetInterchainMeta"} ELSE {})
      badT(tx) == LET q == A.byTx[tx] IN (IF q.tfound THEN {"GetTransaction"} ELSE {}) \cup (IF q.mfound THEN {"GetTransactionMeta"} ELSE {})
                                         \cup (IF q.rfound THEN {"GetReceipt"} ELSE {}) IN
  UNION {{BadH(h, w) : w \in bad(h)} : h \in (Len(g.chain) + 1)..g.maxH}
  \cup {BadI("hash", x, "GetBlockByHash") : x \in {y \in g.everB \ LiveB(g) : A.byHash[y].found}}
  \cup UNION {{BadI("tx", tx, w) : w \in badT(tx)} : tx \in g.everT \ LiveT(g)}

C09_HashLinked(g, A) == C09_HashLinked_Bad(g, A) = {}
C09_RootsMatch(g, A) == C09_RootsMatch_Bad(g, A) = {}
C09_IndexAgree(g, A) == C09_IndexAgree_Bad(g, A) = {}
C09_MetaAgree(g, A)  == C09_MetaAgree_Bad(g, A) = {}
C09_NothingAboveAfterRollback(g, A) == C09_NothingAbove_Bad(g, A) = {}

\* C12 (clause): a refused rollback changed no answer of any lookup and no chain meta
C12_RefusedNoChange(before, after) == before = after
=============================================================================
