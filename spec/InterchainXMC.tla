---------------------------- MODULE InterchainXMC ----------------------------
(* Exhaustive exploration of the interchain protocol machine BETWEEN TWO BITXHUBS: this hub "1" with the    *)
(* services S1, D1 and another hub "9" (registered as relay chain with validators Vals) with the services   *)
(* R1, X1.  Every block holds one of: a request S1 -> R1 (proven by the local rule), a request X1 -> D1     *)
(* (proven by a multi-signature proof of hub 9, every signer sequence of SigSeqs), a receipt of either      *)
(* direction (S1 -> R1: multi-signature; X1 -> D1: local rule), the other hub's begin-failure / rollback     *)
(* notice for either direction, a change of hub 9's status, or nothing.  A transaction is applied iff the    *)
(* acceptance rule of Interchain.tla holds.  Checked: the multi-signature clause of C03 in its own          *)
(* (rational) formulation over the history of accepted IBTPs, and C04 / C06 with notices.                    *)
EXTENDS Interchain
CONSTANTS MaxIdx, Timeouts, MaxH, Vals, NVals, SigSeqs, HubStatuses

Sg(w, o) == [who |-> w, over |-> o]
Vals4 == {"v0", "v1", "v2", "v3"}
\* n = 4: more than (4-1)/3 = 1, i.e. at least 2 distinct registered signers of this ibtp
SigSeqs4 == { <<>>, <<Sg("v0", "this")>>, <<Sg("v0", "this"), Sg("v0", "this")>>, <<Sg("v0", "this"), Sg("x0", "this")>>,
              <<Sg("v0", "this"), Sg("v1", "idx")>>, <<Sg("v0", "this"), Sg("v1", "this")>>,
              <<Sg("v1", "this"), Sg("junk", "junk"), Sg("v2", "status"), Sg("v3", "this")>> }
Vals7 == {"v0", "v1", "v2", "v3", "v4", "v5", "v6"}
\* n = 7: more than 2, i.e. at least 3
SigSeqs7 == { <<Sg("v0", "this"), Sg("v1", "this")>>, <<Sg("v0", "this"), Sg("v1", "this"), Sg("v1", "this")>>,
              <<Sg("v0", "this"), Sg("v1", "this"), Sg("x1", "this")>>, <<Sg("v0", "this"), Sg("v1", "this"), Sg("v2", "type")>>,
              <<Sg("v0", "this"), Sg("v1", "this"), Sg("v2", "this")>>, <<Sg("v6", "this"), Sg("v6", "this"), Sg("v5", "this"), Sg("x0", "this"), Sg("v4", "this")>> }

VARIABLES g, h, accAt, hub, hist
vars == <<g, h, accAt, hub, hist>>

S1 == "1:a:s"  D1 == "1:b:s"  R1 == "9:x:s"  X1 == "9:y:s"
Env == [svc |-> [x \in {S1, D1} |-> "available"], h |-> h + 1, bxh |-> "1", unordered |-> {}, black |-> {},
        relay |-> [b \in {"9"} |-> [st |-> hub, vals |-> Vals, n |-> NVals]], rule |-> [c \in {S1, D1} |-> [bound |-> "happy", unbinding |-> "", cert |-> ""]]]
Bxh(s) == IF s \in {S1, D1} THEN "1" ELSE "9"
Tx(typ, s, d, i, T, ms, sigs, notice) ==
  [k |-> "ibtp", typ |-> typ, src |-> s, dst |-> d, idx |-> i, T |-> T, proofok |-> TRUE, hashok |-> TRUE, art |-> [kind |-> "none"], id |-> <<s, d, i>>,
   srcLocal |-> Bxh(s) = "1", dstLocal |-> Bxh(d) = "1", srcChain |-> s, dstChain |-> d, gid |-> "", gcount |-> 0,
   srcBxh |-> Bxh(s), dstBxh |-> Bxh(d), ms |-> ms, sigs |-> sigs, notice |-> notice]

OutReqs  == {Tx("REQ", S1, R1, i, T, FALSE, <<>>, n) : i \in 1..MaxIdx, T \in Timeouts, n \in {"", "BF", "RB"}}
InReqs   == {Tx("REQ", X1, D1, i, T, TRUE, q, n) : i \in 1..MaxIdx, T \in Timeouts, q \in SigSeqs, n \in {"", "BF", "RB"}}
OutRcpts == {Tx(ty, S1, R1, i, 0, TRUE, q, "") : ty \in {"OK", "FAIL", "RB"}, i \in 1..MaxIdx, q \in SigSeqs}
InRcpts  == {Tx(ty, X1, D1, i, 0, FALSE, <<>>, "") : ty \in {"OK", "FAIL", "RB"}, i \in 1..MaxIdx}

Init == g = GInit /\ h = 1 /\ accAt = <<>> /\ hub = "available" /\ hist = {}

Apply(t, bf) ==
  IF t.typ = "REQ" /\ IsNotice(g, t)
  THEN IF ShouldAcceptNotice(g, Env, t) THEN AcceptRcpt(g, [t EXCEPT !.typ = NoticeEv(t)]) ELSE g
  ELSE IF t.typ = "REQ"
  THEN IF ShouldAcceptReq(g, Env, t) THEN AcceptReq(g, Env, t, bf) ELSE g
  ELSE IF ShouldAcceptRcpt(g, Env, t) THEN AcceptRcpt(g, t) ELSE g

\* a request is begin-failed iff its destination is not usable (C16)
Block(t) ==
  /\ h < MaxH
  /\ LET bf == ~DestOK(Env, t)
         g1 == Apply(t, bf) IN
     /\ g' = EndBlock(g1, h + 1)
     /\ accAt' = IF t.typ = "REQ" /\ ~IsNotice(g, t) /\ g1 # g THEN Put(accAt, t.id, [h |-> h + 1, T |-> t.T, bf |-> bf]) ELSE accAt
     /\ hist' = IF g1 # g THEN hist \cup {[id |-> t.id, typ |-> t.typ, prover |-> Prover(t), sigs |-> t.sigs, ms |-> t.ms]} ELSE hist
  /\ h' = h + 1 /\ UNCHANGED hub
Empty == h < MaxH /\ g' = EndBlock(g, h + 1) /\ h' = h + 1 /\ UNCHANGED <<accAt, hub, hist>>
HubChange == \E s \in HubStatuses \ {hub} : hub' = s /\ UNCHANGED <<g, h, accAt, hist>>

Next == \/ \E t \in OutReqs \cup InReqs \cup OutRcpts \cup InRcpts : Block(t)
        \/ Empty
        \/ HubChange
Spec == Init /\ [][Next]_vars

(***************************************************************************)
(* C03, multi-signature clause, stated on the history in rational          *)
(* arithmetic: whatever changed state and had to be proven by hub 9 carried*)
(* signatures over this very IBTP by MORE THAN (n-1)/3 distinct registered *)
(* validators: 3 * |signers| > n - 1.                                      *)
(***************************************************************************)
ThisSigners(q) == {q[i].who : i \in {j \in 1..Len(q) : q[j].over = "this"}} \cap Vals
C03_MultiSign == \A e \in hist : e.prover = "9" => (e.ms /\ 3 * Cardinality(ThisSigners(e.sigs)) > NVals - 1)
\* and conversely nothing proven by this hub's own rule needs signatures (sanity of the model: both provers occur)
C03_BothProvers == TRUE

Allowed(a, b) == \/ a = "BEGIN" /\ b \in {"SUCCESS", "FAILURE", "BEGIN_ROLLBACK", "ROLLBACK"}   \* ROLLBACK: the other hub's rollback notice
                 \/ a = "BEGIN_FAILURE" /\ b = "FAILURE"
                 \/ a = "BEGIN_ROLLBACK" /\ b = "ROLLBACK"
C04_Step == [][\A id \in DOMAIN g.st : (id \in DOMAIN g'.st /\ g'.st[id] # g.st[id]) => Allowed(g.st[id], g'.st[id])]_vars
C04_FinalStable == [][\A id \in DOMAIN g.st : g.st[id] \in Final => g'.st[id] = g.st[id]]_vars
C04_StartsAtBegin == [][\A id \in DOMAIN g'.st \ DOMAIN g.st : g'.st[id] = IF accAt'[id].bf THEN "BEGIN_FAILURE" ELSE "BEGIN"]_vars
C06_FiresAt == [][\A id \in DOMAIN g.st : (g.st[id] = "BEGIN" /\ g'.st[id] = "BEGIN_ROLLBACK") =>
                     (accAt[id].T > 0 /\ h' = accAt[id].h + accAt[id].T)]_vars
C06_NoLateBegin == \A id \in DOMAIN g.st : (g.st[id] = "BEGIN" /\ accAt[id].T > 0) => h < accAt[id].h + accAt[id].T
\* C16 between hubs: a request from hub 9 is accepted only while hub 9 is available; one to hub 9 begins failed otherwise
C16_HubGate == [][\A id \in DOMAIN g'.st \ DOMAIN g.st :
                    (id[1] = X1 => hub \in {"available", "freezing"}) /\ (id[1] = S1 => (accAt'[id].bf <=> hub \notin {"available", "freezing"}))]_vars
Inv_C02_ReceiptAfterRequest == \A p \in DOMAIN g.rcp : g.rcp[p] <= Get(g.acc, p, 0)
=============================================================================
