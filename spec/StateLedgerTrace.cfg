SPECIFICATION Spec
CONSTANTS
  Window = 10
  AddStateFix = TRUE
  FoundFix = TRUE
POSTCONDITION Accepted
CHECK_DEADLOCK FALSE
