SPECIFICATION Spec
CONSTANTS
  Window = 10
  AddStateFix = TRUE
POSTCONDITION Accepted
CHECK_DEADLOCK FALSE
