------------------------- MODULE StateLedgerTrace -------------------------
(***************************************************************************)
(* Validation of traces recorded from the real state ledger (harness/cmd/  *)
(* ledgeradp).  Verdict formulas (C13_x, C12_x, C10_x) compare every       *)
(* logged answer with the property-level ghost g; the layered model s is   *)
(* stepped alongside and its predictions compared with the logged answers  *)
(* (drift).  `seen` (symbolic root <-> real hash) spans all traces of the  *)
(* run, because the slots are bound to the same concrete addresses / keys  *)
(* in every trace.                                                         *)
(***************************************************************************)
EXTENDS StateLedger, Json, IOUtils

TraceFile == IF "TRACE" \in DOMAIN IOEnv THEN IOEnv.TRACE ELSE "trace.ndjson"
Tr == ndJsonDeserialize(TraceFile)

VARIABLES l, tname, U, s, g, ctx, seen, viol, drift, ex
tvars == <<l, tname, U, s, g, ctx, seen, viol, drift, ex>>

U0 == [slots |-> {}, acct |-> <<>>, kind |-> <<>>]
MkU(e) == LET ss == ToSet(e.slots) IN
  [ slots |-> {x.sl : x \in ss},
    acct  |-> [sl \in {x.sl : x \in ss} |-> (CHOOSE x \in ss : x.sl = sl).a],
    kind  |-> [sl \in {x.sl : x \in ss} |-> (CHOOSE x \in ss : x.sl = sl).kind] ]

Init == /\ l = 0 /\ tname = "" /\ U = U0 /\ s = SInit(U0) /\ g = GInit(U0) /\ ctx = "start"
        /\ seen = {} /\ viol = {} /\ drift = {} /\ ex = <<>>
        /\ TLCSet(1, 0)

\* read every slot through the layered model (reads of different slots are independent: each only
\* fills the origin layer of its own slot and of its account's fields)
SReadAll(UU, s0) ==
  LET under(sl) == IF s0.cache[sl] # Absent THEN s0.cache[sl] ELSE s0.db[sl] IN
  [ v |-> [sl \in UU.slots |-> SRead(UU, s0, sl).v],
    s |-> [s0 EXCEPT !.origin = [sl \in UU.slots |->
                 IF s0.origin[sl] # Absent THEN s0.origin[sl]
                 ELSE IF UU.kind[sl] # "st" THEN under(sl)
                 ELSE IF s0.dirty[sl] # Absent THEN Absent ELSE under(sl)]] ]

Step(e) ==
  LET nm == IF e.ev = "Init" THEN e.name ELSE tname
      UU == IF e.ev = "Init" THEN MkU(e) ELSE U
      r == \* [g, s, v: set of violated formula names, d: set of drift tags, ctx, seen]
        CASE e.ev = "Init" -> [g |-> GInit(UU), s |-> SInit(UU), v |-> {}, d |-> {}, ctx |-> "start", seen |-> seen]
          [] e.ev = "W" -> [g |-> GWrite(g, e.sl, e.v, e.j), s |-> SWrite(U, s, e.sl, e.v, e.j), v |-> {}, d |-> {}, ctx |-> ctx, seen |-> seen]
          [] e.ev = "R" -> LET x == SRead(U, s, e.sl) IN
                 [g |-> GAdopt(g, e.sl, e.v),
                  s |-> IF e.sl \in g.free /\ x.v # e.v THEN [x.s EXCEPT !.dirty[e.sl] = e.v] ELSE x.s,
                  v |-> IF C13_ReadLatest(g, e.sl, e.v) THEN {} ELSE {<<"C13_ReadLatest", e.sl>>},
                  d |-> IF e.sl \in g.free \/ x.v = e.v THEN {} ELSE {"R"}, ctx |-> ctx, seen |-> seen]
          [] e.ev = "Q" -> [g |-> g, s |-> s,
                  v |-> IF g.flushed \/ C13_QueryExact(g, ToSet(e.sls), e.vals) THEN {} ELSE {<<"C13_QueryExact", e.a>>},
                  d |-> IF g.flushed \/ (ToSet(e.sls) \cap g.free # {}) \/ BagOfFn(SQuery(U, s, ToSet(e.sls))) = BagOfSeq(e.vals) THEN {} ELSE {"Q"},
                  ctx |-> ctx, seen |-> seen]
          [] e.ev = "Snap" -> LET x == SSnapshot(s) IN
                 [g |-> GSnapshot(g, e.id), s |-> x.s, v |-> {}, d |-> IF x.v = e.id THEN {} ELSE {"Snap"}, ctx |-> ctx, seen |-> seen]
          [] e.ev = "Revert" ->
                 [g |-> IF GHasSnap(g, e.id) THEN GRevert(g, e.id) ELSE g,
                  s |-> IF \E i \in 1..Len(s.revs) : s.revs[i].id = e.id THEN SRevert(s, e.id) ELSE s,
                  v |-> {}, d |-> IF \E i \in 1..Len(s.revs) : s.revs[i].id = e.id THEN {} ELSE {"Revert"},
                  ctx |-> "revert", seen |-> seen]
          [] e.ev = "Finalise" -> [g |-> GFinalise(g), s |-> SFinalise(s), v |-> {}, d |-> {}, ctx |-> ctx, seen |-> seen]
          [] e.ev = "Flush" ->
                 LET g2 == GFlush(g)
                     \* known finding KF_C10_RevertedAccountWrite: a reverted write to an account field leaves a
                     \* dirty account record behind, which enters the root although nothing changed
                     mark == IF \E sl \in g.rv : U.kind[sl] # "st" /\ g.cur[sl] = g.base[sl] THEN "revertedAccountWrite" ELSE "plain"
                     sn   == IF g2.c10ok THEN seen \cup {<<g2.root, e.root, mark>>} ELSE seen
                     same == {y \in sn : y[1] = g2.root}
                     hsh  == {y \in sn : y[2] = e.root} IN
                 [g |-> IF mark = "plain" THEN g2 ELSE [g2 EXCEPT !.c10ok = FALSE], s |-> SFlush(U, s),
                  v |-> IF ~g2.c10ok THEN {} ELSE
                        (IF \A x \in same : x[2] = e.root THEN {}
                         ELSE {<<"C10_Functional", [hashes |-> {x[2] : x \in same}, marks |-> {x[3] : x \in same}]>>})
                        \cup (IF \A x \in hsh : x[1] = g2.root THEN {}
                              ELSE {<<"C10_Injective", [hash |-> e.root, marks |-> {x[3] : x \in hsh}]>>}),
                  d |-> {}, ctx |-> "flush", seen |-> sn]
          [] e.ev = "Commit" -> [g |-> GCommit(g, e.h), s |-> SCommit(U, s, e.h),
                  v |-> IF e.version = e.h THEN {} ELSE {<<"C12_Version", e.h>>}, d |-> {}, ctx |-> "commit", seen |-> seen]
          [] e.ev = "Rollback" ->
                 LET ok == e.err = "ok" IN
                 [g |-> IF ok /\ GRollbackOK(g, e.t) THEN GRollback(g, U, e.t) ELSE g,
                  s |-> IF ok /\ SRollbackErr(s, e.t) = "ok" THEN SRollback(U, s, e.t) ELSE s,
                  v |-> (IF C12_Refused(g, e.t, e.err) THEN {} ELSE {<<"C12_Refused", e.t>>})
                        \cup (IF C12_Accepted(g, e.t, e.err) THEN {} ELSE {<<"C12_Accepted", e.t>>})
                        \cup (IF ok /\ GRollbackOK(g, e.t) /\ e.version # e.t THEN {<<"C12_Version", e.t>>} ELSE {}),
                  d |-> IF SRollbackErr(s, e.t) = e.err THEN {} ELSE {"Rollback"},
                  ctx |-> IF ok THEN "rollback" ELSE "refused", seen |-> seen]
          [] e.ev = "Reopen" -> [g |-> GReopen(g, U), s |-> SReopen(U, s), v |-> {}, d |-> {}, ctx |-> "reopen", seen |-> seen]
          [] e.ev = "ReadAll" -> LET x == SReadAll(U, s)
                                     bad == {sl \in U.slots \ g.free : e.vals[sl] # g.cur[sl]}
                                     tag == CASE ctx = "revert" -> "C13_RevertRestores"
                                              [] ctx \in {"rollback", "refused"} -> "C12_RollbackRestores"
                                              [] OTHER -> "C13_ReadLatest" IN
                 [g |-> [g EXCEPT !.cur = [sl \in U.slots |-> IF sl \in g.free THEN e.vals[sl] ELSE @[sl]], !.free = {}],
                  s |-> [x.s EXCEPT !.dirty = [sl \in U.slots |-> IF sl \in g.free /\ x.v[sl] # e.vals[sl] THEN e.vals[sl] ELSE @[sl]]],
                  v |-> {<<tag, sl>> : sl \in bad},
                  d |-> IF \A sl \in U.slots \ g.free : x.v[sl] = e.vals[sl] THEN {} ELSE {"ReadAll"}, ctx |-> "read", seen |-> seen]
      \* C13_StableExistence: the "found" flag of a slot is part of what a read returns; between two writes it must not
      \* depend on where the read is served from (dirty set, account cache, database, after Flush / Commit / Reopen).
      \* ex: slot -> [value, flag] of its last read since the last state-changing step; any step other than a read,
      \* Flush, Commit or Reopen forgets everything (conservative); a read that returns another value (uncommitted writes
      \* are lost by Reopen) is judged by the other formulas and only re-bases the flag
      keep == e.ev \in {"R", "Q", "ReadAll", "Flush", "Commit", "Reopen"}
      obs  == IF e.ev = "R" THEN [x \in {e.sl} |-> [v |-> e.v, ex |-> e.ex]]
              ELSE IF e.ev = "ReadAll" THEN [x \in DOMAIN e.ex |-> [v |-> e.vals[x], ex |-> e.ex[x]]] ELSE <<>>
      \* same value as at the previous read of the slot, different "found" flag
      exv  == {<<"C13_StableExistence", sl>> : sl \in {x \in DOMAIN obs \cap DOMAIN ex : keep /\ obs[x].v = ex[x].v /\ obs[x].ex # ex[x].ex}}
      ex2  == IF ~keep THEN <<>> ELSE [x \in DOMAIN ex \cup DOMAIN obs |-> IF x \in DOMAIN obs THEN obs[x] ELSE ex[x]]
  IN /\ U' = UU /\ tname' = nm /\ g' = r.g /\ s' = r.s /\ ctx' = r.ctx /\ seen' = r.seen /\ ex' = ex2
     /\ viol'  = viol \cup {<<nm, l + 1, x[1], x[2]>> : x \in r.v \cup exv}
     /\ drift' = drift \cup {<<nm, l + 1, <<e.ev, x>>>> : x \in r.d}

Next == /\ l < Len(Tr)
        /\ l' = l + 1
        /\ Step(Tr[l + 1])
        /\ TLCSet(1, l + 1)
        /\ TLCSet(2, viol') /\ TLCSet(3, drift')

Spec == Init /\ [][Next]_tvars

Accepted ==
  /\ PrintT(<<"VERIF_RESULT", "lines", Len(Tr), "consumed", TLCGet(1)>>)
  /\ PrintT(<<"VERIF_VIOL", ToJson(IF TLCGet(1) = 0 THEN {} ELSE TLCGet(2))>>)
  /\ PrintT(<<"VERIF_DRIFT", ToJson(IF TLCGet(1) = 0 THEN {} ELSE TLCGet(3))>>)
  /\ TLCGet(1) = Len(Tr)
=============================================================================
