---------------------------- MODULE ReplicasMC ----------------------------
(* Enumerates all placements of restarts and read-only executions of R replicas over an n-block chain and *)
(* checks agreement of a deterministic executor: this is the schedule space the harness samples.          *)
EXTENDS Replicas
CONSTANTS R, N
VARIABLES hgt, res, up
vars == <<hgt, res, up>>
Chain == [i \in 1..N |-> i]
Init == hgt = [r \in 1..R |-> 0] /\ res = [r \in 1..R |-> <<>>] /\ up = [r \in 1..R |-> TRUE]
ExecB(r) == /\ up[r] /\ hgt[r] < N
            /\ hgt' = [hgt EXCEPT ![r] = @ + 1]
            /\ res' = [res EXCEPT ![r] = Append(@, Exec(Chain, hgt[r] + 1))] /\ UNCHANGED up
Stop(r)  == up[r] /\ up' = [up EXCEPT ![r] = FALSE] /\ UNCHANGED <<hgt, res>>
Start(r) == ~up[r] /\ up' = [up EXCEPT ![r] = TRUE] /\ UNCHANGED <<hgt, res>>
View(r)  == up[r] /\ UNCHANGED vars
Next == \E r \in 1..R : ExecB(r) \/ Stop(r) \/ Start(r) \/ View(r)
Spec == Init /\ [][Next]_vars
Inv_C01_Agreement == \A a, b \in 1..R : \A h \in 1..N : (h <= Len(res[a]) /\ h <= Len(res[b])) => res[a][h] = res[b][h]
=============================================================================
