----------------------------- MODULE ExecTrace -----------------------------
(***************************************************************************)
(* Validation of traces recorded from the real block executor (harness/cmd/*)
(* execadp).  Every Block / View event is judged by the C07 / C08 / C14    *)
(* formulas of Exec.tla; a Submit that is not followed by its Block (the   *)
(* node crashed, wedged or refused the block) violates C08.                *)
(***************************************************************************)
EXTENDS Exec, Json, IOUtils

TraceFile == IF "TRACE" \in DOMAIN IOEnv THEN IOEnv.TRACE ELSE "trace.ndjson"
Tr == ndJsonDeserialize(TraceFile)

VARIABLES l, tname, admins, pending, viol, drift
tvars == <<l, tname, admins, pending, viol, drift>>

Init == l = 0 /\ tname = "" /\ admins = {} /\ pending = FALSE /\ viol = {} /\ drift = {} /\ TLCSet(1, 0)

BlockViol(e) == GenericBlockViol(e, admins)

Step(e) ==
  LET nm == IF e.ev = "Init" THEN e.name ELSE tname
      v  == CASE e.ev = "Init"   -> (IF e.setupEqual THEN {} ELSE {<<"C01_SetupDiverged", 0>>})
                                    \cup (IF pending THEN {<<"C08_Alive", "lost">>} ELSE {})
              [] e.ev = "Submit" -> IF pending THEN {<<"C08_Alive", "lost">>} ELSE {}
              [] e.ev = "Block"  -> BlockViol(e)
              [] e.ev = "View"   -> (IF C07_ViewNoEffect(ToSet(e.changed), e.metaSame) THEN {} ELSE {<<"C07_ViewNoEffect", ToSet(e.changed)>>})
                                    \cup (IF e.nrec = e.n THEN {} ELSE {<<"C08_OneReceiptPerTx", "view">>})
              [] e.ev = "ViewProbe" -> IF C07_ViewLeavesNothing(e.same) THEN {} ELSE {<<"C07_ViewLeavesNothing", e.diff>>}
              [] e.ev = "RootPair" ->
                   \* C10: the tx root commits to the transaction sequence, the receipt root to the receipts in block order;
                   \* the state root is the same for the same (commuting) transfers in another order
                   (IF (e.hashesA = e.hashesB) = (e.txA = e.txB) THEN {} ELSE {<<"C10_TxRootCommits", e.mode>>})
                   \cup (IF (e.hashesA = e.hashesB) = (e.rcA = e.rcB) THEN {} ELSE {<<"C10_ReceiptRootCommits", e.mode>>})
                   \cup (IF e.allOK /\ e.mode \in {"same", "perm"} /\ e.stA # e.stB THEN {<<"C10_StateOrderIndependent", e.mode>>} ELSE {})
                   \cup (IF e.allOK /\ e.mode = "perturb" /\ e.stA = e.stB THEN {<<"C10_StateSensitive", e.mode>>} ELSE {})
              [] e.ev = "ExecError" -> {<<"C08_Alive", e.cls>>}
              [] e.ev = "Crashed"   -> {<<"C08_Alive", "crashed">>}
              [] OTHER -> {}
  IN /\ tname' = nm
     /\ admins' = IF e.ev = "Init" THEN ToSet(e.admins) ELSE admins
     /\ pending' = (e.ev = "Submit")
     /\ viol' = viol \cup {<<nm, l + 1, x[1], x[2]>> : x \in v}
     /\ drift' = drift

Next == /\ l < Len(Tr)
        /\ l' = l + 1
        /\ Step(Tr[l + 1])
        /\ TLCSet(1, l + 1)
        /\ TLCSet(2, viol') /\ TLCSet(3, drift')
Spec == Init /\ [][Next]_tvars

Accepted ==
  /\ PrintT(<<"VERIF_RESULT", "lines", Len(Tr), "consumed", TLCGet(1)>>)
  /\ PrintT(<<"VERIF_VIOL", ToJson(IF TLCGet(1) = 0 THEN {} ELSE TLCGet(2))>>)
  /\ PrintT(<<"VERIF_DRIFT", ToJson(IF TLCGet(1) = 0 THEN {} ELSE TLCGet(3))>>)
  /\ TLCGet(1) = Len(Tr)
=============================================================================
