----------------------------- MODULE ExecTrace -----------------------------
(***************************************************************************)
(* Validation of traces recorded from the real block executor (harness/cmd/*)
(* execadp).  Every Block / View event is judged by the C07 / C08 / C14    *)
(* formulas of Exec.tla; a Submit that is not followed by its Block (the   *)
(* node crashed, wedged or refused the block) violates C08.                *)
(***************************************************************************)
EXTENDS Exec, Json, IOUtils

TraceFile == IF "TRACE" \in DOMAIN IOEnv THEN IOEnv.TRACE ELSE "trace.ndjson"
Tr == ndJsonDeserialize(TraceFile)

VARIABLES l, tname, admins, pending, viol, drift
tvars == <<l, tname, admins, pending, viol, drift>>

Init == l = 0 /\ tname = "" /\ admins = {} /\ pending = FALSE /\ viol = {} /\ drift = {} /\ TLCSet(1, 0)

BlockViol(e) ==
  LET txs   == e.txs
      n     == Len(txs)
      adm   == admins
      one   == n = 1
      t     == txs[1]
      lost  == SumOver(e.pre) - SumOver(e.bal)
  IN (IF C08_OneReceiptPerTx(n, e.nrec, e.orderOK) THEN {} ELSE {<<"C08_OneReceiptPerTx", e.h>>})
     \cup (IF C08_NextHeight(e.hPrev, e.h) THEN {} ELSE {<<"C08_NextHeight", e.h>>})
     \cup (IF C07_FailedNoEffect(e.attributable, ToSet(e.diff), ToSet(e.allowed)) THEN {}
           ELSE {<<"C07_FailedNoEffect", [keys |-> ToSet(e.diff) \ ToSet(e.allowed),
                                          failed |-> {[m |-> txs[p + 1].m, c |-> txs[p + 1].to, cls |-> txs[p + 1].cls] : p \in ToSet(e.failed)}]>>})
     \cup (IF e.nrec # n \/ C07_NotDelivered(ToSet(e.deliv), txs) THEN {} ELSE {<<"C07_NotDelivered", e.h>>})
     \cup (IF C14_NoCreation(e.pre, e.bal) THEN {}
           ELSE {<<"C14_NoCreation", [gain |-> 0 - lost, kinds |-> {[k |-> txs[i].k, self |-> txs[i].from = txs[i].to, amt |-> txs[i].amtKind] : i \in 1..n}]>>})
     \cup (IF C14_NonNegative(e.bal, e.negative) THEN {}
           ELSE {<<"C14_NonNegative", {[k |-> txs[i].k, amt |-> txs[i].amtKind] : i \in 1..n}>>})
     \cup (IF lost <= n * (Cardinality(adm) - 1) THEN {} ELSE {<<"C14_FeeRounding", lost>>})
     \cup (IF one /\ e.nrec = 1 /\ t.k = "transfer" /\ t.status = "SUCCESS" /\ t.amtKind = "num"
              /\ ~C14_TransferExact(e.pre, e.bal, adm, t.from, t.to, t.amtNum)
           THEN {<<"C14_TransferExact", [amt |-> t.amtNum, self |-> t.from = t.to]>>} ELSE {})
     \cup (IF one /\ e.nrec = 1 /\ t.k = "transfer" /\ t.status = "SUCCESS" /\ t.amtKind \in {"neg", "big"}
           THEN {<<"C14_TransferExact", [amt |-> t.amtKind, self |-> t.from = t.to]>>} ELSE {})
     \cup (IF one /\ e.nrec = 1 /\ t.k = "transfer" /\ t.status = "FAILED"
              /\ ~C14_InsufficientNoEffect(e.pre, e.bal, adm, t.from, t.to)
           THEN {<<"C14_InsufficientNoEffect", t.amtKind>>} ELSE {})

Step(e) ==
  LET nm == IF e.ev = "Init" THEN e.name ELSE tname
      v  == CASE e.ev = "Init"   -> (IF e.setupEqual THEN {} ELSE {<<"C01_SetupDiverged", 0>>})
                                    \cup (IF pending THEN {<<"C08_Alive", "lost">>} ELSE {})
              [] e.ev = "Submit" -> IF pending THEN {<<"C08_Alive", "lost">>} ELSE {}
              [] e.ev = "Block"  -> BlockViol(e)
              [] e.ev = "View"   -> (IF C07_ViewNoEffect(ToSet(e.changed), e.metaSame) THEN {} ELSE {<<"C07_ViewNoEffect", ToSet(e.changed)>>})
                                    \cup (IF e.nrec = e.n THEN {} ELSE {<<"C08_OneReceiptPerTx", "view">>})
              [] e.ev = "ExecError" -> {<<"C08_Alive", e.cls>>}
              [] e.ev = "Crashed"   -> {<<"C08_Alive", "crashed">>}
              [] OTHER -> {}
  IN /\ tname' = nm
     /\ admins' = IF e.ev = "Init" THEN ToSet(e.admins) ELSE admins
     /\ pending' = (e.ev = "Submit")
     /\ viol' = viol \cup {<<nm, l + 1, x[1], x[2]>> : x \in v}
     /\ drift' = drift

Next == /\ l < Len(Tr)
        /\ l' = l + 1
        /\ Step(Tr[l + 1])
        /\ TLCSet(1, l + 1)
        /\ TLCSet(2, viol') /\ TLCSet(3, drift')
Spec == Init /\ [][Next]_tvars

Accepted ==
  /\ PrintT(<<"VERIF_RESULT", "lines", Len(Tr), "consumed", TLCGet(1)>>)
  /\ PrintT(<<"VERIF_VIOL", ToJson(IF TLCGet(1) = 0 THEN {} ELSE TLCGet(2))>>)
  /\ PrintT(<<"VERIF_DRIFT", ToJson(IF TLCGet(1) = 0 THEN {} ELSE TLCGet(3))>>)
  /\ TLCGet(1) = Len(Tr)
=============================================================================
