----------------------------- MODULE MempoolGen -----------------------------
(* Model-guided input generation: random walks (tlc -simulate) over the pool model, with the   *)
(* inputs recorded in the history variable `inp`; the finished walk is printed as one JSON plan *)
(* which the harness replays against the real pool.  `pick` balances the kinds of action.       *)
EXTENDS MempoolMC, Json

VARIABLES inp, pick
gvars == <<vars, inp, pick>>

Kinds == {"Process", "Process2", "Generate", "Commit", "RemoveAged", "Restart"}
PickW == <<"Process", "Process", "Process", "Generate", "Generate", "Commit", "Commit", "RemoveAged", "Restart">>

GenInit == Init /\ inp = <<>> /\ pick = "Process"

\* every choice is drawn with RandomElement (seeded by -seed in simulation mode), so a step has exactly
\* one successor and a walk costs one evaluation of the step function per step
RTx == RandomElement(TxU)
GenNext ==
  /\ steps < MaxSteps
  /\ steps' = steps + 1
  /\ pick' = PickW[RandomElement(1..Len(PickW))]
  /\ \/ /\ pick \in {"Process", "Process2"}
        /\ LET t1 == RTx  t2 == RTx  t3 == RTx
               k == RandomElement(1..3)
               txs == IF k = 1 THEN <<t1>> ELSE IF k = 2 \/ t3 = t1 \/ t3 = t2 THEN <<t1, t2>> ELSE <<t1, t2, t3>>
               ld == RandomElement({TRUE, TRUE, FALSE})
               r == Process(st, txs, ld, grp + 1) IN
             /\ st' = r.s
             /\ gh' = GhostAfterProcess(gh, st, r.s, Queries(r.s), txs, r.out)
             /\ grp' = grp + 1
             /\ inp' = Append(inp, [op |-> "Process", txs |-> txs, leader |-> ld])
     \/ /\ pick = "Generate"
        /\ LET r == Generate(st) IN st' = r.s /\ gh' = GhostAfterGenerate(gh, st, r.out)
        /\ UNCHANGED grp
        /\ inp' = Append(inp, [op |-> "Generate"])
     \/ /\ pick = "Commit"
        /\ LET U == HashIds(st) \cup {UnknownId}
               i1 == RandomElement(U)  i2 == RandomElement(U)
               ids == IF i1 = i2 THEN <<i1>> ELSE <<i1, i2>> IN
           DoCommit(ids) /\ inp' = Append(inp, [op |-> "Commit", ids |-> ids])
     \/ /\ pick = "RemoveAged"
        /\ LET cut == RandomElement(0..grp)
               r == RemoveAged(st, cut) IN
             /\ st' = r.s /\ gh' = GhostAfterRemove(gh, st, r.s) /\ UNCHANGED grp
             /\ inp' = Append(inp, [op |-> "RemoveAged", cut |-> cut])
     \/ /\ pick = "Restart"
        /\ DoRestart
        /\ inp' = Append(inp, [op |-> "Restart", ledger |-> gh.tc, k |-> 0])

GenSpec == GenInit /\ [][GenNext]_gvars

\* printed when a walk is complete
EmitPlan == steps < MaxSteps \/ PrintT(<<"VERIF_PLAN", ToJson(inp)>>)
=============================================================================
