----------------------------- MODULE MempoolMC -----------------------------
(* Exhaustive model checking of the pool design within small bounds. *)
EXTENDS Mempool

CONSTANTS Accounts, BatchSize, Timed, MaxNonce, Variants, MaxSteps, Leader, MaxSeqLen

VARIABLES st, gh, grp, steps
vars == <<st, gh, grp, steps>>

\* transaction universe: Variants conflicting txs per (account, nonce), timestamps with ties and inversions
TxU == { [id |-> (a - 1) * (MaxNonce + 1) * Variants + n * Variants + v,
          a |-> a, n |-> n, ts |-> (n * 2 + a + v * 3) % 4]
         : a \in Accounts, n \in 0..MaxNonce, v \in 1..Variants }
TxSeqs == UNION { {q \in [1..k -> TxU] : \A i, j \in 1..k : i # j => q[i] # q[j]} : k \in 1..MaxSeqLen }
UnknownId == 999
L0 == [a \in Accounts |-> 0]

Init == st = InitState(L0, 0, BatchSize, Timed) /\ gh = InitGhost(L0, 0) /\ grp = 0 /\ steps = 0

DoProcess(txs) ==
  LET r == Process(st, txs, Leader, grp + 1) IN
  /\ st' = r.s
  /\ gh' = GhostAfterProcess(gh, st, r.s, Queries(r.s), txs, r.out)
  /\ grp' = grp + 1

DoGenerate ==
  /\ Leader
  /\ LET r == Generate(st) IN st' = r.s /\ gh' = GhostAfterGenerate(gh, st, r.out)
  /\ UNCHANGED grp

IdSeqs == LET U == HashIds(st) \cup {UnknownId} IN
          UNION { {q \in [1..k -> U] : \A i, j \in 1..k : i # j => q[i] # q[j]} : k \in 1..MaxSeqLen }
DoCommit(ids) ==
  /\ st' = Commit(st, ids)
  /\ gh' = GhostAfterCommit(gh, st, ids)
  /\ UNCHANGED grp

DoRemoveAged(cut) ==
  LET r == RemoveAged(st, cut) IN
  /\ st' = r.s /\ gh' = GhostAfterRemove(gh, st, r.s) /\ UNCHANGED grp

DoRestart ==
  /\ st' = InitState(gh.tc, 0, BatchSize, Timed)
  /\ gh' = InitGhost(gh.tc, 0)
  /\ grp' = 0

Next == /\ steps < MaxSteps
        /\ steps' = steps + 1
        /\ \/ \E txs \in TxSeqs : DoProcess(txs)
           \/ DoGenerate
           \/ \E ids \in IdSeqs : DoCommit(ids)
           \/ \E cut \in 1..grp : DoRemoveAged(cut)
           \/ DoRestart
Spec == Init /\ [][Next]_vars

qr == Queries(st)
Inv_C18_GapFree        == C18_GapFree(gh)
Inv_C18_OncePerNonce   == C18_OncePerNonce(gh)
Inv_C18_NotBelowCommit == C18_NotBelowCommit(gh)
Inv_C18_OnlyGiven      == C18_OnlyGiven(gh)
Inv_C18_BatchSize      == C18_BatchSize(gh)
Inv_C18_SeqNoStep      == C18_SeqNoStep(gh)
Inv_C19_NoSilentLoss   == C19_NoSilentLoss(st, gh, qr)
Inv_C19_EvictOnlyNonReady == C19_EvictOnlyNonReady(gh)
Inv_C19_PendingWork    == C19_PendingWork(st, gh, qr)
Inv_C19_PendingNonceExact == C19_PendingNonceExact(st, gh, qr)
=============================================================================
