SPECIFICATION Spec
CONSTANTS
  Window = 10
  TruncateAheadFix = TRUE
  Heights = {1, 5, 11, 12, 14}
  Extra = 2
  Coded = TRUE
INVARIANTS Inv_Durable Inv_C11_Opens Inv_C11_HeightPrevOrNew Inv_C11_StoresConsistent Inv_C11_NoLoss Inv_C11_SameChainAfterContinue
CHECK_DEADLOCK FALSE
