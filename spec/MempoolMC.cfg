SPECIFICATION Spec
CONSTANTS
  Accounts = {1, 2}
  BatchSize = 2
  Timed = FALSE
  PendingFix = TRUE
  RemoveIdxFix = TRUE
  MaxNonce = 2
  Variants = 1
  MaxSteps = 4
  Leader = TRUE
  MaxSeqLen = 2
INVARIANTS
  Inv_C18_GapFree Inv_C18_OncePerNonce Inv_C18_NotBelowCommit Inv_C18_OnlyGiven Inv_C18_BatchSize Inv_C18_SeqNoStep
  Inv_C19_NoSilentLoss Inv_C19_EvictOnlyNonReady Inv_C19_PendingWork Inv_C19_PendingNonceExact
CHECK_DEADLOCK FALSE
