SPECIFICATION Spec
CONSTANTS
  Window = 1
  HeightKeyFix = FALSE
  MaxH = 3
  MaxPersist = 4
  MaxFaults = 2
  TxSeqs <- TxSeqsQuick
  Cnts = {0, 2}
INVARIANTS Inv_Covers Inv_C09_HashLinked Inv_C09_RootsMatch Inv_C09_IndexAgree Inv_C09_MetaAgree Inv_C09_NothingAboveAfterRollback Inv_C12_RefusedNoChange Inv_Heights
CHECK_DEADLOCK FALSE
VIEW view
