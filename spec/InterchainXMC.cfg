SPECIFICATION Spec
CONSTANTS
  BeginOnce = TRUE
  MaxIdx = 1
  Timeouts = {0, 1, 2}
  MaxH = 5
  Vals <- Vals4
  NVals = 4
  SigSeqs <- SigSeqs4
  HubStatuses = {"available", "frozen"}
INVARIANTS C03_MultiSign C06_NoLateBegin Inv_C02_ReceiptAfterRequest
PROPERTIES C04_Step C04_FinalStable C04_StartsAtBegin C06_FiresAt C16_HubGate
CHECK_DEADLOCK FALSE
