SPECIFICATION Spec
CONSTANTS
  Window = 10
  HeightKeyFix = TRUE
POSTCONDITION Accepted
CHECK_DEADLOCK FALSE
