SPECIFICATION GenSpec
CONSTANTS
  Accounts = {1, 2, 3}
  BatchSize = 3
  Timed = TRUE
  PendingFix = TRUE
  RemoveIdxFix = TRUE
  MaxNonce = 3
  Variants = 2
  MaxSteps = 12
  Leader = TRUE
  MaxSeqLen = 2
INVARIANT EmitPlan
CHECK_DEADLOCK FALSE
