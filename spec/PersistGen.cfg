SPECIFICATION Spec
CONSTANTS
  Window = 10
  TruncateAheadFix = TRUE
  Heights = {1, 5, 11, 12, 14}
  Extra = 2
  Coded = FALSE
INVARIANTS EmitCrash
CHECK_DEADLOCK FALSE
