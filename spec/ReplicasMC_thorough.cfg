SPECIFICATION Spec
CONSTANTS
  R = 3
  N = 5
INVARIANT Inv_C01_Agreement
CHECK_DEADLOCK FALSE
