----------------------------- MODULE Governance -----------------------------
(***************************************************************************)
(* Proposal voting of bitxhub's governance contract (governance.go:        *)
(* SubmitProposal, Vote / setVote / countVote, WithdrawProposal, the       *)
(* priority lock, repo.MakeStrategyDecision) as a property-level machine   *)
(* for C15: per proposal the administrators eligible when it was created,  *)
(* the ballots cast by distinct eligible administrators, the strategy      *)
(* expression recorded for it; a proposal concludes only by its rule.      *)
(***************************************************************************)
EXTENDS Integers, Sequences, FiniteSets, SequencesExt, FiniteSetsExt, TLC

Get(f, k, d) == IF k \in DOMAIN f THEN f[k] ELSE d
Put(f, k, v) == [x \in DOMAIN f \cup {k} |-> IF x = k THEN v ELSE f[x]]

\* strategy expressions admitted by the configuration check and used by the drivers (blanks removed)
Expr(e, a, r, t) ==
  CASE e = "a>0.5*t" -> 2 * a > t
    [] e = "a==t"    -> a = t
    [] e = "a>=1"    -> a >= 1
    [] e = "a>=2"    -> a >= 2
    [] e = "a*3>t*2" -> a * 3 > t * 2
    [] OTHER -> FALSE
KnownExpr == {"a>0.5*t", "a==t", "a>=1", "a>=2", "a*3>t*2"}
\* repo.MakeStrategyDecision: approved when the expression holds; rejected when it cannot hold any more
Approvable(e, a, r, t, av)  == Expr(e, a, r, t)
Unreachable(e, a, r, t, av) == ~Expr(e, a, r, t) /\ ~Expr(e, IF av >= r THEN av - r ELSE 0, r, t)

\* ghost of one proposal
NewProp(elig, expr, special) == [elig |-> elig, yes |-> {}, no |-> {}, expr |-> expr, special |-> special, ended |-> FALSE, endSt |-> "", endYes |-> 0, endNo |-> 0]

\* C15 clauses judged when a Vote transaction is ACCEPTED (voter v, ballot b, proposal ghost p, status of the
\* proposal before the block, set of currently available administrators)
VoteViol(p, prevStatus, avail, v, b) ==
     (IF v \in p.elig /\ v \in avail THEN {} ELSE {"C15_RefusedVotes"})            \* non-admin / not eligible / unavailable
\cup (IF v \in p.yes \cup p.no THEN {"C15_OneVotePerAdmin"} ELSE {})               \* second vote of the same administrator
\cup (IF prevStatus = "proposed" THEN {} ELSE {"C15_RefusedVotes"})                \* finished (or paused) proposal
\cup (IF b \in {"approve", "reject"} THEN {} ELSE {"C15_RefusedVotes"})            \* garbage ballot
ApplyVote(p, v, b) == IF b = "approve" THEN [p EXCEPT !.yes = @ \cup {v}] ELSE IF b = "reject" THEN [p EXCEPT !.no = @ \cup {v}] ELSE p

\* C15 clauses judged on the observed proposal record o after a block (p = ghost after the block's votes,
\* supers = super administrators, avail = currently available administrators, prevStatus = status before the block)
ConcludeViol(p, o, prevStatus, supers, avail) ==
  LET a == Cardinality(p.yes)  r == Cardinality(p.no)  t == Cardinality(p.elig)
      av == Cardinality(p.elig \cap avail)
      byVote == o.endReason = "end of normal voting"
  IN (IF o.approve = a /\ o.against = r THEN {} ELSE {"C15_OneVotePerAdmin"})      \* tallies = distinct eligible voters
     \cup (IF o.initial = t THEN {} ELSE {"C15_Electorate"})                       \* electorate fixed at creation
     \cup (IF prevStatus = "proposed" /\ o.status = "approve" /\ byVote /\ o.expr \in KnownExpr /\ ~Approvable(o.expr, a, r, t, av)
           THEN {"C15_ApprovedOnlyByRule"} ELSE {})
     \cup (IF prevStatus = "proposed" /\ o.status = "reject" /\ byVote /\ o.expr \in KnownExpr /\ ~Unreachable(o.expr, a, r, t, av)
           THEN {"C15_RejectedOnlyIfUnreachable"} ELSE {})
     \cup (IF prevStatus = "proposed" /\ o.status \in {"approve", "reject"} /\ byVote /\ p.special /\ (p.yes \cup p.no) \cap supers = {}
           THEN {"C15_SpecialNeedsSuper"} ELSE {})
     \cup (IF p.ended /\ (o.status # p.endSt \/ o.approve # p.endYes \/ o.against # p.endNo) THEN {"C15_Final"} ELSE {})
=============================================================================
