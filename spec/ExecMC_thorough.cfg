SPECIFICATION Spec
CONSTANTS
  FeeFirst = TRUE
  Users = {"u1", "u2"}
  Admins = {"a1", "a2", "a3"}
  MaxBal = 4
  Fees = {2, 4}
  MaxSteps = 3
INVARIANTS Inv_C14_NoCreation Inv_C14_FeeRounding Inv_C14_NonNegative
PROPERTIES C07_FailedLeavesNothing
CHECK_DEADLOCK FALSE
