SPECIFICATION Spec
CONSTANTS
  BeginOnce = TRUE
  MaxIdx = 2
  Timeouts = {0, 1, 2}
  MaxH = 6
  Vals <- Vals7
  NVals = 7
  SigSeqs <- SigSeqs7
  HubStatuses = {"available", "frozen", "forbidden"}
INVARIANTS C03_MultiSign C06_NoLateBegin Inv_C02_ReceiptAfterRequest
PROPERTIES C04_Step C04_FinalStable C04_StartsAtBegin C06_FiresAt C16_HubGate
CHECK_DEADLOCK FALSE
