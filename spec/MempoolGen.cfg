SPECIFICATION GenSpec
CONSTANTS
  Accounts = {1, 2, 3}
  BatchSize = 2
  Timed = FALSE
  PendingFix = TRUE
  RemoveIdxFix = TRUE
  MaxNonce = 3
  Variants = 2
  MaxSteps = 12
  Leader = TRUE
  MaxSeqLen = 2
INVARIANT EmitPlan
CHECK_DEADLOCK FALSE
