--------------------------- MODULE ChainLedgerMC ---------------------------
(* Exhaustive check (small bounds): the executor's header filling plus the chain ledger's *)
(* Persist / Rollback / Reopen answer every lookup in agreement with the executed chain.  *)
EXTENDS ChainLedger

CONSTANTS MaxH,        \* highest block number
          MaxPersist,  \* blocks persisted in one behaviour (re-execution after rollback included)
          MaxFaults,   \* rollbacks (accepted or refused) + reopens in one behaviour
          TxSeqs,      \* the transaction lists a block may carry (tx ids are strings)
          Cnts         \* interchain counts a block may carry

\* "a","b","c": distinct transactions; <<"a","a">>: the same transaction twice in one block
TxSeqsQuick == {<<>>, <<"a">>, <<"a", "b">>, <<"b", "a">>, <<"a", "a">>, <<"c">>}
TxSeqsThorough == TxSeqsQuick \cup {<<"b">>, <<"c", "a">>}
TxSeqsDeep == TxSeqsThorough \cup {<<"a", "b", "a">>, <<"d">>}   \* 30.7 M distinct states, 24 min with 14 workers (measured once)

VARIABLES s, g, np, nf, hist
vars == <<s, g, np, nf, hist>>
view == <<s, g, np, nf>>          \* hist (the inputs so far) is output only

Init == s = SInit /\ g = GInit /\ np = 0 /\ nf = 0 /\ hist = <<>>

\* one block: the executor completes the header from ITS current block hash (= cached chain meta), the ledger stores it.
\* rcs: one receipt digest per position; the variant v makes receipts of equal txs differ between blocks.
Persist == \E txs \in TxSeqs, c \in Cnts, v \in {"ok", "fail"} :
  LET n == s.metaC.h + 1
      rcs == [i \in 1..Len(txs) |-> ToString(<<txs[i], v, i>>)]
      B == MkBlock(s.metaC.hash, n, txs, rcs, c, ToString(<<"S", n, txs>>)) IN
  /\ np < MaxPersist /\ n <= MaxH
  /\ Range(txs) \cap LiveT(g) = {}            \* a tx hash is stored at one height at a time (README: assumptions)
  /\ s' = SPersist(s, B) /\ g' = GPersist(g, B)
  /\ np' = np + 1 /\ UNCHANGED nf /\ hist' = Append(hist, <<"Persist", txs, c, v>>)

Rollback == \E t \in 0..(MaxH + 1) :
  LET r == SLedgerRollback(s, t) IN
  /\ nf < MaxFaults /\ nf' = nf + 1
  /\ s' = r.s
  /\ g' = IF r.err = "ok" THEN GRollback(g, t) ELSE g
  /\ UNCHANGED np /\ hist' = Append(hist, <<"Rollback", t, r.err>>)

Reopen == /\ nf < MaxFaults /\ nf' = nf + 1
          /\ s' = SReopen(s) /\ UNCHANGED <<g, np>> /\ hist' = Append(hist, <<"Reopen">>)

Next == Persist \/ Rollback \/ Reopen
Spec == Init /\ [][Next]_vars

A == SAudit(s, g)
Inv_Covers == Covers(g, A)
Inv_C09_HashLinked == C09_HashLinked(g, A)
Inv_C09_RootsMatch == C09_RootsMatch(g, A)
Inv_C09_IndexAgree == C09_IndexAgree(g, A)
Inv_C09_MetaAgree  == C09_MetaAgree(g, A)
Inv_C09_NothingAboveAfterRollback == C09_NothingAboveAfterRollback(g, A)
\* whatever target: a refused rollback leaves every answer as it was
Inv_C12_RefusedNoChange == \A t \in 0..(MaxH + 1) :
  LET r == SLedgerRollback(s, t) IN r.err # "ok" => C12_RefusedNoChange(A, SAudit(r.s, g)) /\ r.s = s
\* the model's own bookkeeping
Inv_Heights == s.metaC.h = Len(g.chain) /\ s.st.max = Len(g.chain) /\ Len(s.bf) = Len(g.chain)
=============================================================================
