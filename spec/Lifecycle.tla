----------------------------- MODULE Lifecycle -----------------------------
(***************************************************************************)
(* Governance status machines of appchains (incl. relay chains) and        *)
(* services (C16, lifecycle half), transcribed from the fsm.Events tables  *)
(* of bitxhub-core (appchain-mgr, service-mgr).  An edge <<from, to>> is   *)
(* what ONE governance step (submission, approval, rejection or a          *)
(* cascading operation of the owning appchain) may do to an object.  A     *)
(* rejection returns to the status the object had when the proposal was    *)
(* submitted, i.e. to any source status of the submitting event.           *)
(* "" = the object is not stored (yet).                                    *)
(***************************************************************************)
EXTENDS FiniteSets, Sequences, Naturals

Cross(A, B) == {<<a, b>> : a \in A, b \in B}

AppUpd == {"available", "frozen", "logouting"}
AppFrz == {"available", "logouting"}
AppAct == {"frozen", "logouting"}
AppOut == {"available", "updating", "freezing", "frozen", "activating"}
AppchainEdges ==
  Cross({""}, {"available"})                                           \* registration approved
  \cup Cross(AppUpd, {"updating"}) \cup Cross({"updating"}, {"available", "frozen"})
  \cup Cross(AppFrz, {"freezing"}) \cup Cross({"freezing"}, {"frozen"} \cup AppFrz)
  \cup Cross(AppAct, {"activating"}) \cup Cross({"activating"}, {"available"} \cup AppAct)
  \cup Cross(AppOut, {"logouting"}) \cup Cross({"logouting"}, {"forbidden"} \cup AppOut)
  \cup {<<"available", "frozen">>, <<"frozen", "available">>}          \* pause / unpause (master rule replacement)

SvcUpd == {"available", "frozen", "logouting"}
SvcFrz == {"available", "logouting"}
SvcAct == {"frozen", "logouting"}
SvcPau == {"available", "frozen", "updating", "freezing", "activating"}
SvcOut == {"available", "updating", "freezing", "frozen", "activating", "pause"}
ServiceEdges ==
  Cross({"", "unavailable"}, {"registering", "available"}) \cup Cross({"registering"}, {"available", "unavailable", "", "pause"})   \* pause: approved while the owning appchain is not available
  \cup Cross(SvcUpd, {"updating"}) \cup Cross({"updating"}, {"available", "frozen"})
  \cup Cross(SvcFrz, {"freezing"}) \cup Cross({"freezing"}, {"frozen"} \cup SvcFrz)
  \cup Cross(SvcAct, {"activating"}) \cup Cross({"activating"}, {"available"} \cup SvcAct)
  \cup Cross(SvcPau, {"pause"}) \cup {<<"pause", "available">>}        \* cascade of the owning appchain
  \cup Cross(SvcOut, {"logouting"}) \cup Cross({"logouting"}, {"forbidden"} \cup SvcOut)
  \cup Cross({"pause", "logouting"}, {"forbidden"})                    \* cleared when the appchain is logged out
  \* resumed by the owning appchain while a proposal on the service had been suspended by the pause: the service is
  \* unpaused and the proposal is re-opened in the same step (pause -> available -> status of that proposal)
  \cup Cross({"pause"}, {"updating", "freezing", "activating", "logouting"})

\* roles (governance admins, audit admins), internal/executor/contracts/role.go
RoleFrz == {"available", "activating", "logouting"}
RoleAct == {"frozen", "freezing", "logouting"}
RoleOut == {"available", "freezing", "frozen", "activating", "binding"}
RoleEdges ==
  Cross({"", "unavailable"}, {"registering"}) \cup Cross({"registering"}, {"available", "unavailable", ""})
  \cup Cross(RoleFrz, {"freezing"}) \cup Cross({"freezing"}, {"frozen"} \cup RoleFrz)
  \cup Cross(RoleAct, {"activating"}) \cup Cross({"activating"}, {"available"} \cup RoleAct)
  \cup Cross(RoleOut, {"logouting"}) \cup Cross({"logouting"}, {"forbidden"} \cup RoleOut)
  \cup {<<"frozen", "binding">>, <<"binding", "available">>, <<"binding", "frozen">>}   \* an audit admin gets another node
  \cup Cross({"available", "binding"}, {"frozen"})                                      \* paused: its audit node went away

\* audit / validator nodes, bitxhub-core node-mgr
NodeUpd == {"available", "binded", "logouting"}
NodeOut == {"available", "binding", "binded", "updating"}
NodeEdges ==
  Cross({"", "unavailable"}, {"registering"}) \cup Cross({"registering"}, {"available", "unavailable", ""})
  \cup Cross(NodeUpd, {"updating"}) \cup Cross({"updating"}, NodeUpd)
  \cup Cross({"available", "logouting"}, {"binding"}) \cup {<<"binding", "binded">>, <<"binding", "available">>, <<"binded", "available">>}
  \cup Cross(NodeOut, {"logouting"}) \cup Cross({"logouting"}, {"forbidden"} \cup NodeOut)

\* validation rules of an appchain, bitxhub-core rule-mgr
RuleEdges ==
  {<<"bindable", "available">>, <<"bindable", "binding">>, <<"binding", "available">>, <<"binding", "bindable">>,
   <<"available", "unbinding">>, <<"unbinding", "bindable">>, <<"unbinding", "available">>, <<"bindable", "forbidden">>}
  \cup Cross({"bindable", "available", "binding", "unbinding", "forbidden"}, {"unavailable"})   \* cleared with its appchain
  \cup Cross({"available", "binding", "unbinding", "forbidden"}, {"bindable"})                  \* a built-in rule is reset instead

\* prev, cur : object -> status before / after a block; ngov = number of governance-capable transactions in the block
LifecycleViol(kind, edges, prev, cur, ngov) ==
  LET both == DOMAIN prev \cap DOMAIN cur
      changed == {o \in both : prev[o] # cur[o]}
  IN {<<"C16_Lifecycle", [kind |-> kind, obj |-> o, from |-> prev[o], to |-> cur[o], why |-> "no governance operation in this block"]>> :
          o \in {x \in changed : ngov = 0}}
     \cup {<<"C16_Lifecycle", [kind |-> kind, obj |-> o, from |-> prev[o], to |-> cur[o], why |-> "not an edge of the status machine"]>> :
          o \in {x \in changed : ngov = 1 /\ <<prev[x], cur[x]>> \notin edges}}
     \cup {<<"C16_LoggedOutForever", [kind |-> kind, obj |-> o, from |-> prev[o], to |-> cur[o], why |-> "a logged-out object came back"]>> :
          o \in {x \in changed : prev[x] = "forbidden"}}

\* History-aware half: a proposal that is rejected or withdrawn restores the status the object had when the proposal was
\* submitted.  Followed only where it is unambiguous: the object went from a settled status to a transitional one in a
\* block with a single governance step in which nothing else changed status, no object of any kind changed status since
\* (cascades rewrite the remembered status: an audit admin whose node is logged out while its own logout is pending
\* comes back frozen), and it now settles again: then it is either where the approval leads or where it was before.
\* last : object -> that earlier status ("?" = not tracked); nchg = number of objects of all kinds that changed status
Transit  == {"freezing", "activating", "logouting"}
Settled  == {"available", "frozen", "forbidden"}
ApproveTo(t) == CASE t = "freezing" -> "frozen" [] t = "activating" -> "available" [] OTHER -> "forbidden"
LastOf(last, o) == IF o \in DOMAIN last THEN last[o] ELSE "?"
NChanged(prev, cur) == Cardinality({o \in DOMAIN prev \cap DOMAIN cur : prev[o] # cur[o]}) + Cardinality(DOMAIN cur \ DOMAIN prev)
NextLast(last, prev, cur, ngov, nchg) ==
  [o \in DOMAIN cur |->
     IF o \notin DOMAIN prev THEN "?"
     ELSE IF prev[o] = cur[o] THEN (IF nchg = 0 THEN LastOf(last, o) ELSE "?")
     ELSE IF ngov = 1 /\ nchg = 1 /\ prev[o] \in Settled /\ cur[o] \in Transit THEN prev[o]
     ELSE "?"]
ReturnViol(kind, last, prev, cur, ngov) ==
  {<<"C16_Lifecycle", [kind |-> kind, obj |-> o, from |-> prev[o], to |-> cur[o],
                       why |-> "a proposal that is not approved restores the earlier status, which was " \o LastOf(last, o)]>> :
      o \in {x \in DOMAIN prev \cap DOMAIN cur : /\ ngov = 1 /\ prev[x] \in Transit /\ cur[x] \in Settled
                                                 /\ LastOf(last, x) # "?" /\ cur[x] \notin {ApproveTo(prev[x]), LastOf(last, x)}}}
=============================================================================
