--------------------------- MODULE MempoolTrace ---------------------------
(***************************************************************************)
(* Validation of traces recorded from the real pool (harness/cmd/          *)
(* mempooladp) against Mempool.tla.                                        *)
(*                                                                         *)
(* The observed state `st` and query answers `qr` are BOUND to the logged  *)
(* values.  At every step                                                  *)
(*   - the ghost is advanced by the property-level rules of Mempool.tla    *)
(*     from logged inputs / outputs only, and every listed property        *)
(*     (C18_x, C19_x) is evaluated on the observed state: a failure is     *)
(*     recorded in `viol` (decides the verdict);                           *)
(*   - the specification's own step function is applied to the previous    *)
(*     observed state and compared field by field with the logged one: a   *)
(*     mismatch is recorded in `drift` (diagnosis, never a verdict).       *)
(* Several traces are concatenated; an "Init" event starts a new one.      *)
(* Acceptance: every line consumed (high-water mark in TLC register 1).    *)
(***************************************************************************)
EXTENDS Mempool, Json, IOUtils

TraceFile == IF "TRACE" \in DOMAIN IOEnv THEN IOEnv.TRACE ELSE "trace.ndjson"
Tr == ndJsonDeserialize(TraceFile)

VARIABLES l, tname, st, qr, gh, viol, drift
tvars == <<l, tname, st, qr, gh, viol, drift>>

ToSt(j, bs, timed) == [ items |-> ToSet(j.items), idx |-> ToSet(j.idx), hashes |-> ToSet(j.hashes),
             ready |-> ToSet(j.ready), parked |-> ToSet(j.parked), batched |-> ToSet(j.batched),
             arr |-> ToSet(j.arr), commitN |-> j.commitN, pend |-> j.pend,
             nonBatch |-> j.nonBatch, seqNo |-> j.seqNo, bs |-> bs, timed |-> timed ]
ToQ(j)  == [ pending |-> j.pending, hasPending |-> j.hasPending, got |-> ToSet(j.got) ]

StFields == {"items", "idx", "hashes", "ready", "parked", "batched", "arr", "commitN", "pend", "nonBatch", "seqNo"}
DiffSt(tag, x, y) == {<<tag, f>> : f \in {f \in StFields : x[f] # y[f]}}
DiffQ(tag, x, y)  == {<<tag, f>> : f \in {f \in {"pending", "hasPending", "got"} : x[f] # y[f]}}

\* the listed properties evaluated on the observed state
Failed(s, g, q) ==
     (IF C18_GapFree(g)        THEN {} ELSE {"C18_GapFree"})
\cup (IF C18_OncePerNonce(g)   THEN {} ELSE {"C18_OncePerNonce"})
\cup (IF C18_NotBelowCommit(g) THEN {} ELSE {"C18_NotBelowCommit"})
\cup (IF C18_OnlyGiven(g)      THEN {} ELSE {"C18_OnlyGiven"})
\cup (IF C18_BatchSize(g)      THEN {} ELSE {"C18_BatchSize"})
\cup (IF C18_SeqNoStep(g)      THEN {} ELSE {"C18_SeqNoStep"})
\cup (IF C19_NoSilentLoss(s, g, q)      THEN {} ELSE {"C19_NoSilentLoss"})
\cup (IF C19_EvictOnlyNonReady(g)       THEN {} ELSE {"C19_EvictOnlyNonReady"})
\cup (IF C19_PendingWork(s, g, q)       THEN {} ELSE {"C19_PendingWork"})
\cup (IF C19_PendingNonceExact(s, g, q) THEN {} ELSE {"C19_PendingNonceExact"})

Init == /\ l = 0 /\ tname = "" /\ viol = {} /\ drift = {}
        /\ st = InitState(<<>>, 0, 1, FALSE) /\ qr = Queries(st) /\ gh = InitGhost(<<>>, 0)
        /\ TLCSet(1, 0)

Step(e) ==
  LET obs == ToSt(e.st, IF e.ev = "Init" THEN e.batchSize ELSE st.bs,
                        IF e.ev = "Init" THEN e.timed ELSE st.timed)
      q   == ToQ(e.q)
      nm  == IF e.ev = "Init" THEN e.name ELSE tname
      \* r = [s |-> state the specification computes, out |-> its output, g |-> ghost after the step]
      r == CASE e.ev = "Init" ->
                  [s |-> InitState(e.ledger, 0, e.batchSize, e.timed), o |-> TRUE, g |-> InitGhost(e.ledger, 0)]
             [] e.ev = "Restart" ->
                  [s |-> InitState(e.ledger, e.k, st.bs, st.timed), o |-> TRUE, g |-> InitGhost(e.ledger, e.k)]
             [] e.ev = "Process" ->
                  LET x == Process(st, e.txs, e.leader, e.grp) IN
                  [s |-> x.s, o |-> x.out = e.out, g |-> GhostAfterProcess(gh, st, obs, q, e.txs, e.out)]
             [] e.ev = "Generate" ->
                  LET x == Generate(st) IN
                  [s |-> x.s, o |-> x.out = e.out, g |-> GhostAfterGenerate(gh, st, e.out)]
             [] e.ev = "Commit" ->
                  [s |-> Commit(st, e.ids), o |-> TRUE, g |-> GhostAfterCommit(gh, st, e.ids)]
             [] e.ev = "RemoveAged" ->
                  LET x == RemoveAged(st, e.cut) IN
                  [s |-> x.s, o |-> x.out = e.out, g |-> GhostAfterRemove(gh, st, obs)]
             [] e.ev = "SetSeqNo" ->
                  [s |-> SetSeqNo(st, e.k), o |-> TRUE, g |-> GhostAfterSetSeqNo(gh, e.k)]
             [] e.ev = "Rebroadcast" ->
                  [s |-> st, o |-> TRUE, g |-> gh]
  IN /\ st' = obs /\ qr' = q /\ gh' = r.g /\ tname' = nm
     /\ viol'  = viol \cup {<<nm, l + 1, f>> : f \in Failed(obs, r.g, q)}
     /\ drift' = drift \cup {<<nm, l + 1, d>> : d \in DiffSt(e.ev, r.s, obs) \cup DiffQ(e.ev, Queries(obs), q)
                                                      \cup (IF r.o THEN {} ELSE {<<e.ev, "out">>})}

Next == /\ l < Len(Tr)
        /\ l' = l + 1
        /\ Step(Tr[l + 1])
        /\ TLCSet(1, l + 1)
        /\ TLCSet(2, viol') /\ TLCSet(3, drift')

Spec == Init /\ [][Next]_tvars

Accepted ==
  /\ PrintT(<<"VERIF_RESULT", "lines", Len(Tr), "consumed", TLCGet(1)>>)
  /\ PrintT(<<"VERIF_VIOL", ToJson(IF TLCGet(1) = 0 THEN {} ELSE TLCGet(2))>>)
  /\ PrintT(<<"VERIF_DRIFT", ToJson(IF TLCGet(1) = 0 THEN {} ELSE TLCGet(3))>>)
  /\ TLCGet(1) = Len(Tr)
=============================================================================
