---------------------------- MODULE GovernanceMC ----------------------------
(* Exhaustive exploration of vote sequences on one proposal: every order of approve / reject / repeated /   *)
(* outsider votes for every strategy expression and electorate size, with electors becoming unavailable;    *)
(* the proposal machine concludes exactly by repo.MakeStrategyDecision.                                      *)
EXTENDS Governance
CONSTANTS Admins, Supers, Outsiders, Exprs
VARIABLES p, status, avail, expr
vars == <<p, status, avail, expr>>
Init == /\ expr \in Exprs /\ avail = Admins /\ status = "proposed"
        /\ \E sp \in BOOLEAN : p = NewProp(Admins, expr, sp)
Decide(q, av) ==
  LET a == Cardinality(q.yes) r == Cardinality(q.no) t == Cardinality(q.elig) n == Cardinality(q.elig \cap av) IN
  IF q.special /\ (q.yes \cup q.no) \cap Supers = {} THEN "proposed"
  ELSE IF Approvable(q.expr, a, r, t, n) THEN "approve" ELSE IF Unreachable(q.expr, a, r, t, n) THEN "reject" ELSE "proposed"
Vote == \E v \in Admins \cup Outsiders, b \in {"approve", "reject", "garbage"} :
  /\ status = "proposed"
  /\ IF VoteViol(p, status, avail, v, b) = {}
     THEN LET q == ApplyVote(p, v, b) IN p' = q /\ status' = Decide(q, avail)
     ELSE UNCHANGED <<p, status>>      \* refused
  /\ UNCHANGED <<avail, expr>>
Freeze == \E v \in avail \ Supers : avail' = avail \ {v} /\ UNCHANGED <<p, status, expr>>
Next == Vote \/ Freeze
Spec == Init /\ [][Next]_vars
\* C15 on the machine
Inv_ApprovedOnlyByRule == status = "approve" => Expr(expr, Cardinality(p.yes), Cardinality(p.no), Cardinality(p.elig))
Inv_SpecialNeedsSuper == (status # "proposed" /\ p.special) => (p.yes \cup p.no) \cap Supers # {}
Inv_OneVotePerAdmin == p.yes \cap p.no = {} /\ p.yes \cup p.no \subseteq Admins
C15_Final == [][status # "proposed" => (status' = status /\ p' = p)]_vars
=============================================================================
