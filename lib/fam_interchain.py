import json, os, subprocess
from vlib import *
from fam_exec import run_adapter_resilient, collect


class Interchain(Family):
    name = "Interchain"
    props = ["C02", "C03", "C04", "C05", "C06", "C16", "C17", "C07", "C08", "C14"]
    adapter = "interadp"
    trace_module = "InterchainTrace.tla"
    trace_cfg = "InterchainTrace.cfg"
    assumptions = [
        "whether an IBTP was accepted is taken from its receipt; an accepted IBTP is judged by the property clause it would violate; a rejected IBTP that the protocol machine would accept is drift only",
        "scenarios: 2-3 appchains with 1-2 services (ordered, now and then one unordered) registered through real governance proposals, happy validation rule (proof classes: matching hash, mismatching hash, absent); inter-BitXHub scenarios register one or two other BitXHubs as relay chains with 1-7 validators (real secp256k1 keys) and send requests, receipts and begin-failure / rollback notices in both directions with real multi-signature proofs",
        "a signature is logged as [signer label, what it covers]; the specification counts the distinct registered signers of THIS ibtp and status against (n-1)/3 itself; registered validator sets and hub statuses are read from the stored appchain record after every block",
        "C02 is judged on ordered service pairs (the mirrored counter of an unordered destination records the last index by design)",
        "group children's own statuses are read from the transaction manager's stored record (GetStatus only reports the global state)",
        "observation at block boundaries through the view executor / persisted state; timeouts judged at the exact expiry height",
    ]

    def mc_runs(self, prop, tier):
        runs = [("InterchainMC.tla", "InterchainMC_thorough.cfg" if tier == "thorough" else "InterchainMC.cfg", 12, 3000)]
        if prop in ("C03", "C04", "C06", "C16", "C02"):
            # the same machine between two BitXHubs: multi-signature proofs, notices, hub availability
            runs.append(("InterchainXMC.tla", "InterchainXMC_thorough.cfg" if tier == "thorough" else "InterchainXMC.cfg", 12, 3000))
        if prop == "C16":
            # operational status machines (stacked proposals, cascades) against the edge sets and the history-aware formula
            for k in ("appchain", "service", "role", "node"):
                runs.append(("LifecycleMC.tla", "LifecycleMC_%s.cfg" % k, 2, 600))
        return runs

    def viol_belongs(self, inv, prop):
        return inv.startswith(prop + "_")

    def rule(self, prop):
        base = ("seeded random interchain scenarios on the real executor: requests / receipts (success, failure, rollback) with indices around the expected one, timeouts 0/1/2/3/huge, "
                "mismatching or absent proofs, unregistered services, self pairs, one-to-many groups over 2-3 destinations, service and appchain freeze/activate/logout through real proposals, "
                "empty blocks, direct calls of internal entry points, restarts; ")
        return base + {"C02": "non-trivial = trace with >= 2 accepted requests on one pair or a rejected out-of-order IBTP; distinct by event sequence",
                       "C03": "plus rule scenarios: an appchain validated by the real simplified-Fabric rule (trust root = an endorser certificate) whose IBTPs carry real endorsed artifacts (right one; other index / chaincode / call; broken signature; other endorser; none), master rule replaced and replaced back through real proposals with traffic while the proposal is open, chain frozen / logged out; plus inter-BitXHub scenarios: signer sets straddling the threshold (one too few, just enough, all, none), duplicate and unregistered signers, validators of another hub, signatures over another index / status / type / source, garbage, hash-mismatching and absent proofs, unregistered hubs, appchains that are no hub, frozen / logged-out hubs, replaced validator sets; non-trivial = trace with an IBTP whose proof does not verify, a multi-signature proof or a direct HandleIBTPData call",
                       "C04": "non-trivial = trace with an accepted receipt or an expiry",
                       "C05": "non-trivial = trace with a group that received a report or expired",
                       "C06": "non-trivial = trace where a request with finite timeout reaches its expiry height (with or without receipt)",
                       "C16": "non-trivial = trace with IBTP traffic after a service / appchain status change or to an unregistered destination",
                       "C07": "non-trivial = block with a FAILED IBTP / governance / direct call whose state delta against the sibling node was attributable",
                       "C08": "non-trivial = executed block of an interchain scenario (IBTPs incl. grouped and timed-out ones, governance, direct calls)",
                       "C14": "non-trivial = block whose balances were checked",
                       "C17": "surface scenarios: on a live context (accepted and finished IBTPs, an open proposal) every exported method of every registered contract, enumerated by reflection, is invoked directly by an outsider, by the admin of another appchain and by a governance admin with well-typed arguments drawn from the live ids; non-trivial = trace with direct calls of internal or privileged entry points; distinct by (contract, method, role)"}[prop]

    def nontrivial(self, events, prop):
        blocks = [e for e in events if e["ev"] == "Block"]
        txs = [t for e in blocks for t in e["txs"]]
        ib = [t for t in txs if t["k"] == "ibtp"]
        if prop == "C02":
            return sum(1 for t in ib if t["typ"] == "REQ" and t["status"] == "SUCCESS") >= 2
        if prop == "C03":
            return any(not t["proofok"] or t.get("ms") or t.get("art", {}).get("kind") == "fabric" for t in ib) or any(t.get("m") == "HandleIBTPData" for t in txs)
        if prop == "C04":
            return any(t["typ"] != "REQ" and t["status"] == "SUCCESS" for t in ib) or any(e["tmeta"] for e in blocks)
        if prop == "C05":
            return any(e["groups"] for e in blocks) and any(t["typ"] != "REQ" and t["status"] == "SUCCESS" for t in ib)
        if prop == "C06":
            return any(e["tmeta"] for e in blocks) or any(t["typ"] == "REQ" and t["T"] in (1, 2, 3) and t["status"] == "SUCCESS" for t in ib)
        if prop == "C17":
            return any(t.get("cls") in ("surface", "direct") for t in txs)
        if prop == "C07":
            return any(e.get("failed") and e.get("attributable") for e in blocks)
        if prop in ("C08", "C14"):
            return len(blocks) > 0
        return any(t["k"] == "gov" for t in txs) or any(t["ret"] == "begin_failure" for t in ib)

    def gen_and_run(self, ctx, prop, tier):
        q = tier == "quick"
        n = 120 if q else 2500
        env = dict(os.environ, TMPDIR=ctx.dir)
        traces = []
        if prop in ("C02", "C04", "C05", "C06"):
            # model-guided: random walks of the protocol machine (TLC -simulate on InterchainGen.tla) replayed on the real executor
            walks = tlc_simulate_plans(ctx.sdir, "InterchainGen.tla", "InterchainGen.cfg", 60 if q else 1500, 20, ctx.seed * 3 + 1)
            dmap = {"1:b:s": "chainB:svc1", "1:c:s": "chainC:svc1"}
            plans = []
            for j, ops in enumerate(walks):
                steps = []
                for op in ops:
                    if op["op"] == "empty":
                        steps.append({"step": "empty", "n": 1})
                        continue
                    tx = {"k": "ibtp", "src": "chainA:svc1", "dst": dmap[op["dst"]], "idx": op["idx"], "typ": op["typ"], "t": op["T"], "from": "u1"}
                    if op.get("grp"):
                        tx["gdst"], tx["gidx"] = ["chainB:svc1", "chainC:svc1"], [1, 1]
                    steps.append({"step": "block", "txs": [tx]})
                plans.append({"name": "model-%d-%d" % (ctx.seed, j), "audit": j % 3 == 0, "seed": 1, "prooftype": "serial", "chains": ["chainA", "chainB", "chainC"],
                              "nsvc": 1, "black": {}, "unordered": ["chainC:svc1"], "steps": steps})
            pf = os.path.join(ctx.dir, "model-plans.json")
            json.dump(plans, open(pf, "w"))
            od = os.path.join(ctx.dir, "t-model")
            run_adapter_resilient(ctx.bin, ["-plans", pf], od, env, "interadp")
            for t in collect(od):
                t["src"] = "model-guided (tlc -simulate)"
                traces.append(t)
        if prop in ("C03", "C04", "C06", "C02", "C16"):
            # model-guided walks of the machine between two BitXHubs (InterchainXGen.tla): signer sequences become real
            # multi-signature proofs, hub status changes become real freeze / activate proposals
            walks = tlc_simulate_plans(ctx.sdir, "InterchainXGen.tla", "InterchainXGen.cfg", 40 if q else 1000, 26, ctx.seed * 5 + 2)
            smap = {"1:a:s": "chainA:svc1", "1:b:s": "chainB:svc1", "9:x:s": "9999:chainX:svcX", "9:y:s": "9999:chainY:svcY"}
            plans = []
            for j, ops in enumerate(walks):
                steps = []
                for op in ops:
                    if op["op"] == "empty":
                        steps.append({"step": "empty", "n": 1})
                    elif op["op"] == "hub":
                        steps.append({"step": "gov", "m": "ActivateAppchain" if op["to"] == "available" else "FreezeAppchain", "obj": "9999", "ok": True})
                    else:
                        tx = {"k": "ibtp", "src": smap[op["src"]], "dst": smap[op["dst"]], "idx": op["idx"], "typ": op["typ"], "t": op["T"], "from": "u1",
                              "notice": op["notice"]}
                        if op["ms"]:
                            tx["ms"] = True
                            tx["sigs"] = [x["who"] + ("" if x["over"] in ("this", "junk") else "!" + x["over"]) for x in op["sigs"]]
                            tx["msstatus"] = 3 if op["typ"] == "OK" else 0
                        steps.append({"step": "block", "txs": [tx]})
                plans.append({"name": "xmodel-%d-%d" % (ctx.seed, j), "audit": j % 3 == 0, "seed": 1, "prooftype": ["serial", "parallel"][j % 2], "chains": ["chainA", "chainB"],
                              "nsvc": 1, "black": {}, "relay": {"id": "9999", "vals": ["v0", "v1", "v2", "v3"]}, "steps": steps})
            pf = os.path.join(ctx.dir, "xmodel-plans.json")
            json.dump(plans, open(pf, "w"))
            od = os.path.join(ctx.dir, "t-xmodel")
            run_adapter_resilient(ctx.bin, ["-plans", pf], od, env, "interadp")
            for t in collect(od):
                t["src"] = "model-guided, two hubs (tlc -simulate)"
                traces.append(t)
        modes = [("", n), ("group", n // 2 if prop != "C05" else n), ("timed", n // 2 if prop not in ("C04", "C06") else n)]
        if prop == "C03":
            modes = [("xhub", n), ("rules", n // 2), ("", n // 2), ("lifecycle", n // 4)]
        if prop in ("C02", "C04", "C06"):
            modes.append(("xhub", n // 2))
        if prop == "C05":
            modes.append(("xhub", n // 2))   # one-to-many transactions with a child on another hub
        if prop == "C16":
            modes = [("lifecycle", n), ("", n // 2), ("xhub", n // 4), ("roles", n // 3), ("rules", n // 4)]
        if prop in ("C14", "C07", "C08"):
            modes.append(("roles", n // 4))
        if prop == "C17":
            # every exported method of every registered contract (reflection) x caller role, on a live context
            modes = [("surface", 3 if q else 12), ("", n // 3)]
        for i, (mode, cnt) in enumerate(modes):
            od = os.path.join(ctx.dir, "t-%d" % i)
            args = ["-n", str(cnt), "-seed", str(ctx.seed * 11 + i)] + (["-mode", mode] if mode else [])
            if mode == "surface":
                args += ["-frac", "3" if q else "1"]
            run_adapter_resilient(ctx.bin, args, od, env, "interadp")
            for t in collect(od):
                t["src"] = "random" + ("-" + mode if mode else "")
                traces.append(t)
        return traces

    def rerun(self, ctx, plan):
        d = tempfile.mkdtemp(prefix="rerun-", dir=ctx.dir)
        pf = os.path.join(d, "plans.json")
        json.dump([plan], open(pf, "w"))
        run_adapter_resilient(ctx.bin, ["-plans", pf], d, dict(os.environ, TMPDIR=ctx.dir), "interadp")
        ts = collect(d)
        if not ts:
            raise Infra("re-run produced no trace")
        return ts[0]["file"]


FAMILY = Interchain()
