import json, os, subprocess
from vlib import *


class StateLedger(Family):
    name = "StateLedger"
    props = ["C13", "C12", "C10"]
    adapter = "ledgeradp"
    trace_module = "StateLedgerTrace.tla"
    trace_cfg = "StateLedgerTrace.cfg"
    assumptions = [
        "harness projection: nil and empty byte strings are the same value (the database cannot tell them apart); slots are bound to fixed concrete addresses/keys in every trace",
        "reverting across a commit / rollback, reads between flush and commit of prefix queries, and writes between flush and commit are not driven (not meaningful uses)",
        "non-journaled writes (AddState) made since a snapshot are not constrained after a revert (their next read is adopted)",
        "C10: a no-op overwrite is not a state change; the root chain of a trace is not judged after a block containing one; SHA-256 collision resistance assumed",
        "account-cache eviction is not reachable (LRU capacities are compile-time constants of 1M entries)",
    ]

    def mc_runs(self, prop, tier):
        if tier == "thorough":
            return [("StateLedgerMC.tla", "StateLedgerMC_thorough.cfg", 14, 3400)]
        return [("StateLedgerMC.tla", "StateLedgerMC.cfg", 8, 900)]

    def rule(self, prop):
        return {"C13": "seeded random op plans (transaction-shaped snapshot/write/revert/finalise groups, reads, queries, flush/commit, rollback, reopen) on the real SimpleLedger+leveldb; non-trivial = the trace contains a read after a revert or reopen, or a prefix query with a live key; distinct by event sequence",
                "C12": "same plans plus long histories crossing the 10-block journal window; non-trivial = the trace contains an accepted rollback to a lower height followed by a full read-back, or a refused rollback",
                "C10": "same plans plus root families (one change set realised by permutation, reads+reopen, snapshot/revert detour, and single-field perturbations / dropped key); non-trivial = the trace flushes a block with a non-empty change set whose (symbolic root, hash) pair was judged"}[prop]

    def nontrivial(self, events, prop):
        evs = [e["ev"] for e in events]
        if prop == "C13":
            return any(evs[i] in ("Revert", "Reopen") and "ReadAll" in evs[i:i + 3] for i in range(len(evs))) or \
                any(e["ev"] == "Q" and e["vals"] for e in events)
        if prop == "C12":
            return any(e["ev"] == "Rollback" for e in events)
        return any(e["ev"] == "Flush" for e in events) and any(e["ev"] == "W" for e in events)

    def _run(self, ctx, args, outdir):
        env = dict(os.environ, TMPDIR=ctx.dir)
        r = subprocess.run([ctx.bin] + args + ["-out", outdir], stdout=subprocess.PIPE, stderr=subprocess.STDOUT, timeout=1800, env=env)
        if r.returncode != 0:
            raise Infra("ledgeradp failed: " + r.stdout.decode()[-2000:])
        out = []
        for f in sorted(glob.glob(os.path.join(outdir, "trace-*.ndjson"))):
            plan = json.load(open(f.replace("trace-", "plan-").replace(".ndjson", ".json")))
            out.append({"file": f, "plan": plan, "name": plan.get("name")})
        return out

    def gen_and_run(self, ctx, prop, tier):
        q = tier == "quick"
        n, nlong, roots = (250, 25, 60) if q else (4000, 400, 1200)
        if prop == "C10":
            roots *= 3
        rolls = 40 if q else 1500
        if prop == "C12":
            nlong *= 2
            rolls *= 6
        traces = []
        for t in self._run(ctx, ["-n", str(n), "-seed", str(ctx.seed), "-roots", str(roots), "-rolls", str(rolls)], os.path.join(ctx.dir, "t-rand")):
            t["src"] = "random" if t["name"].startswith("rand") else ("rollback-history" if t["name"].startswith("roll") else "root-family")
            traces.append(t)
        for t in self._run(ctx, ["-n", str(nlong), "-seed", str(ctx.seed + 104729), "-long"], os.path.join(ctx.dir, "t-long")):
            t["src"] = "random-long"
            traces.append(t)
        return traces

    def group(self, traces, t, prop):
        # C10 verdicts relate the roots of a whole family of histories
        if prop == "C10" and t["name"].startswith("root-"):
            pre = t["name"].rsplit("-", 1)[0] + "-"
            g = [x for x in traces if x["name"].startswith(pre) and x is not t]
            return g + [t]
        return [t]

    def rerun(self, ctx, plan):
        d = tempfile.mkdtemp(prefix="rerun-", dir=ctx.dir)
        pf = os.path.join(d, "plans.json")
        json.dump([plan], open(pf, "w"))
        ts = self._run(ctx, ["-plans", pf], d)
        if not ts:
            raise Infra("re-run produced no trace")
        return ts[0]["file"]


FAMILY = StateLedger()
