import json, os, subprocess
from vlib import *


class Mempool(Family):
    name = "Mempool"
    props = ["C18", "C19"]
    adapter = "mempooladp"
    trace_module = "MempoolTrace.tla"
    trace_cfg = "MempoolTrace.cfg"
    assumptions = [
        "harness projection (cmd/mempooladp: account ranks, id<->hash map, arrival groups) is decoding only",
        "age-based eviction: cut placed in a >=30ms real-time gap between arrival groups; runs whose eviction call took >8ms are discarded and repeated",
        "the pool is driven from one goroutine (as the ordering layer does)",
        "TLC explores the bounded model exhaustively; the real pool is explored on the generated traces only",
    ]

    def mc_runs(self, prop, tier):
        if tier == "thorough":
            return [("MempoolMC.tla", "MempoolMC_thorough.cfg", 14, 3000), ("MempoolMC.tla", "MempoolMC_timed.cfg", 14, 1200)]
        return [("MempoolMC.tla", "MempoolMC.cfg", 8, 900)]

    def rule(self, prop):
        if prop == "C18":
            return ("traces = model-guided random walks of MempoolGen.tla (tlc -simulate) + seeded random plans of the Go driver, "
                    "executed on the real pool; non-trivial = at least one non-empty batch was handed out; distinct by event sequence")
        return ("same traces as C18; non-trivial = the trace contains a commit of a held transaction or an age eviction "
                "or a superseding transaction; distinct by event sequence")

    def nontrivial(self, events, prop):
        if prop == "C18":
            return any(e.get("out", {}) and isinstance(e.get("out"), dict) and e["out"].get("ok") and e["out"].get("txs") for e in events)
        return any(e["ev"] in ("Commit", "RemoveAged") for e in events)

    def _run_adapter(self, ctx, args, outdir):
        r = subprocess.run([ctx.bin] + args + ["-out", outdir], stdout=subprocess.PIPE, stderr=subprocess.STDOUT, timeout=1800)
        if r.returncode != 0:
            raise Infra("mempooladp failed: " + r.stdout.decode()[-2000:])
        out = []
        for f in sorted(glob.glob(os.path.join(outdir, "trace-*.ndjson"))):
            pf = f.replace("trace-", "plan-").replace(".ndjson", ".json")
            plan = json.load(open(pf))
            out.append({"file": f, "plan": plan, "name": plan.get("name")})
        return out

    def gen_and_run(self, ctx, prop, tier):
        n_model, n_rand, n_long = (300, 300, 20) if tier == "quick" else (4000, 3000, 300)
        traces = []
        # (a) model-guided
        plans = []
        for i, (cfg, depth) in enumerate((("MempoolGen.cfg", 14), ("MempoolGen_timed.cfg", 14))):
            ps = tlc_simulate_plans(ctx.sdir, "MempoolGen.tla", cfg, n_model // 2, depth, ctx.seed * 10 + i)
            c = {l.split("=")[0].strip(): l.split("=")[1].strip() for l in open(os.path.join(ctx.sdir, cfg)) if "=" in l}
            accounts = len(c["Accounts"].strip("{}").split(","))
            for j, ops in enumerate(ps):
                plans.append({"name": "model-%d-%d-%d" % (ctx.seed, i, j), "accounts": accounts, "batchSize": int(c["BatchSize"]),
                              "timed": c["Timed"] == "TRUE", "ledger": [0] * accounts, "ops": ops})
        pf = os.path.join(ctx.dir, "plans.json")
        json.dump(plans, open(pf, "w"))
        for t in self._run_adapter(ctx, ["-plans", pf], os.path.join(ctx.dir, "t-model")):
            t["src"] = "model"
            traces.append(t)
        # (b) wide-domain random
        for t in self._run_adapter(ctx, ["-n", str(n_rand), "-seed", str(ctx.seed)], os.path.join(ctx.dir, "t-rand")):
            t["src"] = "random"
            traces.append(t)
        for t in self._run_adapter(ctx, ["-n", str(n_long), "-seed", str(ctx.seed + 7919), "-long"], os.path.join(ctx.dir, "t-long")):
            t["src"] = "random-long"
            traces.append(t)
        return traces

    def rerun(self, ctx, plan):
        d = tempfile.mkdtemp(prefix="rerun-", dir=ctx.dir)
        pf = os.path.join(d, "plans.json")
        json.dump([plan], open(pf, "w"))
        ts = self._run_adapter(ctx, ["-plans", pf], d)
        if not ts:
            raise Infra("re-run produced no trace")
        return ts[0]["file"]


FAMILY = Mempool()
