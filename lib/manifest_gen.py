#!/usr/bin/env python3
"""Regenerates /verif/MANIFEST.json from the table below (keeps it schema-valid)."""
import json, os, subprocess
V = os.path.dirname(os.path.dirname(os.path.abspath(__file__)))
ALL = ["C%02d" % i for i in range(1, 21)]

CHECKS = {
 "C18": dict(engine="Mempool", design_ref="DESIGN.md §3.1, §5 C18",
   text="Mempool.tla (the pool as step functions in the structure of mempool_impl.go/tx_store.go) is model checked exhaustively by TLC within small bounds for the six C18 clauses; the real pool is then driven by TLC-generated walks (MempoolGen.tla, tlc -simulate) and seeded random plans, every step's returned batch, API answers and internal indices (verif hook) are recorded, and TLC validates the traces against MempoolTrace.tla evaluating the same C18 formulas on the observed behaviour at every step.",
   note="trusted: TLC, the decoding in harness/cmd/mempooladp, the read-only hook mempool.VerifState; real-code coverage is the generated traces, not all histories",
   technique="TLA+ spec + TLC exhaustive MC; TLC-generated behaviours replayed on the real pool; TLC trace validation"),
 "C19": dict(engine="Mempool", design_ref="DESIGN.md §3.1, §5 C19",
   text="Same specification and traces as C18; the C19 clauses (no silent loss, eviction only of non-ready transactions, pending work reported, pending nonce exact) are invariants of the model (TLC, exhaustive within bounds) and are evaluated by TLC on every observed state of every real trace.",
   note="trusted: TLC, harness decoding, hook; age eviction exercised through real-time gaps between arrival groups (unreliable timings are discarded, never judged)",
   technique="TLA+ spec + TLC exhaustive MC; TLC-generated behaviours replayed on the real pool; TLC trace validation"),
}
NOT_YET = "check not built yet (work in progress; see DESIGN.md build order)"

def main():
    hooks = subprocess.run(["git", "-C", "/repo", "log", "--format=%H %s"], stdout=subprocess.PIPE).stdout.decode().splitlines()
    hook_commits = [l.split()[0] for l in hooks if l.split(" ", 1)[1].startswith("verif hook")]
    m = {"version": 1, "setup_cmd": "bin/vsetup",
         "hooks": {"guard": "verif", "enable": "go build -tags verif (harness/cmd/* are built by each check from /repo's working tree)",
                   "baseline_off_cmd": "cd /repo && GOFLAGS=-mod=mod go test -vet=off -count=1 -timeout 25m ./internal/ledger/... ./internal/model/... ./internal/repo/... ./pkg/order/ ./pkg/order/mempool/... ./pkg/ratelimiter/... ./pkg/vm/wasm/...",
                   "source_commits": hook_commits, "add_only": True},
         "engines": [], "checks": [], "not_applicable": [],
         "notes": "Every check: bin/vcheck <id> --tier quick|thorough. Exit 0 held / 1 + VIOLATION line / 2 infrastructure. Known findings: known_findings.json. Seeded changes used to test the checks: seeded/."}
    engines = {}
    for pid in ALL:
        if pid in CHECKS:
            c = CHECKS[pid]
            engines.setdefault(c["engine"], []).append(pid)
            m["checks"].append({"property_id": pid, "quick_cmd": "bin/vcheck %s --tier quick" % pid,
                                "thorough_cmd": "bin/vcheck %s --tier thorough" % pid,
                                "evidence_file": "/verif/evidence/%s.json" % pid,
                                "replay_cmd_template": "bin/vcheck replay {path}", "engine": c["engine"],
                                "level_claimed": {"category": c.get("category", "model_checking"), "text": c["text"], "design_ref": c["design_ref"]},
                                "level_note": c["note"], "technique": c["technique"]})
        else:
            m["not_applicable"].append({"property_id": pid, "reason": NOT_YET})
    for e, ps in engines.items():
        m["engines"].append({"name": e, "path": "spec/%s.tla + spec/%sTrace.tla + lib/fam_%s.py + harness/cmd" % (e, e, e.lower()),
                             "serves_properties": ps, "kind_free_text": "TLA+ specification, TLC model checking and trace validation, Go conformance harness"})
    json.dump(m, open(os.path.join(V, "MANIFEST.json"), "w"), indent=1)
main()
