#!/usr/bin/env python3
"""Regenerates /verif/MANIFEST.json from the table below (keeps it schema-valid)."""
import json, os, subprocess
V = os.path.dirname(os.path.dirname(os.path.abspath(__file__)))
ALL = ["C%02d" % i for i in range(1, 21)]

CHECKS = {
 "C18": dict(engine="Mempool", design_ref="DESIGN.md §3.1, §5 C18",
   text="Mempool.tla (the pool as step functions in the structure of mempool_impl.go/tx_store.go) is model checked exhaustively by TLC within small bounds for the six C18 clauses; the real pool is then driven by TLC-generated walks (MempoolGen.tla, tlc -simulate) and seeded random plans, every step's returned batch, API answers and internal indices (verif hook) are recorded, and TLC validates the traces against MempoolTrace.tla evaluating the same C18 formulas on the observed behaviour at every step.",
   note="trusted: TLC, the decoding in harness/cmd/mempooladp, the read-only hook mempool.VerifState; real-code coverage is the generated traces, not all histories",
   technique="TLA+ spec + TLC exhaustive MC; TLC-generated behaviours replayed on the real pool; TLC trace validation"),
 "C19": dict(engine="Mempool", design_ref="DESIGN.md §3.1, §5 C19",
   text="Same specification and traces as C18; the C19 clauses (no silent loss, eviction only of non-ready transactions, pending work reported, pending nonce exact) are invariants of the model (TLC, exhaustive within bounds) and are evaluated by TLC on every observed state of every real trace.",
   note="trusted: TLC, harness decoding, hook; age eviction exercised through real-time gaps between arrival groups (unreliable timings are discarded, never judged)",
   technique="TLA+ spec + TLC exhaustive MC; TLC-generated behaviours replayed on the real pool; TLC trace validation"),
 "C13": dict(engine="StateLedger", design_ref="DESIGN.md §3.2, §5 C13",
   text="StateLedger.tla holds a layered model of the state ledger (dirty set, per-block origin cache, account cache, database, state changer, block journals) and a flat property-level ghost; TLC checks exhaustively within small bounds that every possible read, prefix query, revert and rollback of the layered model answers like the ghost. The real SimpleLedger on leveldb is driven by seeded op plans (transaction-shaped snapshot/write/revert/finalise groups, AddState, balances, code, flush/commit, reopen, rollback) and TLC validates the recorded answers against the ghost (verdict) and the layered model (drift) at every step. The found flag a read returns next to the value is part of the model (empty values are carried through the layers, SFound): StateLedgerMC checks Inv_C13_StableExistence (reopening a ledger with nothing uncommitted changes no found flag; violated with FoundFix = FALSE) and on traces C13_StableExistence compares the flag of every read with the previous read of the same slot while only reads, Flush, Commit and Reopen happened in between.",
   note="trusted: TLC, harness/cmd/ledgeradp decoding (nil and empty values conflated); account-cache eviction not reachable (compile-time LRU sizes)",
   technique="TLA+ spec + TLC exhaustive MC of layered model vs. ghost; TLC trace validation of the real ledger"),
 "C12": dict(engine="StateLedger", design_ref="DESIGN.md §3.2, §5 C12",
   text="Same specification; C12_RollbackRestores / C12_Accepted / C12_Refused / C12_Version are checked by TLC on the model (rollback gate and database-at-head invariants) and on real traces that build chains crossing the 10-block journal window, roll back to every kind of target (inside, at the edge of, below the window, higher), continue differently and read everything back, with reopen in between.",
   note="trusted: TLC, harness decoding; the check runs the StateLedger family and then the ChainLedger family (C12_RefusedNoChange for the combined Ledger.Rollback: a refused rollback leaves the full audit and the chain meta unchanged)",
   technique="TLA+ spec + TLC exhaustive MC; TLC trace validation of the real ledger"),
 "C10": dict(engine="StateLedger", design_ref="DESIGN.md §3.2, §5 C10",
   text="The ghost carries an injective symbolic root (sequence of per-block change sets); on real traces TLC maintains the relation symbolic-root <-> real hash over ALL traces of a run and checks that it is functional (order / cache / reopen / revert-detour independence) and injective (sensitivity to any single changed value, balance, nonce, code, added or dropped key), using families of histories that realise the same or a minimally different change set.",
   note="trusted: TLC, harness decoding, SHA-256 collision resistance; no-op overwrites are not judged; tx/receipt roots are checked in the ChainLedger family (recomputation) and Replicas family",
   technique="TLA+ symbolic-root ghost; TLC trace validation over families of real histories"),
 "C07": dict(engine="Exec", design_ref="DESIGN.md §3.7, §5 C07",
   text="Exec.tla states C07 over observed blocks; the real executor (ledger+genesis+BlockExecutor in-process) executes seeded random blocks of every transaction kind while a sibling node executes the same blocks without the transactions that failed: TLC checks on every block that the state-store keys in which the two nodes differ are only the failed senders' and the admins' account records, that no failed transaction is announced as a valid delivery, and that view execution changes neither state nor chain meta.",
   note="trusted: TLC, harness/core + harness/cmd/execadp decoding, determinism of the sibling node (checked: setups must be equal); EVM transactions not generated",
   technique="TLA+ property formulas; differential real-code traces validated by TLC"),
 "C08": dict(engine="Exec", design_ref="DESIGN.md §3.7, §5 C08",
   text="The contract surface is enumerated by reflection on the live registered contracts (572 methods incl. promoted ones) and crossed with argument-shape classes; raw payload mutations, XVM, bad signatures, Stub method names are added. Every submitted block must come back with one receipt per transaction in order at the next height; a dead or wedged node (adapter process death, 60 s) is recorded as an event that violates C08_Alive. TLC validates every trace.",
   note="trusted: TLC, harness; byte-level space sampled; transactions outside the admission domain (nil From/To) are not generated",
   technique="TLA+ property formulas; structure-enumerated + random real-code traces validated by TLC"),
 "C14": dict(engine="Exec", design_ref="DESIGN.md §3.7, §5 C14",
   text="ExecMC.tla model-checks the value-movement design (transfer, fee, pay-left-as-fee, admin split) exhaustively for small balances: no creation, rounding loss < #admins per transaction, no negative balance. On real traces TLC checks per block that the sum of all account balances does not increase, no balance is negative, the loss is bounded by (#admins-1) per transaction, and on single-transaction blocks that a transfer moves exactly the stated amount / a failed one leaves the receiver untouched (amounts 0, 1, exact balance, balance+1, 2^63, 1e40, non-numeric, negative; self / admin / contract receivers; senders around each fee level; 3, 4 and 9 admins).",
   note="trusted: TLC, harness decoding; documented admin grants are exercised in the Governance family",
   technique="TLA+ spec + TLC exhaustive MC; TLC trace validation of the real executor"),
 "C02": dict(engine="Interchain", design_ref="DESIGN.md §3.5, §5 C02",
   text="Interchain.tla is the protocol machine of IBTP handling (acceptance rule, counters, one-to-one and grouped transaction records, expiry at block end), model-checked exhaustively over bounded request / receipt / empty-block sequences. The real executor runs seeded interchain scenarios on a lockstep node pair; TLC binds acceptance to each receipt, judges every accepted IBTP (C02_InOrder, C02_ReceiptInOrder, C02_ReceiptAfterRequest), and after every block compares the four observed counters of every service with the machine (C02_CountersEqualHistory) and the block's delivery metadata with the accepted requests (C02_DeliveredOnce, C02_DeliveredOnlyAccepted); rejected IBTPs must leave no state delta (C07 formulas on the same traces).",
   note="trusted: TLC, harness/core + interadp decoding; other-BitXHub traffic only as unavailable destination / rejected source; unordered (batch) destinations excluded from the order clause; judged on ordered pairs (for an unordered destination the mirrored counter records the last index by design); cross-hub pairs included",
   technique="TLA+ protocol machine + TLC exhaustive MC; TLC trace validation of the real executor"),
 "C03": dict(engine="Interchain", design_ref="DESIGN.md §3.5, §5 C03",
   text="Interchain.tla decides every proof itself (ProofOK): an IBTP is proven by the hub its category points at; on this hub the proof bytes must hash to the committed value and satisfy the rule bound to the appchain (observed: the stored rule whose status is available; RuleOK for the accept-all rule and for the real simplified-Fabric rule over logged artifact labels: index, chaincode, call, signature validity, endorser vs registered trust root); on another BitXHub more than (n-1)/3 DISTINCT REGISTERED validators must have signed this very ibtp and status (MsOK over logged signer labels). The harness builds real secp256k1 multi-signature proofs and real endorsed Fabric artifacts; an accepted IBTP whose proof the specification rejects violates C03_Gate / C03_MultiSign; a failed one must leave no state delta beyond nonce and fee (sibling-node diff); direct invocations of HandleIBTPData and of the transaction-manager entry points by external accounts must not change counters, records or delivery metadata. InterchainXMC.tla model-checks the machine between two hubs with the threshold restated in rational arithmetic (3*signers > n-1).",
   note="trusted: TLC, harness labelling of proofs (who signed what); WASM rules not deployed; a replaced trust root / validator set never verifies in this code base (approved UpdateAppchain stores base64 text, fail-closed), so only the reject side of replaced sets is exercised",
   technique="TLA+ protocol machine gating clause; TLC trace validation of the real executor"),
 "C04": dict(engine="Interchain", design_ref="DESIGN.md §3.5, §5 C04",
   text="The status machine (NextStatus) is part of Interchain.tla; TLC checks C04_Step and C04_FinalStable as action properties over all bounded sequences incl. receipts in the expiry block and after final states. On real traces every accepted receipt must be a legal transition (C04_Step) and the status query of every id ever submitted must equal the machine's status after every block (C04_QueryAgrees), with timed scenarios placing each receipt type before, at and after H+T.",
   note="trusted: TLC, harness; inter-BitXHub requests, receipts and begin-failure / rollback notices are driven (xhub scenarios); the status carried by a notice to the source hub is not covered by any proof in this code base (observation in DESIGN.md 11.2)",
   technique="TLA+ action properties checked by TLC; TLC trace validation of the real executor"),
 "C05": dict(engine="Interchain", design_ref="DESIGN.md §3.5, §5 C05",
   text="Groups are part of the protocol machine; TLC checks C05_SuccessOnlyIfAll, C05_NeverSuccessAfterFailure, C05_AllChildrenFail on all bounded sequences of a two-child group. On real traces the stored group record (global state and every child's status) must equal the machine after every block (C05_GroupState), and when a group expires the block's timeout metadata must list every child under the source chain and every already succeeded child under its destination chain (C05_NotifyInSameBlock).",
   note="trusted: TLC, harness; notification lists of failure-by-receipt (MultiTxCounter) are compared between replicas (C01) but not yet against the machine",
   technique="TLA+ invariants checked by TLC; TLC trace validation of the real executor"),
 "C06": dict(engine="Interchain", design_ref="DESIGN.md §3.5, §5 C06",
   text="Expiry is the EndBlock step of the machine; TLC checks C06_FiresAt / C06_NoLateBegin (a BEGIN transaction is rolled back exactly in block H+T) over all bounded sequences. On real traces, after every block, exactly the transactions that expire in this block must be BEGIN_ROLLBACK and be listed once under their source chain in the block's timeout metadata, nothing else may be listed (C06_OnlyExpired), receipts accepted up to and including H+T prevent it, T=0 and huge T never expire; the same for groups (C06_GroupFiresAt); restarts are placed between H and H+T.",
   note="trusted: TLC, harness; one known finding: requests to an unordered destination register no timeout by design",
   technique="TLA+ action properties checked by TLC; TLC trace validation of the real executor"),
 "C16": dict(engine="Interchain", design_ref="DESIGN.md §3.5/3.6, §5 C16",
   text="Gating half: services and appchains are frozen / activated / logged out through real proposals and votes between IBTP traffic and restarts; an accepted request whose source service is not available violates C16_SourceAvailable, and the begin-failure decision must equal the destination gate (exists and available; for another BitXHub: registered and available relay chain) (C16_DestGate); an approved freeze or logout of an appchain must leave none of its services usable (C16_ChainFreezeStopsServices). Lifecycle half: Lifecycle.tla transcribes the status machines of appchains (incl. relay chains) and services from the fsm.Events tables; after every block the status of every appchain and service is compared with the previous block: a change without a governance-capable transaction in the block, a change that is not an edge of the machine (blocks with one such transaction), or a logged-out object coming back violate C16_Lifecycle / C16_LoggedOutForever; lifecycle scenarios interleave registration, update, freeze, activate, logout proposals (approved / rejected, concluded in interleaved orders) of chains and services.",
   note="trusted: TLC, harness; status machines of rules, roles and nodes are not transcribed (rules: only which rule is bound is observed; roles: C15); blacklist permission not driven yet",
   technique="TLA+ protocol machine gating clauses; TLC trace validation of the real executor"),
 "C01": dict(engine="Replicas", design_ref="DESIGN.md §3.8, §5 C01",
   text="Replicas.tla states agreement; ReplicasMC enumerates all placements of stop / start / view steps of 3 replicas over a chain. Every interchain scenario (random, group-heavy, timed; IBTP one-to-one and grouped, governance, transfers, failing transactions) is executed on a reference node and three perturbed real replicas (restart before every block + parallel proof goroutines; serial + view execution before every block; reopen right after genesis + random restarts), all fed byte-identical blocks; TLC compares block hash, parent, state / tx / receipt / timeout roots, every receipt and the ordered delivery / timeout / multi-tx metadata of every height. Scenarios include inter-BitXHub traffic with real multi-signature proofs, Fabric-rule scenarios and unordered services; on the first divergence of a replica's state root the stored entries that differ are logged (diagnosis, not judged).",
   note="trusted: TLC, harness digest; map-iteration order and goroutine schedules are sampled by repetition; XVM/EVM transactions not in the corpus",
   technique="TLA+ agreement spec; multi-replica real-code traces validated by TLC"),
 "C20": dict(engine="Ordering", design_ref="DESIGN.md §3.9, §5 C20; spec/Ordering.README.md",
   text="Ordering.tla models what bitxhub adds on top of etcd/raft (lastExec, applied index, height->index map, durable applied key, batch sequence, snapshots, reports in any order, crash / restart / snapshot install) and solo; TLC checks the five C20 formulas exhaustively for 1, 2 and 3 replicas. SyncRange.tla transcribes calcRangeHeight and every model case is executed on the real function. Real solo.NewNode, etcdraft.NewNode x1 and x3 (in-memory peer manager with drop / duplicate / delay / partition, scripted executor and crash points) produce per-node delivery traces that TLC validates against the same formulas.",
   note="trusted: TLC, etcd/raft + WAL + leveldb, harness/cmd/orderadp; 3-node interleavings are sampled in real time; two known findings listed",
   technique="TLA+ spec + TLC exhaustive MC; real raft/solo node traces validated by TLC"),
 "C09": dict(engine="ChainLedger", design_ref="DESIGN.md §3.3, §5 C09; spec/ChainLedger.README.md",
   text="ChainLedger.tla models the block file and the chain index (by height, by hash, tx set, tx meta, chain meta) with Persist / Rollback / Reopen; TLC checks hash linkage, index agreement, meta agreement and nothing-above-after-rollback exhaustively within small bounds. The real ledger.Ledger is driven with synthetic blocks (empty, many and duplicate-looking transactions, interchain-heavy) and with chains produced by the real executor incl. its own rollback / re-execute path; after every Persist / Rollback / Reopen a full audit of every lookup for every height, block hash and tx hash ever stored is logged, header hash and both Merkle roots are recomputed independently from the stored data, and TLC validates the audits.",
   note="trusted: TLC, harness/cmd/chainadp (audit decoding, independent hash recomputation)",
   technique="TLA+ spec + TLC exhaustive MC; TLC trace validation of full audits of the real ledger"),
 "C11": dict(engine="Persist", design_ref="DESIGN.md §3.4, §5 C11; spec/Persist.README.md",
   text="Persist.tla has one action per durable write of a block commit (state batch, index batch, five block-file tables, journal pruning), Crash at any point, Recover, Continue; TLC proves the five C11 clauses for the intended recovery and enumerates ALL reachable crash states (144 over five height classes). Every crash state is rebuilt on a copy of a really committed ledger (dropped batches, truncated table files, plus a probe of the writes the real code actually issues), the real blockfile.NewBlockFile + ledger.New + continuation run in a child process, and TLC validates Crash -> Recover -> Continue traces.",
   note="trusted: TLC, harness/cmd/crashadp; atomicity of one leveldb batch / one table append delegated to leveldb / blockfile; three known findings pinned by (height class, exact set of durable writes)",
   technique="TLA+ spec + TLC exhaustive crash-state enumeration; every model crash state replayed on the real ledger; TLC trace validation"),
 "C15": dict(engine="Governance", design_ref="DESIGN.md §3.6, §5 C15",
   text="Governance.tla is the proposal machine (eligible administrators fixed at creation, one ballot per distinct eligible available administrator, conclusion by repo.MakeStrategyDecision, special proposals need a super administrator's vote, finality); TLC explores all vote orders (approve / reject / garbage / repeated / outsider, electors becoming unavailable) for five strategy expressions. Real scenarios submit proposals of several kinds and priorities through the real contracts, vote with admins, outsiders, frozen and re-activated admins, withdraw, restart; TLC judges every accepted vote (C15_RefusedVotes, C15_OneVotePerAdmin) and every proposal record after every block (tallies, electorate, C15_ApprovedOnlyByRule, C15_RejectedOnlyIfUnreachable, C15_SpecialNeedsSuper, C15_Final).",
   note="trusted: TLC, harness; effect-applied-exactly-once on the governed object is only checked through the object status in the interchain scenarios, not counted",
   technique="TLA+ proposal machine + TLC exhaustive MC; TLC trace validation of the real governance contracts"),
 "C17": dict(engine="Interchain", design_ref="DESIGN.md §3.6, §5 C17; spec/Surface.tla",
   text="Surface.tla classifies the contracts' entry points (Internal: contract-to-contract only; Privileged: chain admin / governance admin only); its domain is regenerated at every run by reflection on the live registered contracts (572 methods incl. promoted ones). On a live context (accepted and finished IBTPs, an open proposal, a chain whose id differs from another only in letter case) every method is invoked directly by an outsider, by admins of other chains and by a governance admin with well-typed arguments drawn from live ids (also well-formed IBTP / BitXHub-proof bytes), with free gas so that no call fails for lack of funds; TLC checks C17_InternalOnly, C17_Privileged and, on blocks of unprivileged calls, that counters and transaction records are unchanged (C17_NoForeignDelete); failed calls must leave no state delta (C07 formulas, sibling node).",
   note="trusted: TLC, harness, the classification table (methods outside both sets are exercised under the generic formulas only); argument vectors are sampled",
   technique="TLA+ classification + formulas; reflected-surface real-code traces validated by TLC"),
}
NOT_YET = "check not built yet (work in progress; see DESIGN.md build order)"

def main():
    hooks = subprocess.run(["git", "-C", "/repo", "log", "--format=%H %s"], stdout=subprocess.PIPE).stdout.decode().splitlines()
    hook_commits = [l.split()[0] for l in hooks if l.split(" ", 1)[1].startswith("verif hook")]
    m = {"version": 1, "setup_cmd": "bin/vsetup",
         "hooks": {"guard": "verif", "enable": "go build -tags verif (harness/cmd/* are built by each check from /repo's working tree)",
                   "baseline_off_cmd": "cd /repo && GOFLAGS=-mod=mod go test -vet=off -count=1 -timeout 25m ./internal/ledger/... ./internal/model/... ./internal/repo/... ./pkg/order/ ./pkg/order/mempool/... ./pkg/ratelimiter/... ./pkg/vm/wasm/...",
                   "source_commits": hook_commits, "add_only": True},
         "engines": [], "checks": [], "not_applicable": [],
         "notes": "Every check: bin/vcheck <id> --tier quick|thorough. Exit 0 held / 1 + VIOLATION line / 2 infrastructure. Known findings: known_findings.json. Seeded changes used to test the checks: seeded/."}
    engines = {}
    for pid in ALL:
        if pid in CHECKS:
            c = CHECKS[pid]
            engines.setdefault(c["engine"], []).append(pid)
            m["checks"].append({"property_id": pid, "quick_cmd": "bin/vcheck %s --tier quick" % pid,
                                "thorough_cmd": "bin/vcheck %s --tier thorough" % pid,
                                "evidence_file": "/verif/evidence/%s.json" % pid,
                                "replay_cmd_template": "bin/vcheck replay {path}", "engine": c["engine"],
                                "level_claimed": {"category": c.get("category", "model_checking"), "text": c["text"], "design_ref": c["design_ref"]},
                                "level_note": c["note"], "technique": c["technique"]})
        else:
            m["not_applicable"].append({"property_id": pid, "reason": NOT_YET})
    for e, ps in engines.items():
        m["engines"].append({"name": e, "path": "spec/%s.tla + spec/%sTrace.tla + lib/fam_%s.py + harness/cmd" % (e, e, e.lower()),
                             "serves_properties": ps, "kind_free_text": "TLA+ specification, TLC model checking and trace validation, Go conformance harness"})
    json.dump(m, open(os.path.join(V, "MANIFEST.json"), "w"), indent=1)
main()
