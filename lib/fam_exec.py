import json, os, subprocess
from vlib import *


def run_adapter_resilient(binpath, args, outdir, env, what, max_restarts=100000):
    """run an executor adapter that may be killed by the node under test: a dead adapter = the node crashed
    while executing a block; the unfinished trace gets a synthetic Crashed event and the run resumes."""
    start, restarts = 0, 0
    while True:
        r = subprocess.run([binpath] + args + ["-out", outdir, "-start", str(start)], stdout=subprocess.PIPE,
                           stderr=subprocess.DEVNULL, timeout=3000, env=env)
        done = [int(l.split()[1]) for l in r.stdout.decode().splitlines() if l.startswith("done ")]
        if r.returncode == 0:
            return restarts
        last = (max(done) + 1) if done else start
        tf = os.path.join(outdir, "trace-%05d.ndjson" % last)
        if not os.path.exists(tf):
            raise Infra("%s died before writing a trace (rc=%d)" % (what, r.returncode))
        if os.path.getsize(tf) == 0:
            raise Infra("%s died while setting up its scenario (before the first trace event): the driver cannot run on this tree (rc=%d)" % (what, r.returncode))
        with open(tf, "a") as f:
            f.write(json.dumps({"ev": "Crashed", "rc": r.returncode}) + "\n")
        restarts += 1
        start = last + 1
        if restarts > max_restarts:
            raise Infra("%s keeps dying" % what)


def collect(outdir):
    out = []
    for f in sorted(glob.glob(os.path.join(outdir, "trace-*.ndjson"))):
        pf = f.replace("trace-", "plan-").replace(".ndjson", ".json")
        if not os.path.exists(pf):
            continue
        plan = json.load(open(pf))
        out.append({"file": f, "plan": plan, "name": plan.get("name")})
    return out


class Exec(Family):
    name = "Exec"
    props = ["C07", "C08", "C14", "C10"]
    adapter = "execadp"
    trace_module = "ExecTrace.tla"
    trace_cfg = "ExecTrace.cfg"
    assumptions = [
        "C07 attribution: a sibling node executes the same blocks without the transactions that failed; every state-store key that differs must be the failed sender's account record or an admin's; if a non-failed receipt differs between the two nodes the rest of the trace is not judged (counted)",
        "C08 input domain: transactions with non-nil From/To/hash and a (valid or invalid) signature, as admission lets through; byte-level payload space is sampled, the contract-method x argument-shape space is enumerated by reflection on the live contracts",
        "C14: harness genesis balance 1e8 per admin and gas price 1 so that all balances fit TLC integers; per-transaction exactness is judged on single-transaction blocks, sums on every block",
        "a dead adapter process is an observation (node crash), a block not executed within 180 s counts as wedged; a liveness observation that does not come back in three re-runs of the same inputs is reported as UNREPRODUCED and recorded here, not judged",
    ]

    def mc_runs(self, prop, tier):
        return [("ExecMC.tla", "ExecMC_thorough.cfg" if tier == "thorough" else "ExecMC.cfg", 8, 1200)]

    def rule(self, prop):
        return {"C07": "(a third of the plans mixes in, and eth-focused plans consist of, Ethereum-style transactions executed by the EVM: transfers, creation of a storage contract, calls that store / revert / run out of gas, messages rejected for nonce, funds, intrinsic gas or uncovered value, each EVM-failing transaction from an account of its own so that the sibling node stays in step) seeded random block plans over all transaction kinds (transfers with extreme amounts, every reflected contract method with exact/short/long/wrong-typed/malformed arguments, Stub method names, raw payload mutations, XVM, bad signatures, poor senders around each fee level), 1-5 txs per block, view executions, restarts; non-trivial = block with a FAILED receipt whose state delta against the sibling node was attributable; distinct by (contract, method, class, position)",
                "C08": "same plans; non-trivial = executed block containing a transaction that is not a well-formed transfer; distinct by (kind, class, contract, method)",
                "C10": "root pairs: two identical real nodes execute the same 2-5 transfers in the same / a permuted order, finally with one perturbed transaction; tx root, receipt root and state root of both blocks are compared; non-trivial = a permuted or perturbed pair; distinct by (mode, size)",
                "C14": "same plans plus value-focused plans; non-trivial = block with a transfer or fee payment whose balances were checked; distinct by (amount kind, self/admin/contract receiver, status, ret class)"}[prop]

    def nontrivial(self, events, prop):
        for e in events:
            if e["ev"] != "Block":
                continue
            if prop == "C07" and e.get("failed") and e.get("attributable"):
                return True
            if prop == "C08" and any(t["k"] != "transfer" for t in e["txs"]):
                return True
            if prop == "C14" and any(t["k"] == "transfer" for t in e["txs"]):
                return True
        if prop == "C10":
            return any(e["ev"] == "RootPair" and e["mode"] != "same" for e in events)
        return False

    def gen_and_run(self, ctx, prop, tier):
        q = tier == "quick"
        n = 150 if q else 3000
        env = dict(os.environ, TMPDIR=ctx.dir)
        traces = []
        self.restarts = 0
        runs = (("", n), ("value", n // 3 if prop != "C14" else n), ("eth", n // 3))
        if prop == "C10":
            runs = (("roots", 40 if q else 1500),)
        for i, (focus, cnt) in enumerate(runs):
            od = os.path.join(ctx.dir, "t-%d" % i)
            args = ["-n", str(cnt), "-seed", str(ctx.seed * 7 + i)] + (["-focus", focus] if focus else [])
            self.restarts += run_adapter_resilient(ctx.bin, args, od, env, "execadp")
            for t in collect(od):
                t["src"] = "random" + ("-" + focus if focus else "")
                traces.append(t)
        return traces

    def rerun(self, ctx, plan):
        d = tempfile.mkdtemp(prefix="rerun-", dir=ctx.dir)
        pf = os.path.join(d, "plans.json")
        json.dump([plan], open(pf, "w"))
        run_adapter_resilient(ctx.bin, ["-plans", pf], d, dict(os.environ, TMPDIR=ctx.dir), "execadp")
        ts = collect(d)
        if not ts:
            raise Infra("re-run produced no trace")
        return ts[0]["file"]


FAMILY = Exec()
