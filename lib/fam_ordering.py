import json, os, re, subprocess
from vlib import *


class Ordering(Family):
    """C20: Ordering.tla (+ SyncRange.tla) / harness cmd/orderadp (real solo.NewNode, etcdraft.NewNode x1 and x3 in one
    process over an in-memory peer manager, syncer.StateSyncer)."""
    name = "Ordering"
    props = ["C20"]
    adapter = "orderadp"
    trace_module = "OrderingTrace.tla"
    trace_cfg = "OrderingTrace.cfg"
    assumptions = [
        "etcd/raft, its WAL and snapshot files, and leveldb are trusted; in the model they are one growing committed log, per-leader uncommitted proposals lost on a leader change, and a durable replay position per node",
        "crash = Stop() + wait until the node's loop is gone + close WAL and database + discard the node object; restart = NewNode on the same directory in the same process (verif hooks VerifStopped/VerifClose/VerifResetRestartFlag); the crash instant relative to raft-internal writes is whatever the schedule gives, the instant relative to delivery / execution / report (the states the property names) is scripted exactly",
        "the executor is a stub: it consumes Commit(), 'executes' (appends to its durable ledger) and calls ReportState under a scripted policy (delay, out of order, never); its ledger answers block-fetch requests and account nonces",
        "observation = what each node's executor received from Commit(), per node in order; events of different nodes are never ordered by time; batch identity = hash of (timestamp, transaction hashes)",
        "a scenario step that times out ends the scenario; the trace recorded so far is still validated (facts only). A replica that silently stops delivering (wedge) is therefore not a verdict by itself: it is visible only if some replica later hands a different batch to that height",
        "C20_TxOnce is judged on each replica's effective chain (deliveries discarded by a crash before execution do not count)",
        "3-node scenarios are scripted with real-time waits; their interleavings are sampled, not enumerated (the bounded model is enumerated by TLC)",
    ]

    def mc_runs(self, prop, tier):
        if tier == "thorough":
            return [("SyncRangeMC.tla", "SyncRangeMC.cfg", 4, 300), ("OrderingSoloMC.tla", "OrderingSoloMC.cfg", 8, 600),
                    ("OrderingMC.tla", "OrderingMC_thorough1.cfg", 12, 1500), ("OrderingMC.tla", "OrderingMC_thorough2.cfg", 12, 3000),
                    ("OrderingMC.tla", "OrderingMC_thorough3.cfg", 12, 3400)]
        return [("SyncRangeMC.tla", "SyncRangeMC.cfg", 4, 300), ("OrderingSoloMC.tla", "OrderingSoloMC.cfg", 8, 300),
                ("OrderingMC.tla", "OrderingMC_single.cfg", 8, 600), ("OrderingMC.tla", "OrderingMC_pair.cfg", 8, 600),
                ("OrderingMC.tla", "OrderingMC.cfg", 8, 600)]

    def rule(self, prop):
        return ("traces = (1) every (begin,end,fetch) of the bounded grid and a seeded sample of large values through the real calcRangeHeight "
                "and through SyncCFTBlocks with a recording peer manager; (2) seeded scripts on real solo / 1-node raft / 3-node raft: "
                "deliver^k, execute^e, reports (subset, any order), crash, restart, resubmission, message drop/dup/delay, leader isolation, "
                "leader/follower/whole-cluster crash, follower behind a snapshot (block fetch). non-trivial = the trace contains a delivery "
                "after a restart or after a fault action, or a synchronisation call; distinct by event sequence")

    def nontrivial(self, events, prop):
        seen = False
        for e in events:
            if e["ev"] in ("SyncCalc", "SyncRun"):
                return True
            if e["ev"] in ("Restart",) or (e["ev"] == "Net" and e.get("fault")):
                seen = True
            if seen and e["ev"] == "Deliver":
                return True
        return False

    # ---- harness runs ----------------------------------------------------------------------------------
    def _collect(self, outdir):
        out = []
        for f in sorted(glob.glob(os.path.join(outdir, "trace-*.ndjson"))):
            plan = json.load(open(f.replace("trace-", "plan-").replace(".ndjson", ".json")))
            out.append({"file": f, "plan": plan, "name": plan.get("name"), "src": plan.get("mode")})
        return out

    def _spawn(self, ctx, args, outdir):
        env = dict(os.environ, TMPDIR=ctx.dir)
        return subprocess.Popen([ctx.bin] + args + ["-out", outdir], stdout=subprocess.PIPE, stderr=subprocess.DEVNULL, env=env)

    def _finish(self, procs, timeout):
        stats = {"plans": 0, "discarded": 0, "incomplete": 0}
        for p in procs:
            try:
                so, _ = p.communicate(timeout=timeout)
            except subprocess.TimeoutExpired:
                p.kill()
                raise Infra("orderadp timed out")
            so = so.decode(errors="replace")
            if p.returncode != 0:
                raise Infra("orderadp failed: " + so[-2000:])
            m = re.search(r"ORDERADP plans=(\d+) discarded=(\d+)", so)
            if not m:
                raise Infra("orderadp: no summary line: " + so[-1000:])
            stats["plans"] += int(m.group(1))
            stats["discarded"] += int(m.group(2))
            stats["incomplete"] += len(re.findall(r"^INCOMPLETE ", so, re.M))
            for l in re.findall(r"^(?:INCOMPLETE|DISCARDED) .*$", so, re.M)[:5]:
                log("  " + l)
        return stats

    def gen_and_run(self, ctx, prop, tier):
        q = tier == "quick"
        sd = ctx.seed
        jobs = []  # (modes, n, seed)
        if q:
            jobs = [("sync,solo", 12, sd), ("raft1", 7, sd), ("raft1", 7, sd + 500), ("raft3", 14, sd), ("raft3", 14, sd + 500)]
        else:
            jobs = [("sync", 20, sd), ("solo", 150, sd)] + [("raft1", 40, sd + 500 * i) for i in range(5)] + \
                   [("raft3", 60, sd + 500 * i) for i in range(6)]
        procs, dirs = [], []
        for i, (modes, n, s) in enumerate(jobs):
            d = os.path.join(ctx.dir, "t-%d" % i)
            dirs.append(d)
            procs.append(self._spawn(ctx, ["-modes", modes, "-n", str(n), "-seed", str(s)], d))
        stats = self._finish(procs, 1500 if q else 3400)
        traces = []
        for d in dirs:
            traces += self._collect(d)
        bad = stats["discarded"] + stats["incomplete"]
        log("orderadp: %d plans, %d discarded, %d ended early" % (stats["plans"], stats["discarded"], stats["incomplete"]))
        if stats["plans"] and bad * 4 > stats["plans"]:
            raise Infra("too many scenarios could not be driven to their end (%d of %d): the harness or the ordering service is stuck" % (bad, stats["plans"]))
        return traces

    def rerun(self, ctx, plan):
        d = tempfile.mkdtemp(prefix="rerun-", dir=ctx.dir)
        pf = os.path.join(d, "plans.json")
        json.dump([plan], open(pf, "w"))
        self._finish([self._spawn(ctx, ["-plans", pf], d)], 600)
        ts = self._collect(d)
        if not ts:
            raise Infra("re-run produced no trace")
        return ts[0]["file"]


FAMILY = Ordering()
