import json, os, subprocess
import vlib
from vlib import *

# private experiments: build the harness from another module directory (e.g. one whose go.mod points to a copy of /repo)
if os.environ.get("VERIF_HARNESS"):
    vlib.HARNESS = os.environ["VERIF_HARNESS"]
if os.environ.get("VERIF_OUT"):   # ... and keep their evidence / replay files out of /verif
    vlib.EVIDENCE = os.path.join(os.environ["VERIF_OUT"], "evidence")
    vlib.REPLAYS = os.path.join(os.environ["VERIF_OUT"], "replays")

ORDER = {"S": 0, "C": 100, "T": 200}


def canon(atoms):
    return sorted(atoms, key=lambda a: ORDER[a[0]] + int(a[1:]))


def down_closed_prefixes(ids):
    """all prefix combinations of the per-store write sequences (ids like S1,S2,C1,T1..T5)"""
    per = {}
    for a in ids:
        per.setdefault(a[0], []).append(a)
    seqs = [canon(v) for v in per.values()]
    out = [[]]
    for s in seqs:
        out = [o + s[:k] for o in out for k in range(len(s) + 1)]
    return [canon(o) for o in out]


class Persist(Family):
    name = "Persist"
    props = ["C11"]
    adapter = "crashadp"
    trace_module = "PersistTrace.tla"
    trace_cfg = "PersistTrace.cfg"
    assumptions = [
        "atom of durability = one leveldb batch commit (or direct put/delete) and one appended block-file table item; torn writes inside a batch are delegated to leveldb; a crash BETWEEN the two file writes of one table append (data without index entry) is exercised separately (dangle) and is a known finding of the block-file library",
        "process death, not power loss: what was handed to the OS is durable; the crash state is built by dropping whole write atoms through storage.Storage/Batch wrappers and by cutting the last item off block-file tables after a clean close",
        "the interrupted commit is the only fault: recovery itself is not interrupted again",
        "blocks are synthetic (built and completed like internal/executor/handle.go does) with read-modify-write state changes, so that a continuation from a wrong state gives other block hashes; the reference chain is produced by the same code without faults (determinism of execution is property C01)",
        "SHA-256 collision resistance; hashes logged as their first 8 bytes; the state dump is a digest of the whole state store except block journals",
    ]

    def mc_runs(self, prop, tier):
        if tier == "thorough":
            return [("PersistMC.tla", "PersistMC_thorough.cfg", 4, 600)]
        return [("PersistMC.tla", "PersistMC.cfg", 4, 300)]

    def rule(self, prop):
        return ("EXHAUSTIVE over the model: every crashed state reachable in the TLC state graph of PersistMC (each durable write of one block commit is one step; "
                "crash between any two) is printed by TLC as a plan and rebuilt on disk from a really committed ledger at every height class (1 = first block, 5 = normal, "
                "11 = first height above the journal window (no pruning write yet), 12 = first pruning write, 14 = later), then the real blockfile.NewBlockFile + ledger.New "
                "and the remaining reference blocks run in a child process; additionally every prefix combination of write atoms the real code issues that the model does not "
                "know (source unmodelled-write; none on the unchanged tree) and one dangling-table-data case; non-trivial = a crash state with some but not all atoms durable; "
                "distinct by (height, reached set)")

    def nontrivial(self, events, prop):
        for e in events:
            if e["ev"] == "Crash":
                return len(e["reached"]) > 0 and len(e["missing"]) > 0
        return False

    # ---- GEN: crash states from the TLC state graph ----
    def model_plans(self, ctx, tier):
        cfg = "PersistGen_thorough.cfg" if tier == "thorough" else "PersistGen.cfg"
        md = tempfile.mkdtemp(prefix="md-", dir=ctx.sdir)
        rc, out = vlib._tlc(["-workers", "1", "-metadir", md, "-config", cfg, "PersistMC.tla"], ctx.sdir, timeout=600)
        shutil.rmtree(md, ignore_errors=True)
        if "Model checking completed. No error has been found." not in out:
            raise Infra("crash-state enumeration by TLC failed:\n" + out[-3000:])
        plans = []
        for line in out.splitlines():
            if line.startswith('<<"VERIF_PLAN", '):
                body = line[len('<<"VERIF_PLAN", '):]
                body = body[:body.rindex(">>")]
                plans.append(json.loads(json.loads(body)))
        if not plans:
            raise Infra("TLC printed no crash state")
        return plans

    def _probe(self, ctx, heights):
        env = dict(os.environ, TMPDIR=ctx.dir)
        r = subprocess.run([ctx.bin, "-probe", "-seed", str(ctx.seed), "-heights", ",".join(str(h) for h in heights)],
                           stdout=subprocess.PIPE, stderr=subprocess.PIPE, timeout=600, env=env)
        if r.returncode != 0:
            raise Infra("crashadp -probe failed: " + r.stderr.decode(errors="replace")[-2000:])
        return {int(h): [a["id"] for a in atoms] for h, atoms in json.loads(r.stdout.decode()).items()}

    def _run(self, ctx, plans, outdir):
        os.makedirs(outdir, exist_ok=True)
        pf = os.path.join(outdir, "plans-in.json")
        json.dump(plans, open(pf, "w"))
        env = dict(os.environ, TMPDIR=ctx.dir)
        r = subprocess.run([ctx.bin, "-plans", pf, "-out", outdir], stdout=subprocess.PIPE, stderr=subprocess.STDOUT, timeout=3000, env=env)
        if r.returncode != 0:
            raise Infra("crashadp failed: " + r.stdout.decode(errors="replace")[-3000:])
        out = []
        for f in sorted(glob.glob(os.path.join(outdir, "trace-*.ndjson"))):
            plan = json.load(open(f.replace("trace-", "plan-").replace(".ndjson", ".json")))
            out.append({"file": f, "plan": plan, "name": plan.get("name"), "src": plan.get("src", "replay")})
        return out

    def gen_and_run(self, ctx, prop, tier):
        mp = self.model_plans(ctx, tier)
        heights = sorted(set(p["h"] for p in mp))
        nof = {p["h"]: p["n"] for p in mp}
        plans, seen = [], set()

        def add(h, reached, src, dangle=False, sd=ctx.seed):
            reached = canon(reached)
            k = (h, tuple(reached), dangle, sd)
            if k in seen:
                return
            seen.add(k)
            plans.append({"name": "crash-h%d-%s%s%s" % (h, ".".join(reached) or "none", "-dangle" if dangle else "", "" if sd == ctx.seed else "-s%d" % sd),
                          "h": h, "n": nof[h], "reached": reached, "dangle": dangle, "seed": sd, "src": src})
        # thorough: the same crash states on three different reference chains (block contents differ by seed)
        for sd in ([ctx.seed] if tier != "thorough" else [ctx.seed, ctx.seed + 1, ctx.seed + 2]):
            for p in mp:
                add(p["h"], p["reached"], "model-state-graph", sd=sd)
        # write atoms of the real code the model does not know: cover their prefix combinations too
        real = self._probe(ctx, heights)
        for h in heights:
            for r in down_closed_prefixes(real.get(h, [])):
                add(h, r, "unmodelled-write")
        # a crash between the two file writes of one table append (data bytes without index entry)
        for h in (heights if tier == "thorough" else [5 if 5 in heights else heights[0]]):
            add(h, ["S1", "T1"], "dangling-table-data", dangle=True)
        return self._run(ctx, plans, os.path.join(ctx.dir, "t-crash"))

    def rerun(self, ctx, plan):
        d = tempfile.mkdtemp(prefix="rerun-", dir=ctx.dir)
        ts = self._run(ctx, [plan], d)
        if not ts:
            raise Infra("re-run produced no trace")
        return ts[0]["file"]


FAMILY = Persist()
