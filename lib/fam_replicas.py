import json, os
from vlib import *
from fam_exec import run_adapter_resilient, collect


class Replicas(Family):
    name = "Replicas"
    props = ["C01"]
    adapter = "interadp"
    trace_module = "ReplicasTrace.tla"
    trace_cfg = "ReplicasTrace.cfg"
    assumptions = [
        "all replicas receive byte-identical blocks (transactions are built and signed once); every replica creates its own genesis at a different wall-clock time",
        "perturbations: replica 1 is stopped and reopened before every block and verifies proofs in parallel goroutines, replica 2 verifies serially and view-executes every block before executing it, replica 3 is reopened right after genesis and restarted at random; Go map order and goroutine schedules are sampled by repetition, not enumerated",
        "digest = block hash, parent hash, state / tx / receipt / timeout roots, every receipt (tx hash, status, ret, events, receipt hash), canonical rendering of Counter / TimeoutCounter / MultiTxCounter / TimeoutL2Roots with list order preserved",
        "block corpus = the interchain scenario generator (IBTP one-to-one, grouped with 2-3 children over several chains, governance proposals and votes, transfers, direct contract calls, failing transactions); XVM/EVM transactions are not in the corpus",
    ]

    def mc_runs(self, prop, tier):
        return [("ReplicasMC.tla", "ReplicasMC_thorough.cfg" if tier == "thorough" else "ReplicasMC.cfg", 8, 1200)]

    def rule(self, prop):
        return "each seeded interchain scenario (random, group-heavy, timed) is executed on 1 reference + 3 perturbed real replicas; non-trivial = a trace where a replica was restarted and a block carried a grouped IBTP, a timeout or a failed transaction; distinct by event sequence"

    def nontrivial(self, events, prop):
        return any(e["ev"] == "RepRestart" for e in events) and any(e["ev"] == "Block" and (e.get("groups") or e.get("tmeta") or e.get("failed")) for e in events)

    def gen_and_run(self, ctx, prop, tier):
        n = 24 if tier == "quick" else 500
        env = dict(os.environ, TMPDIR=ctx.dir)
        traces = []
        for i, (mode, cnt) in enumerate((("", n), ("group", n), ("timed", n // 2), ("xhub", n // 2), ("rules", n // 2), ("roles", n // 3), ("lifecycle", n // 3))):
            od = os.path.join(ctx.dir, "t-%d" % i)
            args = ["-n", str(cnt), "-seed", str(ctx.seed * 13 + i), "-replicas", "3"] + (["-mode", mode] if mode else [])
            run_adapter_resilient(ctx.bin, args, od, env, "interadp")
            for t in collect(od):
                t["src"] = "replicated-" + (mode or "random")
                traces.append(t)
        return traces

    def rerun(self, ctx, plan):
        d = tempfile.mkdtemp(prefix="rerun-", dir=ctx.dir)
        pf = os.path.join(d, "plans.json")
        json.dump([plan], open(pf, "w"))
        run_adapter_resilient(ctx.bin, ["-plans", pf, "-replicas", "3"], d, dict(os.environ, TMPDIR=ctx.dir), "interadp")
        ts = collect(d)
        if not ts:
            raise Infra("re-run produced no trace")
        return ts[0]["file"]


FAMILY = Replicas()
