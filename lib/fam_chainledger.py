import json, os, subprocess
import vlib
from vlib import *

# private experiments: build the harness from another module directory (e.g. one whose go.mod points to a copy of /repo)
if os.environ.get("VERIF_HARNESS"):
    vlib.HARNESS = os.environ["VERIF_HARNESS"]
if os.environ.get("VERIF_OUT"):   # ... and keep their evidence / replay files out of /verif
    vlib.EVIDENCE = os.path.join(os.environ["VERIF_OUT"], "evidence")
    vlib.REPLAYS = os.path.join(os.environ["VERIF_OUT"], "replays")


class ChainLedger(Family):
    name = "ChainLedger"
    props = ["C09", "C12"]
    adapter = "chainadp"
    trace_module = "ChainLedgerTrace.tla"
    trace_cfg = "ChainLedgerTrace.cfg"
    assumptions = [
        "hashing is outside TLA+: header hash, tx hashes and both Merkle roots are recomputed from the STORED transactions / receipts by an independent implementation in the harness (cmd/chainadp/audit.go) and logged next to the stored values; TLC checks the relations between the logged facts; SHA-256 collision resistance assumed; hashes are logged as their first 8 bytes",
        "a transaction hash is stored at one height at a time (the single tx-meta entry cannot describe two heights); a hash that was live at two heights at once is only required to be answered consistently, not to be found",
        "executor-produced blocks: the executed receipts are not announced by the executor, the logged receipt digests are read back from the block file (receipt agreement is then covered by the receipt root in the announced header); genesis is logged as read back",
        "blocks are given consecutive numbers (height+1); the ledger itself does not check the number it is given",
        "C12 clause checked here: a refused Ledger.Rollback (state + chain) changes no answer of any chain lookup and no chain meta; the state side of C12 is checked by family StateLedger",
    ]

    def mc_runs(self, prop, tier):
        if tier == "thorough":
            return [("ChainLedgerMC.tla", "ChainLedgerMC_thorough.cfg", 14, 3000)]
        return [("ChainLedgerMC.tla", "ChainLedgerMC.cfg", 8, 600)]

    def viol_belongs(self, inv, prop):
        return inv.startswith(prop + "_")

    def rule(self, prop):
        return {"C09": "seeded random histories of the real ledger.Ledger: synthetic blocks (0..n txs, duplicate-looking txs, the same tx twice in a block, failed receipts, interchain-heavy metas) persisted through PersistBlockData, rollbacks to all targets, reopen, re-execution of rolled-back transactions at other heights/positions; histories crossing the 10-block journal window; chains produced by the real executor incl. its own rollbackBlocks path and interchain transactions; a full audit of every lookup after every operation; non-trivial = the trace contains an accepted rollback to a lower height followed by a persisted block; distinct by event sequence",
                "C12": "same generator weighted towards histories longer than the journal window with rollback targets on both sides of its edge and above the head; non-trivial = the trace contains a refused rollback followed by a full audit"}[prop]

    def nontrivial(self, events, prop):
        if prop == "C12":
            return any(e["ev"] == "Rollback" and e["err"] != "ok" for e in events)
        seen_rb = False
        h = 0
        for e in events:
            if e["ev"] == "Persist":
                if seen_rb:
                    return True
                h = e["h"]
            elif e["ev"] == "Rollback" and e["err"] == "ok" and e["t"] < h:
                seen_rb = True
                h = e["t"]
        return False

    def _run(self, ctx, args, outdir):
        env = dict(os.environ, TMPDIR=ctx.dir)
        r = subprocess.run([ctx.bin] + args + ["-out", outdir], stdout=subprocess.PIPE, stderr=subprocess.STDOUT, timeout=1800, env=env)
        if r.returncode != 0:
            raise Infra("chainadp failed: " + r.stdout.decode(errors="replace")[-3000:])
        out = []
        for f in sorted(glob.glob(os.path.join(outdir, "trace-*.ndjson"))):
            plan = json.load(open(f.replace("trace-", "plan-").replace(".ndjson", ".json")))
            name = plan.get("name")
            src = {"synth": "synthetic", "long": "synthetic-window", "exec": "executor", "ibtp": "executor-interchain"}.get(name.split("-")[0], "replay")
            out.append({"file": f, "plan": plan, "name": name, "src": src})
        return out

    def gen_and_run(self, ctx, prop, tier):
        q = tier == "quick"
        if prop == "C12":
            n, nlong, nexec, nibtp = (30, 40, 12, 1) if q else (300, 500, 120, 10)
        else:
            n, nlong, nexec, nibtp = (120, 12, 16, 2) if q else (2500, 150, 250, 20)
        return self._run(ctx, ["-seed", str(ctx.seed), "-n", str(n), "-nlong", str(nlong), "-nexec", str(nexec), "-nibtp", str(nibtp)],
                         os.path.join(ctx.dir, "t-rand"))

    def rerun(self, ctx, plan):
        d = tempfile.mkdtemp(prefix="rerun-", dir=ctx.dir)
        pf = os.path.join(d, "plans.json")
        json.dump([plan], open(pf, "w"))
        ts = self._run(ctx, ["-plans", pf], d)
        if not ts:
            raise Infra("re-run produced no trace")
        return ts[0]["file"]


FAMILY = ChainLedger()


def run_check_c12(tier):
    """C12 = state side (family StateLedger) + the 'refused rollback modifies nothing' clause for the combined
    Ledger.Rollback (this family). Runs both, merges the evidence, returns the worse exit code."""
    import fam_stateledger
    rc1 = vlib.run_check(fam_stateledger.FAMILY, "C12", tier)
    p = os.path.join(vlib.EVIDENCE, "C12.json")
    ev1 = json.load(open(p)) if os.path.exists(p) else None
    rc2 = vlib.run_check(FAMILY, "C12", tier)
    ev2 = json.load(open(p)) if os.path.exists(p) else None
    if ev1 and ev2 and rc2 != 2:
        c1, c2 = ev1["coverage"], ev2["coverage"]
        for k in ("states", "transitions", "traces_validated_against_impl", "evaluations", "distinct_nontrivial", "drift"):
            c1[k] = c1.get(k, 0) + c2.get(k, 0)
        c1["model_checking"] = c1.get("model_checking", []) + c2.get("model_checking", [])
        c1["rule"] = c1.get("rule", "") + " || combined ledger: " + c2.get("rule", "")
        c1["samples"] = (c1.get("samples", []) + c2.get("samples", []))[:3]
        c1["known_findings_hit"] = sorted(set(c1.get("known_findings_hit", []) + c2.get("known_findings_hit", [])))
        ts = dict(c1.get("trace_sources", {}))
        for k, v in c2.get("trace_sources", {}).items():
            ts[k] = ts.get(k, 0) + v
        c1["trace_sources"] = ts
        ev1["violations"] = ev1.get("violations", 0) + ev2.get("violations", 0)
        ev1["wall_s"] = round(ev1.get("wall_s", 0) + ev2.get("wall_s", 0), 2)
        ev1["assumptions"] = ev1.get("assumptions", []) + [a for a in ev2.get("assumptions", []) if a not in ev1.get("assumptions", [])]
        tmp = p + ".tmp"
        json.dump(ev1, open(tmp, "w"), indent=1)
        os.replace(tmp, p)
    rcs = [rc1, rc2]
    return 1 if 1 in rcs else (2 if 2 in rcs else 0)
