"""Common machinery for /verif checks: scratch dirs, harness builds, TLC runs (MC / simulate / trace
validation), verdict, evidence.  Python 3 stdlib only."""
import json, os, re, shutil, subprocess, sys, tempfile, time, glob, hashlib

VERIF = os.path.dirname(os.path.dirname(os.path.abspath(__file__)))
SPEC = os.path.join(VERIF, "spec")
HARNESS = os.path.join(VERIF, "harness")
BUILD = os.path.join(VERIF, ".build")
REPLAYS = os.path.join(VERIF, "replays")
EVIDENCE = os.path.join(VERIF, "evidence")
KNOWN = os.path.join(VERIF, "known_findings.json")
REPO = "/repo"
# private experiments only (bin/vmutant-par: seeded changes tried side by side in scratch worktrees): build the harness from a copy
# of the harness module whose go.mod points to a scratch worktree, and keep build output, evidence and replay files out of /verif.
# The registered checks never set these: they build from /repo's working tree and write /verif/evidence.
if os.environ.get("VERIF_HARNESS"):
    HARNESS = os.environ["VERIF_HARNESS"]
if os.environ.get("VERIF_OUT"):
    BUILD = os.path.join(os.environ["VERIF_OUT"], "build")
    EVIDENCE = os.path.join(os.environ["VERIF_OUT"], "evidence")
    REPLAYS = os.path.join(os.environ["VERIF_OUT"], "replays")

GOENV = dict(os.environ, GOFLAGS="-mod=mod", GOPROXY="off", GOSUMDB="off", GOTOOLCHAIN="local")


class Infra(Exception):
    """infrastructure problem: exit 2, never a violation"""


def log(*a):
    print(*a, file=sys.stderr, flush=True)


def seed():
    try:
        return int(os.environ.get("VERIF_SEED", "1"))
    except ValueError:
        return 1


def scratch(prefix):
    base = os.environ.get("TMPDIR", "/tmp")
    d = tempfile.mkdtemp(prefix="verif-%s-" % prefix, dir=base)
    return d


def ensure_setup():
    if not os.path.exists(os.path.join(HARNESS, "go.mod")):
        subprocess.run([os.path.join(VERIF, "bin", "vsetup")], check=True, stdout=subprocess.DEVNULL)
    for d in (BUILD, REPLAYS, EVIDENCE):
        os.makedirs(d, exist_ok=True)


def go_build(cmd, out=None, tags="verif", timeout=900):
    """build harness/cmd/<cmd> against /repo's current working tree"""
    ensure_setup()
    out = out or os.path.join(BUILD, cmd)
    t0 = time.time()
    r = subprocess.run(["go", "build", "-tags", tags, "-ldflags=-checklinkname=0", "-o", out, "./cmd/" + cmd],
                       cwd=HARNESS, env=GOENV, stdout=subprocess.PIPE, stderr=subprocess.STDOUT, timeout=timeout)
    if r.returncode != 0:
        raise Infra("go build %s failed:\n%s" % (cmd, r.stdout.decode()[-4000:]))
    log("built %s in %.1fs" % (cmd, time.time() - t0))
    return out


def _tlc(args, cwd, env=None, timeout=1800):
    e = dict(os.environ)
    # TLC makes an (empty) tlc-<n> directory in java.io.tmpdir at every start: keep it inside the check's scratch directory
    jtmp = os.path.join(cwd, ".jtmp")
    os.makedirs(jtmp, exist_ok=True)
    e["JAVA_TOOL_OPTIONS"] = (e.get("JAVA_TOOL_OPTIONS", "") + " -Xss512m -Djava.io.tmpdir=" + jtmp).strip()
    if env:
        e.update(env)
    # run under a watchdog: time limit and a cap on the size of TLC's state directory (a mis-sized model must not fill the disk)
    md = args[args.index("-metadir") + 1] if "-metadir" in args else None
    outf = tempfile.TemporaryFile()
    p = subprocess.Popen(["tlc"] + args, cwd=cwd, env=e, stdout=outf, stderr=subprocess.STDOUT, start_new_session=True)
    t0 = time.time()
    why = None
    while p.poll() is None:
        time.sleep(2)
        if time.time() - t0 > timeout:
            why = "timed out after %ds" % timeout
        elif md and int(time.time() - t0) % 20 < 2 and os.path.isdir(md):
            try:
                sz = int(subprocess.run(["du", "-sm", md], stdout=subprocess.PIPE).stdout.split()[0])
            except Exception:
                sz = 0
            if sz > 12000:
                why = "state directory exceeded 12 GB"
        if why:
            try:
                os.killpg(p.pid, 9)
            except Exception:
                pass
            p.wait()
            if md:
                shutil.rmtree(md, ignore_errors=True)
            raise Infra("tlc %s: %s" % (why, " ".join(args)))
    outf.seek(0)
    return p.returncode, outf.read().decode(errors="replace")


def stage_specs(sdir):
    os.makedirs(sdir, exist_ok=True)
    for f in glob.glob(os.path.join(SPEC, "*.tla")) + glob.glob(os.path.join(SPEC, "*.cfg")):
        shutil.copy(f, sdir)


def tlc_mc(sdir, module, cfg, workers=8, timeout=1800, extra=None):
    """exhaustive model checking; returns dict(states, distinct, depth, ok, out)"""
    md = tempfile.mkdtemp(prefix="md-", dir=sdir)
    args = ["-workers", str(workers), "-metadir", md, "-config", cfg] + (extra or []) + [module]
    rc, out = _tlc(args, sdir, timeout=timeout)
    shutil.rmtree(md, ignore_errors=True)
    m = re.search(r"(\d+) states generated, (\d+) distinct states found, (\d+) states left", out)
    res = {"rc": rc, "out": out, "generated": int(m.group(1)) if m else 0, "distinct": int(m.group(2)) if m else 0,
           "left": int(m.group(3)) if m else -1}
    d = re.search(r"depth of the complete state graph search is (\d+)", out)
    res["depth"] = int(d.group(1)) if d else 0
    res["ok"] = ("Model checking completed. No error has been found." in out) and rc == 0
    res["violated"] = re.findall(r"Invariant (\S+) is violated", out) + re.findall(r"Action property (\S+) is violated", out)
    return res


def tlc_simulate_plans(sdir, module, cfg, num, depth, sd, timeout=600, marker="VERIF_PLAN"):
    """model-guided input generation: random walks; each finished walk printed as <<marker, json>>"""
    md = tempfile.mkdtemp(prefix="md-", dir=sdir)
    args = ["-workers", "1", "-simulate", "num=%d" % num, "-depth", str(depth), "-seed", str(sd),
            "-metadir", md, "-config", cfg, module]
    rc, out = _tlc(args, sdir, timeout=timeout)
    shutil.rmtree(md, ignore_errors=True)
    plans, seen = [], set()
    for line in out.splitlines():
        if line.startswith('<<"%s", ' % marker):
            body = line[len('<<"%s", ' % marker):]
            body = body[:body.rindex(">>")]
            try:
                js = json.loads(body)  # TLC prints the string with JSON-compatible escapes
                val = json.loads(js)
            except Exception as ex:  # pragma: no cover
                raise Infra("cannot parse generated plan: %s: %s" % (ex, line[:200]))
            k = json.dumps(val, sort_keys=True)
            if k not in seen:
                seen.add(k)
                plans.append(val)
    if not plans and "Error" in out:
        raise Infra("tlc -simulate failed:\n" + out[-3000:])
    return plans


def tlc_validate(sdir, module, cfg, trace_file, timeout=1800):
    """trace validation; returns dict(lines, consumed, viol:[...], drift:[...], accepted, out)"""
    md = tempfile.mkdtemp(prefix="md-", dir=sdir)
    args = ["-workers", "1", "-metadir", md, "-config", cfg, module]
    rc, out = _tlc(args, sdir, env={"TRACE": trace_file}, timeout=timeout)
    shutil.rmtree(md, ignore_errors=True)
    res = {"rc": rc, "out": out, "viol": [], "drift": [], "info": [], "lines": -1, "consumed": -2}
    m = re.search(r'<<"VERIF_RESULT", "lines", (\d+), "consumed", (\d+)>>', out)
    if m:
        res["lines"], res["consumed"] = int(m.group(1)), int(m.group(2))
    for key, tag in (("viol", "VERIF_VIOL"), ("drift", "VERIF_DRIFT"), ("info", "VERIF_INFO")):
        m = re.search(r'<<\s*"%s",\s*("(?:[^"\\]|\\.)*")\s*>>' % tag, out, re.S)
        if m:
            try:
                res[key] = json.loads(json.loads(m.group(1)))
            except Exception as ex:
                raise Infra("cannot parse %s: %s" % (tag, ex))
    res["accepted"] = res["lines"] >= 0 and res["lines"] == res["consumed"]
    if not m and "VERIF_RESULT" not in out:
        raise Infra("trace validation did not finish:\n" + out[-4000:])
    return res


def concat_traces(files, dst):
    """concatenate ndjson traces; returns index: list of (first_line, last_line, file, name)"""
    idx, n = [], 0
    with open(dst, "w") as o:
        for f in files:
            with open(f) as i:
                lines = [x for x in i.read().splitlines() if x.strip()]
            if not lines:
                continue
            try:
                name = json.loads(lines[0]).get("name", os.path.basename(f))
            except Exception:
                name = os.path.basename(f)
            idx.append((n + 1, n + len(lines), f, name))
            for x in lines:
                o.write(x + "\n")
            n += len(lines)
    return idx


def load_known():
    if not os.path.exists(KNOWN):
        return []
    return json.load(open(KNOWN)).get("findings", [])


def save_replay(prop, name, trace_file, plan_obj, family):
    os.makedirs(REPLAYS, exist_ok=True)
    safe = re.sub(r"[^A-Za-z0-9_.-]", "_", name)
    dst = os.path.join(REPLAYS, "%s-%s.replay.json" % (prop, safe))
    with open(trace_file) as f:
        trace = f.read()
    json.dump({"property": prop, "family": family, "name": name, "plan": plan_obj, "trace": trace}, open(dst, "w"))
    return dst


def write_evidence(prop, tier, level, coverage, assumptions, wall, violations, extra=None):
    os.makedirs(EVIDENCE, exist_ok=True)
    ev = {"property_id": prop, "tier": tier, "seed": seed(), "level": level, "coverage": coverage,
          "assumptions": assumptions, "wall_s": round(wall, 2), "violations": violations}
    if extra:
        ev.update(extra)
    tmp = os.path.join(EVIDENCE, prop + ".json.tmp")
    json.dump(ev, open(tmp, "w"), indent=1)
    os.replace(tmp, os.path.join(EVIDENCE, prop + ".json"))


def repo_state():
    try:
        h = subprocess.run(["git", "-C", REPO, "rev-parse", "HEAD"], stdout=subprocess.PIPE).stdout.decode().strip()
        d = subprocess.run(["git", "-C", REPO, "status", "--porcelain"], stdout=subprocess.PIPE).stdout.decode().strip()
        return {"head": h, "dirty": bool(d)}
    except Exception:
        return {}


# ------------------------------------------------------------------------------------------------
# generic family check
# ------------------------------------------------------------------------------------------------
class Family:
    name = ""
    props = []
    adapter = ""
    trace_module = ""
    trace_cfg = ""
    level = "model_checking"
    assumptions = []

    def mc_runs(self, prop, tier):
        """list of (module, cfg, workers, timeout)"""
        return []

    def gen_and_run(self, ctx, prop, tier):
        """produce real traces: returns list of dict(file=..., plan=..., name=..., src='model'|'random')"""
        raise NotImplementedError

    def rerun(self, ctx, plan):
        """re-execute one plan, return trace file"""
        raise NotImplementedError

    def group(self, traces, t, prop):
        """traces whose inputs are needed together to reproduce a verdict on t (default: t alone)"""
        return [t]

    def nontrivial(self, events, prop):
        return len(events) > 2

    def viol_belongs(self, inv, prop):
        return inv.startswith(prop + "_")

    def rule(self, prop):
        return ""


class Ctx:
    def __init__(self, fam, prop, tier):
        self.fam, self.prop, self.tier = fam, prop, tier
        self.seed = seed()
        self.dir = scratch(fam.name + "-" + prop)
        self.sdir = os.path.join(self.dir, "spec")
        stage_specs(self.sdir)
        self.bin = None

    def cleanup(self):
        shutil.rmtree(self.dir, ignore_errors=True)


def match_known(known, prop, v):
    """v = [trace, line, inv, detail?]"""
    inv = v[2]
    detail = v[3] if len(v) > 3 else ""
    if not isinstance(detail, str):
        detail = json.dumps(detail, sort_keys=True)
    for k in known:
        if k.get("status") != "known" or k.get("property") != prop:
            continue
        m = k.get("match", {})
        if m.get("inv") and m["inv"] != inv:
            continue
        if m.get("detail_regex") and not re.search(m["detail_regex"], detail):
            continue
        return k
    return None


CHUNK_LINES = 5000


def validate_files(ctx, fam, files):
    """validate the traces against the trace specification; big sets are cut into chunks of whole traces that are
    validated by several TLC processes at once (every trace starts from its own Init event, so chunks are independent);
    line numbers in the merged result count through the concatenation of all traces"""
    stamp = int(time.time() * 1000)
    allnd = os.path.join(ctx.dir, "all-%d.ndjson" % stamp)
    idx = concat_traces(files, allnd)
    total = idx[-1][1] if idx else 0
    if total <= CHUNK_LINES * 2:
        return idx, tlc_validate(ctx.sdir, fam.trace_module, fam.trace_cfg, allnd)
    os.remove(allnd)
    chunks, cur, n = [], [], 0
    for ent in idx:
        cur.append(ent)
        n += ent[1] - ent[0] + 1
        if n >= CHUNK_LINES:
            chunks.append(cur)
            cur, n = [], 0
    if cur:
        chunks.append(cur)

    def one(ci):
        ch = chunks[ci]
        dst = os.path.join(ctx.dir, "chunk-%d-%d.ndjson" % (stamp, ci))
        concat_traces([e[2] for e in ch], dst)
        r = tlc_validate(ctx.sdir, fam.trace_module, fam.trace_cfg, dst)
        os.remove(dst)
        return r

    from concurrent.futures import ThreadPoolExecutor
    with ThreadPoolExecutor(max_workers=max(2, min(8, (os.cpu_count() or 4) // 2))) as ex:
        results = list(ex.map(one, range(len(chunks))))
    res = {"rc": 0, "out": "", "viol": [], "drift": [], "info": [], "lines": total, "consumed": total, "accepted": True}
    for ch, r in zip(chunks, results):
        off = ch[0][0] - 1
        for key in ("viol", "drift", "info"):
            for v in r[key]:
                v = list(v)
                if len(v) > 1 and isinstance(v[1], int):
                    v[1] += off
                res[key].append(v)
        if not r["accepted"] and res["accepted"]:
            res["accepted"] = False
            res["consumed"] = off + max(r["consumed"], 0)
            res["out"] = r["out"]
            res["rc"] = r["rc"]
    return idx, res


def run_check(fam, prop, tier):
    t0 = time.time()
    ctx = Ctx(fam, prop, tier)
    try:
        return _run_check(ctx, fam, prop, tier, t0)
    except Infra as e:
        log("INFRASTRUCTURE ERROR: %s" % e)
        return 2
    finally:
        if os.environ.get("VERIF_KEEP") != "1":
            ctx.cleanup()
        else:
            log("scratch kept: " + ctx.dir)


def _run_check(ctx, fam, prop, tier, t0):
    if fam.adapter:
        ctx.bin = go_build(fam.adapter, out=os.path.join(ctx.dir, fam.adapter))
    # 1. MC: the design, exhaustively within bounds
    states = trans = 0
    mc_info = []
    for (module, cfg, workers, timeout) in fam.mc_runs(prop, tier):
        r = tlc_mc(ctx.sdir, module, cfg, workers=workers, timeout=timeout)
        mc_info.append({"module": module, "cfg": cfg, "generated": r["generated"], "distinct": r["distinct"],
                        "depth": r["depth"], "complete": r["left"] == 0})
        if not r["ok"]:
            raise Infra("model checking of %s/%s did not pass (specification-level problem, not a verdict on the code): %s\n%s"
                        % (module, cfg, r["violated"], r["out"][-3000:]))
        states += r["distinct"]
        trans += r["generated"]
        log("MC %s %s: %d distinct / %d generated, depth %d" % (module, cfg, r["distinct"], r["generated"], r["depth"]))
    # 2./3. GEN + RUN
    traces = fam.gen_and_run(ctx, prop, tier)
    if not traces:
        raise Infra("no traces produced")
    files = [t["file"] for t in traces]
    byfile = {t["file"]: t for t in traces}
    # 4. VAL
    idx, res = validate_files(ctx, fam, files)
    if not res["accepted"]:
        # find the trace that contains the first unconsumed line
        bad = [i for i in idx if i[0] <= res["consumed"] + 1 <= i[1]]
        raise Infra("trace not fully consumed by the trace specification at line %d (%s)\n%s" %
                    (res["consumed"] + 1, bad[0][2] if bad else "?", res["out"][-3000:]))
    byname = {i[3]: i for i in idx}
    known = load_known()
    mine, others, kf_hit = {}, {}, {}
    for v in res["viol"]:
        tname, line, inv = v[0], v[1], v[2]
        if fam.viol_belongs(inv, prop):
            k = match_known(known, prop, v)
            if k is not None:
                kf_hit.setdefault(k["id"], k)
                continue
            mine.setdefault(tname, []).append(v)
        else:
            others.setdefault(inv, 0)
            others[inv] += 1
    drift = res["drift"]
    for k in kf_hit.values():
        print("KNOWN-FINDING: property=%s %s" % (prop, k.get("what", k["id"])), flush=True)
    # coverage numbers
    nontriv, distinct = 0, set()
    events = 0
    samples = []
    for (a, b, f, name) in idx:
        evs = [json.loads(x) for x in open(f).read().splitlines() if x.strip()]
        events += len(evs)
        sig = hashlib.sha1(json.dumps([fam_sig(e) for e in evs], sort_keys=True).encode()).hexdigest()
        if fam.nontrivial(evs, prop) and sig not in distinct:
            distinct.add(sig)
            nontriv += 1
        if len(samples) < 2 and fam.nontrivial(evs, prop):
            samples.append({"trace": name, "source": byfile[f].get("src", ""), "events": [fam_sig(e) for e in evs][:12]})
    if not samples:
        samples.append({"trace": idx[0][3], "events": []})
    # 5. verdict
    violations = 0
    exit_code = 0
    unreproduced = []
    for tname, vs in mine.items():
        if violations >= 3:
            log("further violating traces not re-run: %d" % (len(mine) - 3))
            break
        (a, b, f, name) = byname[tname]
        t = byfile[f]
        # reproduce: re-run the same inputs, validate alone
        reproduced = False
        grp = fam.group(traces, t, prop)
        # a liveness observation (C08_Alive: a block not executed within the time limit, a node that did not come back) can be
        # an artefact of a loaded machine: it gets three re-runs; everything else one
        timing_only = all(v[2] == "C08_Alive" for v in vs)
        # replica disagreement that depends on how goroutines are scheduled (C01 says it must not) need not show in every run of
        # the same inputs either: three re-runs as well; only a reproduced disagreement is a verdict
        sched = all(v[2] == "C01_Agreement" for v in vs)
        for attempt in range(3 if (timing_only or sched) else 1):
            try:
                f2 = [fam.rerun(ctx, x["plan"]) for x in grp]
                _, r2 = validate_files(ctx, fam, f2)
                reproduced = any(fam.viol_belongs(v[2], prop) and match_known(known, prop, v) is None for v in r2["viol"])
            except Infra as e:
                log("re-run failed: %s" % e)
                reproduced = False
            if reproduced:
                break
        if not reproduced and timing_only:
            # never again in three re-runs of the very same inputs: reported, recorded in the evidence, not a verdict
            print("UNREPRODUCED: property=%s trace=%s %s %s (3 re-runs of the same inputs passed)" % (prop, tname, vs[0][2], json.dumps(vs[0][3] if len(vs[0]) > 3 else "")), flush=True)
            unreproduced.append({"trace": tname, "formula": vs[0][2], "detail": vs[0][3] if len(vs[0]) > 3 else None})
            continue
        if not reproduced:
            log("violation %s in %s did not reproduce on re-run; treated as infrastructure problem" % (vs[0][2], tname))
            exit_code = max(exit_code, 2)
            continue
        violations += 1
        rp = save_replay(prop, tname, f, [x["plan"] for x in grp], fam.name)
        invs = sorted(set(v[2] for v in vs))
        print("VIOLATION property=%s replay=%s" % (prop, rp), flush=True)
        log("  violated: %s at trace lines %s" % (invs, sorted(set(v[1] - a + 1 for v in vs))[:5]))
        exit_code = 1
    if violations > 0:
        exit_code = 1   # a reproduced violation is the verdict, whatever else did not reproduce
    for d in drift[:20]:
        print("DRIFT: family=%s trace=%s line=%s field=%s" % (fam.name, d[0], d[1], d[2]), flush=True)
    cov = {"states": max(states, 1) if mc_info else 0, "transitions": max(trans, 1) if mc_info else 0,
           "traces_validated_against_impl": len(idx), "evaluations": events, "distinct_nontrivial": nontriv,
           "rule": fam.rule(prop), "samples": samples, "exhaustive": False, "model_checking": mc_info,
           "drift": len(drift), "known_findings_hit": sorted(kf_hit.keys()),
           "other_property_violations_seen": others,
           "trace_sources": {s: sum(1 for t in traces if t.get("src") == s) for s in set(t.get("src") for t in traces)},
           "unreproduced_liveness_observations": unreproduced,
           "repo": repo_state()}
    write_evidence(prop, tier, fam.level, cov, fam.assumptions, time.time() - t0, violations)
    log("%s %s: %d traces / %d events validated, %d violations, %d drift, %.1fs" %
        (prop, tier, len(idx), events, violations, len(drift), time.time() - t0))
    return exit_code


def fam_sig(e):
    """compact rendering of one trace event for samples / distinctness"""
    return {k: v for k, v in e.items() if k not in ("st", "q", "seq", "dump", "state")}


def run_replay(fam, rp):
    """re-execute a saved replay's inputs against the current tree and re-validate"""
    prop = rp["property"]
    ctx = Ctx(fam, prop, "quick")
    try:
        if fam.adapter:
            ctx.bin = go_build(fam.adapter, out=os.path.join(ctx.dir, fam.adapter))
        plans = rp["plan"] if isinstance(rp["plan"], list) else [rp["plan"]]
        fs = [fam.rerun(ctx, x) for x in plans]
        f = fs[-1]
        idx, res = validate_files(ctx, fam, fs)
        known = load_known()
        bad = [v for v in res["viol"] if fam.viol_belongs(v[2], prop) and match_known(known, prop, v) is None]
        if not res["accepted"]:
            log("replay: trace not accepted")
            return 2
        if bad:
            p = save_replay(prop, rp["name"], f, rp["plan"], fam.name)
            print("VIOLATION property=%s replay=%s" % (prop, p))
            log("  violated: %s" % sorted(set(v[2] for v in bad)))
            return 1
        print("replay: property %s holds on this input" % prop)
        return 0
    except Infra as e:
        log("INFRASTRUCTURE ERROR: %s" % e)
        return 2
    finally:
        ctx.cleanup()


def run_composite(fams, prop, tier):
    """a property decided on the traces of several families: run each, merge the evidence, worst exit code wins"""
    p = os.path.join(EVIDENCE, prop + ".json")
    rcs, evs = [], []
    for fam in fams:
        rcs.append(run_check(fam, prop, tier))
        if os.path.exists(p):
            evs.append(json.load(open(p)))
    if len(evs) == len(fams) and evs:
        ev1 = evs[0]
        c1 = ev1["coverage"]
        for ev2 in evs[1:]:
            c2 = ev2["coverage"]
            for k in ("states", "transitions", "traces_validated_against_impl", "evaluations", "distinct_nontrivial", "drift"):
                c1[k] = c1.get(k, 0) + c2.get(k, 0)
            c1["model_checking"] = c1.get("model_checking", []) + c2.get("model_checking", [])
            c1["rule"] = c1.get("rule", "") + " || " + c2.get("rule", "")
            c1["samples"] = (c1.get("samples", []) + c2.get("samples", []))[:3]
            c1["known_findings_hit"] = sorted(set(c1.get("known_findings_hit", []) + c2.get("known_findings_hit", [])))
            ts = dict(c1.get("trace_sources", {}))
            for k, v in c2.get("trace_sources", {}).items():
                ts[k] = ts.get(k, 0) + v
            c1["trace_sources"] = ts
            ev1["violations"] = ev1.get("violations", 0) + ev2.get("violations", 0)
            ev1["wall_s"] = round(ev1.get("wall_s", 0) + ev2.get("wall_s", 0), 2)
            ev1["assumptions"] = ev1.get("assumptions", []) + [a for a in ev2.get("assumptions", []) if a not in ev1.get("assumptions", [])]
        tmp = p + ".tmp"
        json.dump(ev1, open(tmp, "w"), indent=1)
        os.replace(tmp, p)
    return 1 if 1 in rcs else (2 if 2 in rcs else 0)
