import json, os
from vlib import *
from fam_exec import run_adapter_resilient, collect


class Governance(Family):
    name = "Governance"
    props = ["C15"]
    adapter = "interadp"
    trace_module = "GovernanceTrace.tla"
    trace_cfg = "GovernanceTrace.cfg"
    assumptions = [
        "the set of administrators eligible for a proposal is the set of governance admins observed available (role query) at the block boundary before the proposal was created; scenarios submit / vote / withdraw one transaction per block",
        "strategy expressions are the five used by the driver (a>0.5*t, a==t, a>=1, a>=2, a*3>t*2), all admitted by the configuration check; genesis has 4 admins, admin 0 is the only super admin; further admins are registered through RoleMgr proposals",
        "a proposal ended for another reason than the tally (withdrawn, cleared, forced by a higher-priority proposal) is not judged by the strategy clause",
    ]

    def mc_runs(self, prop, tier):
        return [("GovernanceMC.tla", "GovernanceMC_thorough.cfg" if tier == "thorough" else "GovernanceMC.cfg", 8, 1500)]

    def rule(self, prop):
        return ("seeded governance scenarios on the real executor: proposals of several kinds and priorities on the same objects (service / appchain freeze, activate, logout, update, admin registration, admin freeze / activate, strategy update), "
                "votes by admins, outsiders, not-yet / frozen admins with approve / reject / garbage ballots, repeated votes, votes on finished proposals, withdrawals, restarts; "
                "non-trivial = trace in which a proposal was concluded by the tally; distinct by event sequence")

    def nontrivial(self, events, prop):
        return any(p["status"] in ("approve", "reject") and p["endReason"] == "end of normal voting" for e in events if e["ev"] == "Block" for p in e.get("props", []))

    def gen_and_run(self, ctx, prop, tier):
        n = 150 if tier == "quick" else 3000
        od = os.path.join(ctx.dir, "t-gov")
        run_adapter_resilient(ctx.bin, ["-n", str(n), "-seed", str(ctx.seed * 17), "-mode", "gov"], od, dict(os.environ, TMPDIR=ctx.dir), "interadp")
        ts = collect(od)
        for t in ts:
            t["src"] = "random-governance"
        return ts

    def rerun(self, ctx, plan):
        d = tempfile.mkdtemp(prefix="rerun-", dir=ctx.dir)
        pf = os.path.join(d, "plans.json")
        json.dump([plan], open(pf, "w"))
        run_adapter_resilient(ctx.bin, ["-plans", pf], d, dict(os.environ, TMPDIR=ctx.dir), "interadp")
        ts = collect(d)
        if not ts:
            raise Infra("re-run produced no trace")
        return ts[0]["file"]


FAMILY = Governance()
